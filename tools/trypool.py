#!/usr/bin/env python3
"""development helper: walk one pool machine and replay it, without touching evidence/
   tools/trypool.py XrGen XrGen.cfg 500 11 [seed]"""
import os
import sys
ROOT = os.path.dirname(os.path.dirname(os.path.abspath(__file__)))
sys.path.insert(0, os.path.join(ROOT, "lib"))
sys.path.insert(0, ROOT)
import vf, poolcheck  # noqa


class Dry(vf.Check):
    def finish(self):
        print("evaluations", self.cov["evaluations"], "violations", len(self.violations))
        return 1 if self.violations else 0


mod, cfg, n, depth = sys.argv[1], sys.argv[2], int(sys.argv[3]), int(sys.argv[4])
seed = int(sys.argv[5]) if len(sys.argv) > 5 else 1
vf.REPLAYS = os.path.join(vf.WORK, "try-replays")
os.makedirs(vf.REPLAYS, exist_ok=True)
chk = Dry("TRY", "dev", seed, "dev")
kw = {}
if mod == "XrGen":
    kw = dict(kind="generator", limits={"calls": 200000, "depth": 400})
if mod == "XrStr":
    from checks import c18
    c18.strings_part(chk, n, seed, "tryXrStr")
    sys.exit(chk.finish())
if mod == "XrMap":
    from checks import c17
    c17.run(chk, "dev", seed, "tryXrMap")
    sys.exit(chk.finish())
poolcheck.run_pool(chk, mod, cfg, "try" + mod, n, depth, seed, **kw)
sys.exit(chk.finish())
