INIT Init
NEXT Next
CONSTANT MaxOps = 3
INVARIANT Case
INVARIANT GroupingIsOrderPreserving
CHECK_DEADLOCK FALSE
