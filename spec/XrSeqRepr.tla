------------------------------ MODULE XrSeqRepr ------------------------------
(***************************************************************************)
(* Representation layer of M5 (sequences): the eight lazy representations  *)
(* of a Sequence value (src/builtin/sequence.rs: Empty, Array, Range, Map, *)
(* Zip, Chain, Slice, Count) with the invariants the implementation        *)
(* relies on in len / get:                                                 *)
(*   - Range has step # 0                                                  *)
(*   - Chain: at least two parts, exactly one more part than midpoints,    *)
(*            every part but the last finite, midpoints = cumulative       *)
(*            lengths of the parts                                         *)
(*   - Slice: start < end <= length of the source; an open end only over   *)
(*            an infinite source                                           *)
(* RLen is the length the representation denotes; it must equal the length *)
(* the implementation reports (hook verif_dump: `len`, `repr`), for the    *)
(* value and for every node of its representation tree.                    *)
(* (The comments in sequence.rs also promise that Empty is the only        *)
(* representation of length 0 and that chain parts are non-empty; the      *)
(* unchanged implementation does not keep that - to_array of an empty      *)
(* generator is Array(0), a map over Empty stays a Map - and nothing       *)
(* observable depends on it, so it is not demanded here.)                  *)
(*   env TRACE = ndjson of {ev:"Seq", len (-1 = infinite), repr}           *)
(***************************************************************************)
EXTENDS Integers, Sequences, TLC, Json, IOUtils

Rec == ndJsonDeserialize(IOEnv.TRACE)
VARIABLE l

Inf == -1

RangeLen(a, b, s) ==
    IF s > 0 /\ a < b THEN 1 + (b - 1 - a) \div s
    ELSE IF s < 0 /\ a > b THEN 1 + (a - 1 - b) \div (-s)
    ELSE 0

RECURSIVE RLen(_), MinFin(_, _, _), Cumul(_, _, _), OK(_)

\* length denoted by a representation tree (Inf = infinite)
RLen(r) ==
    CASE r.k = "Empty" -> 0
      [] r.k = "Array" -> r.n
      [] r.k = "Range" -> RangeLen(r.start, r.end, r.step)
      [] r.k = "Map"   -> RLen(r.of)
      [] r.k = "Zip"   -> MinFin(r.of, 1, Inf)
      [] r.k = "Chain" -> LET last == RLen(r.of[Len(r.of)])
                          IN IF last = Inf THEN Inf ELSE last + r.mid[Len(r.mid)]
      [] r.k = "Slice" -> IF r.end = Inf THEN Inf ELSE r.end - r.start
      [] r.k = "Count" -> Inf

\* a zip is as long as its shortest finite part; infinite when every part is
MinFin(parts, i, acc) ==
    IF i > Len(parts) THEN acc
    ELSE LET n == RLen(parts[i])
         IN MinFin(parts, i + 1, IF n = Inf THEN acc ELSE IF acc = Inf \/ n < acc THEN n ELSE acc)

\* midpoints are the running sums of the part lengths
Cumul(r, i, sum) ==
    IF i > Len(r.mid) THEN TRUE
    ELSE LET n == RLen(r.of[i])
         IN n # Inf /\ r.mid[i] = sum + n /\ Cumul(r, i + 1, sum + n)

OK(r) ==
    CASE r.k = "Empty" -> TRUE
      [] r.k = "Array" -> r.n >= 0
      [] r.k = "Range" -> r.step # 0
      [] r.k = "Map"   -> OK(r.of)
      [] r.k = "Zip"   -> /\ Len(r.of) >= 1
                          /\ \A i \in 1..Len(r.of) : OK(r.of[i])
      [] r.k = "Chain" -> /\ Len(r.of) >= 2
                          /\ Len(r.mid) = Len(r.of) - 1
                          /\ \A i \in 1..Len(r.of) : OK(r.of[i])
                          /\ Cumul(r, 1, 0)
      [] r.k = "Slice" -> /\ OK(r.of)
                          /\ r.start >= 0
                          /\ LET n == RLen(r.of)
                             IN IF r.end = Inf THEN n = Inf
                                ELSE r.start <= r.end /\ (n = Inf \/ r.end <= n)
      [] r.k = "Count" -> TRUE
      [] OTHER -> FALSE

SeqOK(e) ==
    /\ OK(e.repr)
    /\ RLen(e.repr) = e.len                      \* the implementation's len() is the denoted length

Init == l = 1
Next == l <= Len(Rec) /\ Rec[l].ev = "Seq" /\ SeqOK(Rec[l]) /\ l' = l + 1
Spec == Init /\ [][Next]_l
Accepted ==
    LET d == TLCGet("stats").diameter
    IN IF d - 1 = Len(Rec) THEN PrintT(<<"TRACE_ACCEPTED", Len(Rec)>>)
       ELSE PrintT(<<"TRACE_REJECTED_AT", d, ToJson(Rec[d])>>) /\ FALSE
=============================================================================
