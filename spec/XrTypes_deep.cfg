INIT Init
NEXT Next
CONSTANT Deep = TRUE
INVARIANT EmitPair
INVARIANT Reflexive
INVARIANT UnknownIsBottom
INVARIANT CommonCommutes
INVARIANT CommonIdempotent
INVARIANT CommonIsUpperBound
INVARIANT CommonIsLeast
INVARIANT AssignableIsTransitive
CHECK_DEADLOCK FALSE
