INIT Init
NEXT Next
CONSTANT Window = 1100000
INVARIANT ClosedFormsAgree
INVARIANT Predict
CHECK_DEADLOCK FALSE
