-------------------------- MODULE Trace_XrRuntime --------------------------
(***************************************************************************)
(* Trace acceptor: validates an event trace recorded from the real         *)
(* interpreter (hooks under --cfg xray_verif plus the harness's host       *)
(* boundary events) against XrRuntime.  Every event is fully logged, so    *)
(* each trace line enables at most one action and validation is linear.    *)
(* Several runs are concatenated in one file, separated by "Reset" lines   *)
(* (JVM start-up dominates otherwise).                                     *)
(*   env TRACE = path of the ndjson file                                   *)
(***************************************************************************)
EXTENDS XrRuntime, Json, IOUtils

Rec == ndJsonDeserialize(IOEnv.TRACE)

VARIABLE l          \* index of the next event to consume
tvars == <<rvars, l>>

E == Rec[l]
Is(e) == l <= Len(Rec) /\ Rec[l].ev = e /\ l' = l + 1

Limits(e) == [size |-> e.size, depth |-> e.depth, recursion |-> e.recursion,
              calls |-> e.calls, search |-> e.search, time |-> e.time]
Perms(e) == [p \in PermIds |-> e[p]]

\* a new run starts: only after the previous one was wound up (dropped, or never instantiated)
TReset ==
    /\ Is("Reset")
    /\ phase \in {"Fresh", "Dropped"}
    /\ phase' = "Fresh"
    /\ lim' = [size |-> NoLimit, depth |-> NoLimit, recursion |-> NoLimit,
               calls |-> NoLimit, search |-> NoLimit, time |-> NoLimit]
    /\ perm' = [p \in PermIds |-> "unset"]
    /\ acct' = 0 /\ live' = EmptyBag /\ calls' = 0
    /\ frames' = <<>> /\ acts' = <<>> /\ doomed' = "none" /\ grant' = NoGrant
    /\ idleBase' = -1

TNext ==
    \/ TReset
    \/ Is("CompileBegin") /\ CompileBegin
    \/ Is("CompileEnd")   /\ CompileEnd
    \/ Is("InstBegin")    /\ InstBegin(E.total, Limits(E.limits), Perms(E.perms))
    \/ Is("InstEnd")      /\ InstEnd(E.outcome, E.total, E.calls)
    \/ Is("RunBegin")     /\ RunBegin(E.total, E.calls)
    \/ Is("RunEnd")       /\ RunEnd(E.outcome, E.total, E.calls)
    \/ Is("ResetCalls")   /\ ResetCalls
    \/ Is("ResetTimeout") /\ ResetTimeout
    \/ Is("Dropped")      /\ Dropped(E.total)
    \/ Is("Alloc")        /\ Alloc(E.size, E.payload, E.total, E.limit)
    \/ Is("Dealloc")      /\ Dealloc(E.size, E.total)
    \/ Is("CanAlloc")     /\ CanAlloc(E.req, E.total, E.limit)
    \/ Is("UCall")        /\ UCall(E.tmpl)
    \/ Is("Inc")          /\ Inc(E.calls, E.limit)
    \/ Is("TimeChk")      /\ TimeChk(E.deadline, E.passed)
    \/ Is("Frame")        /\ Frame(E.tmpl, E.h, E.limit)
    \/ Is("FrameIn")      /\ FrameIn(E.tmpl, E.h)
    \/ Is("Tail")         /\ TailIter(E.tmpl, E.rec, E.limit)
    \/ Is("Leave")        /\ Leave(E.tmpl, E.h)
    \/ Is("Perm")         /\ Perm(E.id, E.allowed)
    \/ Is("Effect")       /\ Effect(E.kind)
    \* "Panic" (and anything else) has no action: the trace is rejected there

TInit == Init /\ l = 1
TSpec == TInit /\ [][TNext]_tvars

\* acceptance: every line was consumed.  The first unmatched line is diameter (1-based).
Accepted ==
    LET d == TLCGet("stats").diameter
    IN IF d - 1 = Len(Rec) THEN PrintT(<<"TRACE_ACCEPTED", Len(Rec)>>)
       ELSE PrintT(<<"TRACE_REJECTED_AT", d, ToJson(Rec[d])>>) /\ FALSE
=============================================================================
