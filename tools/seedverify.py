#!/usr/bin/env python3
"""Confirm a seeded change by hand-free steps in a scratch worktree (never in /repo):
   tools/seedverify.py <seed-dir> <worktree>
 1. clean worktree, apply patch.diff, run the whole unedited suite  -> must be green
 2. run the demonstration (demo.xr in test slot 001, or a demo.toml next to it) -> must FAIL
 3. revert src/, run the demonstration again                       -> must PASS
Writes <seed-dir>/verify.json."""
import json
import os
import shutil
import subprocess
import sys


def sh(cmd, cwd=None):
    p = subprocess.run(cmd, shell=True, cwd=cwd, capture_output=True, text=True)
    return p.returncode, p.stdout + p.stderr


def demo(wt, d):
    if not os.path.exists(os.path.join(d, "demo.xr")) or os.environ.get("SEED_DEMO") == "rs":
        # a Rust integration test: dropped into tests/ and run on its own
        shutil.copy(os.path.join(d, "demo.rs"), os.path.join(wt, "tests", "demo.rs"))
        rc, out = sh("cargo test --offline --test demo 2>&1 | tail -n 30", wt)
        sh("git checkout -- tests && git clean -fdq tests", wt)
        ok = "test result: ok." in out and "0 failed" in out and "error" not in out.split("test result")[0][-400:].lower().replace("0 errors", "")
        return ok, out[-1200:]
    slot = os.path.join(wt, "test_scripts", "001_variables.xr")
    shutil.copy(os.path.join(d, "demo.xr"), slot)
    toml = os.path.join(d, "demo.toml")
    if os.path.exists(toml):
        shutil.copy(toml, os.path.join(wt, "test_scripts", "001.toml"))
    rc, out = sh("cargo test --offline --test run_scripts test_script_001 2>&1 | tail -n 25", wt)
    sh("git checkout -- test_scripts && git clean -fdq test_scripts", wt)
    ok = "test result: ok. 1 passed" in out
    return ok, out[-1200:]


def main():
    d, wt = os.path.abspath(sys.argv[1]), os.path.abspath(sys.argv[2])
    res = {}
    sh("git checkout -- . && git clean -fdq src tests test_scripts", wt)
    rc, out = sh("git apply %s" % os.path.join(d, "patch.diff"), wt)
    if rc != 0:
        print("patch does not apply:", out)
        return 2
    rc, out = sh("git diff --stat | tail -n 3", wt)
    res["diffstat"] = out.strip()
    rc, out = sh("cargo test --workspace --no-fail-fast --offline 2>&1 | grep -E '^test result|error(\\[|:)' ", wt)
    res["suite_with_change"] = out.strip().split("\n")
    suite_ok = all("0 failed" in l for l in res["suite_with_change"] if l.startswith("test result")) and \
        any(l.startswith("test result") for l in res["suite_with_change"])
    ok_with, out_with = demo(wt, d)
    sh("git checkout -- src", wt)
    ok_without, out_without = demo(wt, d)
    sh("git checkout -- . && git clean -fdq src tests test_scripts", wt)
    res.update({"suite_green_with_change": suite_ok, "demo_passes_with_change": ok_with, "demo_passes_without_change": ok_without,
                "demo_output_with_change": out_with[-600:],
                "commands": ["git apply patch.diff", "cargo test --workspace --no-fail-fast --offline",
                             "demo.xr run in test slot 001 (cargo test --offline --test run_scripts test_script_001) with and without the change"]})
    res["confirmed"] = suite_ok and (not ok_with) and ok_without
    json.dump(res, open(os.path.join(d, "verify.json"), "w"), indent=1)
    print(json.dumps({k: v for k, v in res.items() if k not in ("demo_output_with_change",)}, indent=1))
    return 0 if res["confirmed"] else 1


if __name__ == "__main__":
    sys.exit(main())
