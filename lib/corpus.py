"""The repository's own scripts and book examples as job sources (run the way
tests/run_scripts.rs runs them: same .toml limits, main() called once)."""
import glob
import os
import re
import tomllib

REPO = os.environ.get("VERIF_REPO", "/repo")


def _limits(cfg):
    l = cfg.get("limits", {})
    out = {"size": l.get("size_limit"), "depth": l.get("depth_limit"),
           "recursion": l.get("recursion_limit"), "calls": l.get("ud_call_limit"),
           "search": l.get("maximum_search")}
    t = l.get("time_limit")
    if isinstance(t, dict):
        out["time_ms"] = int(t.get("secs", 0) * 1000 + t.get("nanos", 0) / 1e6)
    perms = {}
    for p in l.get("allowed_permissions", []):
        perms[p] = True
    for p in l.get("forbidden_permissions", []):
        perms[p] = False
    return out, perms


def scripts():
    """[(number, path, source, config dict, limits, perms)]"""
    res = []
    for path in sorted(glob.glob(os.path.join(REPO, "test_scripts", "[0-9][0-9][0-9]_*.xr"))):
        num = os.path.basename(path)[:3]
        cfgp = os.path.join(REPO, "test_scripts", num + ".toml")
        cfg = {}
        if os.path.exists(cfgp):
            with open(cfgp, "rb") as f:
                cfg = tomllib.load(f)
        lim, perms = _limits(cfg)
        res.append({"num": num, "path": path, "src": open(path).read(), "cfg": cfg,
                    "limits": lim, "perms": perms})
    return res


_BLOCK = re.compile(r"```xray([^\n]*)\n(.*?)```", re.S)


def book_blocks():
    """[(file, index, flags, text)] every ```xray block of the book"""
    res = []
    for path in sorted(glob.glob(os.path.join(REPO, "book", "src", "**", "*.md"), recursive=True)):
        txt = open(path).read()
        for i, m in enumerate(_BLOCK.finditer(txt)):
            res.append({"file": os.path.relpath(path, REPO), "idx": i,
                        "flags": m.group(1).strip(), "src": m.group(2)})
    return res
