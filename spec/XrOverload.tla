----------------------------- MODULE XrOverload -----------------------------
(***************************************************************************)
(* Overload resolution (lang/shadowing.md "Overload Resolution"): all      *)
(* overloads of a name visible at the call site - the call site's own      *)
(* scope and every enclosing scope - are considered together.  Matching    *)
(* non-generic overloads are preferred to matching generic ones (which are *)
(* preferred to dynamic ones); one match in the best non-empty bucket is   *)
(* the callee, several are AmbiguousOverload, none anywhere is NoOverload. *)
(* The result is a function of the SET of candidates and the argument      *)
(* types: not of declaration order, not of generic-parameter names, not of *)
(* candidates that do not match.                                           *)
(***************************************************************************)
EXTENDS XrTypeAlg

\* a candidate: [tag, gen (set of generic names), ps: <<[ty, opt]>>, lvl]
Required(c) == Cardinality({i \in 1..Len(c.ps) : ~c.ps[i].opt})

NoBind == [x \in {} |-> Int]
Fail == [k |-> "fail"]

\* bind `param` (may mention generic variables) against the ground type `arg`
RECURSIVE MatchT(_, _, _), MatchAll(_, _, _, _)
MatchAll(ps, as, b, i) ==
    IF b = Fail THEN Fail
    ELSE IF i > Len(ps) THEN b
    ELSE MatchAll(ps, as, MatchT(ps[i], as[i], b), i + 1)
MatchT(param, arg, b) ==
    IF b = Fail THEN Fail
    ELSE IF param.k = "var"
      THEN IF param.n \in DOMAIN b
             THEN LET c == CommonType(b[param.n], arg)    \* bound consistently over all arguments
                  IN IF c.k = "none" THEN Fail ELSE [x \in DOMAIN b |-> IF x = param.n THEN c ELSE b[x]]
             ELSE [x \in DOMAIN b \cup {param.n} |-> IF x = param.n THEN arg ELSE b[x]]
    ELSE IF arg.k = "unknown" THEN b
    ELSE IF param.k # arg.k THEN Fail
    ELSE CASE param.k \in {"int", "str", "bool", "float"} -> b
           [] param.k \in {"seq", "opt", "gen"} -> MatchT(param.a, arg.a, b)
           [] param.k = "tup" -> IF Len(param.items) # Len(arg.items) THEN Fail
                                 ELSE MatchAll(param.items, arg.items, b, 1)
           [] param.k = "fn" -> IF Len(param.ps) # Len(arg.ps) THEN Fail
                                ELSE MatchT(param.r, arg.r, MatchAll(param.ps, arg.ps, b, 1))
           [] param.k = "comp" -> IF param.name # arg.name THEN Fail
                                  ELSE MatchAll(param.args, arg.args, b, 1)
           [] OTHER -> Fail

Matches(c, args) ==
    /\ Len(args) >= Required(c) /\ Len(args) <= Len(c.ps)
    /\ MatchAll([i \in 1..Len(args) |-> c.ps[i].ty], args, NoBind, 1) # Fail

Resolve(cands, args) ==
    LET m == {c \in cands : Matches(c, args)}
        exact == {c \in m : c.gen = {}}
        generic == {c \in m : c.gen # {}}
    IN IF Cardinality(exact) = 1 THEN [r |-> "unique", tag |-> (CHOOSE c \in exact : TRUE).tag]
       ELSE IF Cardinality(exact) > 1 THEN [r |-> "AmbiguousOverload", tag |-> 0]
       ELSE IF Cardinality(generic) = 1 THEN [r |-> "unique", tag |-> (CHOOSE c \in generic : TRUE).tag]
       ELSE IF Cardinality(generic) > 1 THEN [r |-> "AmbiguousOverload", tag |-> 0]
       ELSE [r |-> "NoOverload", tag |-> 0]

----------------------------------------------------------------------------
T == VarT("T")  U == VarT("U")
P(t) == [ty |-> t, opt |-> FALSE]
O(t) == [ty |-> t, opt |-> TRUE]

\* pool of signatures (tag = position in the pool)
Pool == <<
    [gen |-> {}, ps |-> <<>>],
    [gen |-> {}, ps |-> <<P(Int)>>],
    [gen |-> {}, ps |-> <<P(Str)>>],
    [gen |-> {"T"}, ps |-> <<P(T)>>],
    [gen |-> {}, ps |-> <<P(SeqT(Int))>>],
    [gen |-> {"T"}, ps |-> <<P(SeqT(T))>>],
    [gen |-> {}, ps |-> <<P(OptT(Int))>>],
    [gen |-> {}, ps |-> <<P(Int), P(Int)>>],
    [gen |-> {}, ps |-> <<P(Int), P(Str)>>],
    [gen |-> {"T"}, ps |-> <<P(T), P(T)>>],
    [gen |-> {"T", "U"}, ps |-> <<P(T), P(U)>>],
    [gen |-> {}, ps |-> <<P(Int), O(Int)>>],
    [gen |-> {"T"}, ps |-> <<P(T), O(Int)>>],
    [gen |-> {}, ps |-> <<P(FnT(<<Int>>, Int))>>],
    [gen |-> {"T"}, ps |-> <<P(SeqT(T)), P(T)>>],
    [gen |-> {}, ps |-> <<P(Str), O(Str), O(Int)>>]
>>
ArgTuples == {<<>>, <<Int>>, <<Str>>, <<SeqT(Int)>>, <<SeqT(Str)>>, <<OptT(Int)>>, <<Int, Int>>, <<Int, Str>>,
              <<Str, Str>>, <<FnT(<<Int>>, Int)>>, <<SeqT(Int), Int>>, <<SeqT(Int), Str>>, <<Str, Str, Int>>}

CONSTANT MaxCands, Levels          \* Levels: TRUE = candidates may sit in an enclosing scope

VARIABLES idx, lvl, args
ovars == <<idx, lvl, args>>
Cand(i) == [tag |-> i, gen |-> Pool[i].gen, ps |-> Pool[i].ps, lvl |-> lvl[i]]
OInit == /\ idx \in {S \in SUBSET (1..Len(Pool)) : Cardinality(S) >= 1 /\ Cardinality(S) <= MaxCands}
         /\ lvl \in [idx -> IF Levels THEN {0, 1} ELSE {1}]
         /\ args \in ArgTuples
ONext == UNCHANGED ovars

Emit ==
    LET cs == {Cand(i) : i \in idx}
    IN PrintT(<<"CASE", ToJson([cands |-> cs, args |-> args, res |-> Resolve(cs, args)])>>)

\* meta-properties, as theorems about Resolve on the enumerated universe
Rename(c) == [c EXCEPT !.gen = {IF g = "T" THEN "Q" ELSE "R" : g \in c.gen},
                       !.ps = [i \in 1..Len(c.ps) |->
                                 [c.ps[i] EXCEPT !.ty = IF c.ps[i].ty = T THEN VarT("Q")
                                                        ELSE IF c.ps[i].ty = U THEN VarT("R")
                                                        ELSE IF c.ps[i].ty = SeqT(T) THEN SeqT(VarT("Q"))
                                                        ELSE c.ps[i].ty]]]
AlphaInvariant ==
    LET cs == {Cand(i) : i \in idx} IN Resolve({Rename(c) : c \in cs}, args) = Resolve(cs, args)
NonMatchingIrrelevant ==
    LET cs == {Cand(i) : i \in idx}
        junk == [tag |-> 99, gen |-> {}, ps |-> <<P(Bool), P(Bool), P(Bool), P(Bool)>>, lvl |-> 1]
    IN Resolve(cs \cup {junk}, args) = Resolve(cs, args)
LevelIrrelevant ==
    \* enclosing scopes merge, they do not hide and do not rank
    LET cs == {Cand(i) : i \in idx} IN Resolve({[c EXCEPT !.lvl = 1] : c \in cs}, args) = Resolve(cs, args)
=============================================================================
