SPECIFICATION Spec
INVARIANT NoInternalValueEscapes
CHECK_DEADLOCK FALSE
