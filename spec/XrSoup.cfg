SPECIFICATION Spec
CONSTANT MaxLen = 24
INVARIANT Emit
CHECK_DEADLOCK FALSE
