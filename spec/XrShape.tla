------------------------------- MODULE XrShape -------------------------------
(***************************************************************************)
(* Type soundness as a trace property: every value the interpreter         *)
(* produced (top-level bindings, host-call results) is recorded together   *)
(* with the static type the compiler assigned to the expression, and must  *)
(* satisfy XrTypeAlg.HasShape.  One event per (type, value) pair; a value  *)
(* that does not have the shape of its type, a panic, a crash or a hang is *)
(* an event without an action.                                             *)
(*   env TRACE = ndjson of {ev: "Value", t: type, v: value dump}           *)
(*                     or {ev: "Finite", v: value dump}   (C13)            *)
(***************************************************************************)
EXTENDS XrTypeAlg, IOUtils

Rec == ndJsonDeserialize(IOEnv.TRACE)
VARIABLE l
Init == l = 1
\* C13: whatever its type, no float anywhere inside an exported value is NaN or infinite.
\* A float is recorded by its IEEE-754 class (from the biased exponent and the mantissa):
\*   "zero", "subnormal", "normal" are finite; "inf" and "nan" have no action.
FiniteClass == {"zero", "subnormal", "normal"}
RECURSIVE AllFinite(_)
AllFinite(v) ==
    CASE v.t = "float" -> v.class \in FiniteClass /\ v.finite
      [] v.t \in {"seq", "stack", "struct", "set"} -> \A i \in 1..Len(v.v) : AllFinite(v.v[i])
      [] v.t = "map" -> \A i \in 1..Len(v.v) : AllFinite(v.v[i][1]) /\ AllFinite(v.v[i][2])
      [] v.t = "opt" -> (v.has => AllFinite(v.v))
      [] v.t = "union" -> AllFinite(v.v)
      [] OTHER -> TRUE                \* int, str, bool, fn, gen, native, err, violation

Next == /\ l <= Len(Rec)
        /\ \/ Rec[l].ev = "Value" /\ HasShape(Rec[l].v, Rec[l].t)
           \/ Rec[l].ev = "Finite" /\ AllFinite(Rec[l].v)
        /\ l' = l + 1
Spec == Init /\ [][Next]_l

Accepted ==
    LET d == TLCGet("stats").diameter
    IN IF d - 1 = Len(Rec) THEN PrintT(<<"TRACE_ACCEPTED", Len(Rec)>>)
       ELSE PrintT(<<"TRACE_REJECTED_AT", d, ToJson(Rec[d])>>) /\ FALSE
=============================================================================
