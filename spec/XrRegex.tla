------------------------------ MODULE XrRegex ------------------------------
(***************************************************************************)
(* Regular-expression search over strings as code-point sequences          *)
(* (std/regex.md; src/builtin/regex.rs, include.rs "Regex 1/2").           *)
(*                                                                         *)
(* A string is a sequence of symbols (naturals; the harness maps them to   *)
(* characters of 1-4 UTF-8 bytes).  A pattern is a term                    *)
(*    [t |-> "sym", c]  [t |-> "any"]  [t |-> "cat", a, b]                 *)
(*    [t |-> "alt", a, b]  [t |-> "star", a]  [t |-> "plus", a]            *)
(*    [t |-> "opt", a]  [t |-> "grp", a, k]      (k-th capture group)      *)
(* Ends(p, s, o) is the set of positions e such that s[o+1 .. e] is in the *)
(* language of p (positions are 0-based code-point offsets, as in          *)
(* std/str.md).  search(r, s, i, j) looks at the start positions i .. j    *)
(* ("j is the exclusive upper limit of where a match can start" is read    *)
(* the way the shipped scripts 194 / 408 pin it: a start AT j is still     *)
(* tried - match(r, s, i) is search(r, s, i, i)) and answers with the      *)
(* match at the least start position that has one.  Which of several ends  *)
(* at that start is reported (first-alternative or longest) is left open.  *)
(* Every reported group span must lie inside the match and spell a word of *)
(* the group's own sub-pattern.                                            *)
(*                                                                         *)
(* Acceptor over records observed from the interpreter (env TRACE):        *)
(*   {ev:"Rx", p, s, i, j, found, st, en, txt, groups:[{k, has, st, en}]}  *)
(*   txt = the text of group 0 as the interpreter returns it (m[0])        *)
(***************************************************************************)
EXTENDS Integers, Sequences, FiniteSets, TLC, Json, IOUtils

Rec == ndJsonDeserialize(IOEnv.TRACE)
VARIABLE l

RECURSIVE Ends(_, _, _), StarClose(_, _, _)
Ends(p, s, o) ==
    CASE p.t = "sym"  -> IF o < Len(s) /\ s[o + 1] = p.c THEN {o + 1} ELSE {}
      [] p.t = "any"  -> IF o < Len(s) THEN {o + 1} ELSE {}
      [] p.t = "cat"  -> UNION {Ends(p.b, s, m) : m \in Ends(p.a, s, o)}
      [] p.t = "alt"  -> Ends(p.a, s, o) \cup Ends(p.b, s, o)
      [] p.t = "opt"  -> {o} \cup Ends(p.a, s, o)
      [] p.t = "star" -> StarClose(p.a, s, {o})
      [] p.t = "plus" -> StarClose(p.a, s, Ends(p.a, s, o))
      [] p.t = "grp"  -> Ends(p.a, s, o)
StarClose(a, s, R) ==
    LET R2 == R \cup UNION {Ends(a, s, m) : m \in R}
    IN IF R2 = R THEN R ELSE StarClose(a, s, R2)

RECURSIVE Groups(_)
Groups(p) ==       \* capture group number -> its sub-pattern
    CASE p.t \in {"sym", "any"}       -> {}
      [] p.t \in {"cat", "alt"}       -> Groups(p.a) \cup Groups(p.b)
      [] p.t \in {"opt", "star", "plus"} -> Groups(p.a)
      [] p.t = "grp"                  -> {<<p.k, p.a>>} \cup Groups(p.a)

Min(S) == CHOOSE x \in S : \A y \in S : x <= y
Lim(e) == IF e.j < Len(e.s) THEN e.j ELSE Len(e.s)
Starts(e) == {o \in e.i .. Lim(e) : Ends(e.p, e.s, o) # {}}

RxOK(e) ==
    IF ~e.found THEN Starts(e) = {}
    ELSE /\ Starts(e) # {}
         /\ e.st = Min(Starts(e))                               \* leftmost
         /\ e.en \in Ends(e.p, e.s, e.st)                       \* a word of the pattern
         /\ e.txt = SubSeq(e.s, e.st + 1, e.en)                 \* group 0 is that text, in code points
         /\ \A n \in 1..Len(e.groups) :
               LET g == e.groups[n]
               IN g.has =>
                    /\ e.st <= g.st /\ g.st <= g.en /\ g.en <= e.en
                    /\ \A q \in Groups(e.p) : q[1] = g.k => g.en \in Ends(q[2], e.s, g.st)

Init == l = 1
Next == l <= Len(Rec) /\ Rec[l].ev = "Rx" /\ RxOK(Rec[l]) /\ l' = l + 1
Spec == Init /\ [][Next]_l
Accepted ==
    LET d == TLCGet("stats").diameter
    IN IF d - 1 = Len(Rec) THEN PrintT(<<"TRACE_ACCEPTED", Len(Rec)>>)
       ELSE PrintT(<<"TRACE_REJECTED_AT", d, ToJson(Rec[d])>>) /\ FALSE
=============================================================================
