"""C01 - Accepted programs never go wrong (type soundness).

Decided by XrTypeAlg.HasShape through the trace acceptor XrShape: every value produced by an
accepted program (every top-level binding, every exported zero-argument function result) is
recorded with the static type the compiler itself assigned, and TLC checks that the value has
the shape of the type (floats must be finite); a panic, crash or hang has no action.  Inputs:
generated core programs and token-level near-miss mutants of them, every static root-scope
signature applied to several canonical inhabitants per parameter, mutations of the shipped
scripts and book examples - each under no limits and under tight limits."""
import json
import random
import re

import coregen
import corpus
import surface
import vf
from checks import c12

LEVEL = "model_checking"

LIMITS = [{}, {"calls": 40, "depth": 10}, {"size": 90000, "search": 6, "recursion": 6}]
GENERIC = re.compile(r"^[A-Z][A-Z0-9]?$")


def shape_type(t):
    k = t.kind
    if k == "unknown":
        return {"k": "unknown"}
    if k == "name":
        if t.name in ("int", "str", "bool", "float"):
            return {"k": t.name}
        if GENERIC.match(t.name):
            return {"k": "var", "n": t.name}
        return {"k": "comp", "name": t.name, "args": []}
    if k == "tuple":
        return {"k": "tup", "items": [shape_type(a) for a in t.args]}
    if k == "fn":
        return {"k": "fn", "ps": [shape_type(a) for a in t.args], "r": shape_type(t.ret)}
    if k == "app":
        m = {"Sequence": "seq", "Optional": "opt", "Generator": "gen", "Stack": "stack", "Set": "set"}
        if t.name in m and len(t.args) == 1:
            return {"k": m[t.name], "a": shape_type(t.args[0])}
        if t.name == "Mapping" and len(t.args) == 2:
            return {"k": "map", "a": shape_type(t.args[0]), "b": shape_type(t.args[1])}
        if not t.args:
            return {"k": "native"}
        return {"k": "comp", "name": t.name, "args": [shape_type(a) for a in t.args]}
    return {"k": "other"}


def shape_value(d):
    if d is None:
        return {"t": "missing"}
    t = d.get("t")
    if t in ("int", "bool", "str", "fn", "gen", "native"):
        return {"t": t}
    if t == "float":
        exp, bits = d.get("exp"), int(d.get("bits", "0"))
        mant = bits & ((1 << 52) - 1)
        cls = ("inf" if mant == 0 else "nan") if exp == 2047 else ("zero" if mant == 0 else "subnormal") if exp == 0 else "normal"
        return {"t": "float", "finite": exp != 2047, "class": cls}
    if t in ("seq", "stack"):
        return {"t": t, "v": [shape_value(x) for x in d["v"]]}
    if t == "struct":
        return {"t": "struct", "v": [shape_value(x) for x in d["v"]]}
    if t == "set":
        return {"t": "set", "v": [shape_value(e["k"]) for e in d["entries"]]}
    if t == "map":
        return {"t": "map", "v": [[shape_value(e["k"]), shape_value(e["v"])] for e in d["entries"]]}
    if t == "opt":
        return {"t": "opt", "has": d["v"] is not None, "v": shape_value(d["v"]) if d["v"] is not None else {"t": "nil"}}
    if t == "union":
        return {"t": "union", "v": shape_value(d["v"])}
    if t in ("err", "violation"):
        return {"t": t}
    return {"t": str(t)}


LETNAME = re.compile(r"(?m)^\s*let\s+([A-Za-z_][A-Za-z_0-9]*)")
FNZERO = re.compile(r"(?m)^\s*fn\s+([A-Za-z_][A-Za-z_0-9]*)\s*\(\s*\)")


def job_for(jid, src, limits, perms=None):
    names = list(dict.fromkeys(LETNAME.findall(src)))[:40]
    fns = list(dict.fromkeys(FNZERO.findall(src)))[:4]
    return {"id": jid, "src": src, "observe": names, "types": names, "limits": limits, "perms": perms or {},
            "calls": [{"op": "run", "fn": f} for f in fns], "timeout_ms": 30000, "max_elems": 12}


def surface_jobs(tier):
    jobs = []
    k = 0
    for sig in surface.static_signatures():
        name = sig["name"]
        if name.startswith("__") or name in surface.SKIP:
            continue
        try:
            pts, _ = surface.instantiate(sig)
            inh = [surface.inhabitants(p) for p in pts]
        except surface.NoInhabitant:
            continue
        variants = [[x[0] for x in inh]]
        for i, xs in enumerate(inh):
            for alt in xs[1:(6 if tier == "thorough" else 3)]:
                v = [x[0] for x in inh]
                v[i] = alt
                variants.append(v)
        # integer edge values for int parameters
        for i, p in enumerate(pts):
            if p.kind == "name" and p.name == "int":
                for alt in ["(-1)", "0", "(10 ** 15)", "10", "(2 ** 64)", "(-(2 ** 63))"][: (6 if tier == "thorough" else 3)]:
                    v = [x[0] for x in inh]
                    v[i] = alt
                    variants.append(v)
        # format specifiers for the format family
        if name == "format" and len(pts) == 2 and pts[1].kind == "name" and pts[1].name == "str":
            for spec in ['"10"', '".3"', '"+,.2f"', '"x"', '".1000000000"', '"1000000000000"', '"*^9"', '"e"', '"%"']:
                variants.append([inh[0][0], spec])
        jobs.append((sig["text"], name, variants))
        k += 1
    return jobs


def generic_programs(tier, rnd):
    """a generic parameter bound by two arguments, the result declared at every type of a small universe:
    whatever the compiler accepts must produce a value of the declared type"""
    types = ["int", "str", "Sequence<int>", "Sequence<str>", "Optional<int>", "Optional<str>", "Sequence<Sequence<int>>", "Sequence<Sequence<str>>",
             "(int, str)", "Sequence<Optional<int>>"]
    vals = ["1", '"a"', "[]", "[1]", '["a"]', "none()", "some(1)", 'some("a")', "[[]]", "[[1]]", '[["a"]]', "some(none())", "[none()]", "[some(1)]", '(1, "a")']
    pre = "fn first<T>(a: T, b: T)->T { a }\nfn second<T>(a: T, b: T)->T { b }\nfn third<T>(a: T, b: T, c: T)->T { c }\n"
    out = []
    for d in types:
        for x in vals:
            for y in vals:
                out.append(pre + "let v: %s = second(%s, %s);\n" % (d, x, y))
                if tier == "thorough":
                    out.append(pre + "let v: %s = first(%s, %s);\n" % (d, x, y))
                    out.append(pre + "let v: %s = third(%s, %s, %s);\n" % (d, x, y, x))
                    out.append(pre + "let v: %s = [%s] + [%s];\n" % (d, x, y))
    if tier == "quick":
        out = rnd.sample(out, 700)
    return out


NEAR_MISS = [
    # a definition that differs from the forward declaration (return type, optional flag) does not fulfil it
    'forward fn label(i: int)->int;\nfn twice(i: int)->int { label(i) * 2 }\nfn label(i: int)->str { "n" + i.to_str() }\nlet r = twice(3);\n',
    'forward fn label(i: int)->int;\nfn twice(i: int)->int { label(i) * 2 }\nfn label(i: int)->str { "n" + i.to_str() }\nfn main()->int { twice(3) }\n',
    'fn outer()->int {\n forward fn pick(i: int)->int;\n fn use(i: int)->int { pick(i) + 1 }\n fn pick(i: int, j: int ?= 2)->(int, int) { (i, j) }\n use(1)\n}\nlet r = outer();\n',
    'forward fn mk(i: int)->Sequence<int>;\nfn total(i: int)->int { mk(i).sum() }\nfn mk(i: int)->Sequence<str> { ["a"] }\nlet r = total(3);\n',
    'forward fn mk(i: int)->Optional<int>;\nfn total(i: int)->int { mk(i).value() + 1 }\nfn mk(i: int)->Optional<str> { some("a") }\nlet r = total(3);\n',
]


def run(chk, tier, seed):
    rnd = random.Random(seed)
    jobs = []
    # 1. generated programs and near-miss mutants
    n = 200 if tier == "quick" else 2500
    texts = []
    for i in range(n):
        texts.append(coregen.render(coregen.Gen(seed * 37 + i, max_depth=3, n_decls=6, p_err=0.05).program("x")))
    base_texts = list(texts)
    for i in range(n * 2):
        texts.append(c12.mutate(rnd, rnd.choice(base_texts), base_texts))
    # 2. mutations of shipped scripts and book examples
    corp = [s["src"] for s in corpus.scripts()] + [b["src"] for b in corpus.book_blocks()]
    for i in range(300 if tier == "quick" else 4000):
        texts.append(c12.mutate(rnd, rnd.choice(corp), corp))
    texts += [s["src"] for s in corpus.scripts() if not s["cfg"].get("expected_violation")][:: (4 if tier == "quick" else 1)]
    texts += generic_programs(tier, rnd) + NEAR_MISS
    texts = list(dict.fromkeys(texts))
    for i, t in enumerate(texts):
        jobs.append(job_for("t%d" % i, t, LIMITS[i % len(LIMITS)], {"regex": True}))
    # 3. the library surface: one binding per call, individually compiled on failure
    sj = surface_jobs(tier)
    surf_meta = {}
    for si, (sig, name, variants) in enumerate(sj):
        src = "".join("let s%d = %s(%s);\n" % (vi, name, ", ".join(v)) for vi, v in enumerate(variants))
        jid = "sig%d" % si
        jobs.append(job_for(jid, src, {"calls": 5000, "depth": 60, "search": 2000, "size": 200000000}, {"regex": True}))
        surf_meta[jid] = (sig, name, variants)
    res = vf.run_jobs(jobs, "c01", timeout_ms=30000)
    # surface batches that do not compile / die are split into single calls
    solo = []
    for jid, (sig, name, variants) in surf_meta.items():
        if vf.job_outcome(res[jid]) != "ok":
            for vi, v in enumerate(variants):
                sid = "%s_%d" % (jid, vi)
                solo.append(job_for(sid, "let s0 = %s(%s);\n" % (name, ", ".join(v)), {"calls": 5000, "depth": 60, "search": 2000, "size": 200000000}, {"regex": True}))
    res.update(vf.run_jobs(solo, "c01-solo", timeout_ms=30000))
    alljobs = [j for j in jobs if not (j["id"] in surf_meta and vf.job_outcome(res[j["id"]]) != "ok")] + solo
    chk.count(len(alljobs))
    events, owner = [], []
    accepted = 0
    for j in alljobs:
        o = res[j["id"]]
        oc = vf.job_outcome(o)
        if oc == "compile_err":
            continue
        accepted += 1
        chk.nontrivial(j["src"] + json.dumps(j["limits"], sort_keys=True))
        if oc in ("crash", "timeout", "missing") or oc.endswith("panic"):
            detail = {k: v for k, v in o.items() if k in ("compile", "inst", "calls", "crash", "timeout")}
            msg = json.dumps(detail)[:300]
            loc = re.search(r"@ (/repo/src/[^\"]+)", msg) or re.search(r"@ [^\"]*/([^/\"]+-[0-9][0-9.]*/src/[^\"]+)", msg)
            chk.violation("accepted program %s: %s" % (oc, msg),
                          {"kind": "soundness", "source": j["src"], "limits": j["limits"], "observed": oc, "detail": detail},
                          finding_key="panic:" + (loc.group(1) if loc else oc))
            continue
        types = o.get("types", {})
        for name in j["observe"]:
            if name not in o.get("values", {}) or not types.get(name):
                continue
            d = o["values"][name]
            if "lookup_err" in d:
                continue
            if "dump_panic" in d:
                chk.violation("dumping %s panicked: %s" % (name, d["dump_panic"][:200]),
                              {"kind": "soundness", "source": j["src"], "limits": j["limits"], "observed": "dump_panic", "detail": d},
                              finding_key="panic:dump:" + d["dump_panic"].split("@")[-1].strip())
                continue
            try:
                t = shape_type(surface.parse_type(types[name]))
            except ValueError:
                continue
            events.append({"ev": "Value", "t": t, "v": shape_value(d)})
            owner.append((j, name, types[name], d))
    # XrShape decides
    pos = 0
    B = 4000
    for b in range(0, len(events), B):
        chunk = events[b:b + B]
        while chunk:
            d = vf.workdir("c01-shape")
            path = d + "/values.ndjson"
            with open(path, "w") as f:
                for e in chunk:
                    f.write(json.dumps(e) + "\n")
            r = vf.tlc("XrShape", "XrShape.cfg", "c01-shape-tlc", workers=1, env={"TRACE": path}, dfs=True, xmx="4g")
            chk.add_tlc(r)
            chk.cov["traces_validated_against_impl"] += 1
            if '"TRACE_ACCEPTED"' in r.out:
                break
            m = re.search(r'<<"TRACE_REJECTED_AT", (\d+),', r.out)
            if not m:
                raise vf.ToolError("XrShape failed:\n" + r.out[-2000:])
            k = int(m.group(1)) - 1
            j, name, ty, dump = owner[b + (len(events[b:b + B]) - len(chunk)) + k]
            chk.violation("value of `%s` does not have the shape of its static type %s: %s" % (name, ty, json.dumps(dump)[:200]),
                          {"kind": "shape", "source": j["src"], "limits": j["limits"], "binding": name, "type": ty, "value": dump},
                          finding_key="shape:%s:%s" % (ty, json.dumps(shape_value(dump))[:80]))
            chunk = chunk[k + 1:]
    chk.part("inputs", programs=len(texts), surface_signatures=len(sj), jobs=len(alljobs), accepted=accepted, values_checked=len(events))
    if owner:
        j, name, ty, dump = owner[len(owner) // 2]
        chk.sample({"binding": name, "static_type": ty, "value": dump, "source": j["src"][:300]})
    chk.cov["rule"] = ("generated core programs + 2 token-level mutants each + mutations of shipped scripts/book examples + "
                       "every static root-scope signature x canonical inhabitants (variants per parameter, integer edges), "
                       "cycled over 3 limit configurations; non-trivial = distinct accepted (program, limits)")
    chk.assumptions += ["values are observed through the verif_dump hook; lazy sequences are forced for their first 12 elements",
                        "signatures without canonical inhabitants (Regex, Match, LinearRegression) and dynamic overloads are not swept"]


def replay(chk, path):
    rp = json.load(open(path))
    j = job_for("r", rp["source"], rp.get("limits") or {}, {"regex": True})
    o = vf.run_jobs([j], "replay", timeout_ms=30000)["r"]
    oc = vf.job_outcome(o)
    chk.count(1)
    chk.nontrivial("replay")
    chk.nontrivial(rp["source"])
    chk.sample({"source": rp["source"][:300], "outcome": oc})
    if oc in ("crash", "timeout") or oc.endswith("panic"):
        chk.violation("still fails: " + oc, rp)
    return chk.finish()
