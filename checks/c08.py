"""C08 - Depth, recursion, call and search limits are exact and transparent.

Decided by: XrEval with limits (the reference semantics carries the documented counters:
user calls since the last reset, nesting depth of user frames, consecutive tail self-calls,
elements examined by a searching builtin).  TLC first evaluates each program unlimited (its
`need` per kind), then under every limit value from the minimum to need+1 and under combined
configurations, and predicts the violation kind or exactly the unlimited result; host
histories run_function/reset on one runtime are part of the program machine (XrCore).
Every limited run is also recorded and validated against XrRuntime (counters move by exactly
one, every frame is preceded by a counted call, heights are exact, trampoline iterations keep
the height, the host receives the first violation).  Functions written in xray inside the
standard library are covered by the relative claim: their need is measured unlimited and the
run must fail exactly when the limit is <= need (calls, depth) - decided event by event by
XrRuntime on the limited traces."""
import json
import random

import coregen
import corecheck
import corpus
import progs as pool
import vf

LEVEL = "model_checking"
NOLIM = {"calls": -1, "depth": -1, "rec": -1, "search": -1}


def history_programs(seed, n):
    """several zero-argument functions and a random host history of runs and resets"""
    rnd = random.Random(seed)
    out = []
    for i in range(n):
        g = coregen.Gen(seed * 13 + i, max_depth=3, n_decls=7, native_only=True, p_err=0.02)
        p = g.program("hist%d" % i)
        zero = [c["fn"] for c in p["calls"]]
        if not zero:
            continue
        hist = []
        for _ in range(4):
            hist.append({"op": "reset_calls"} if rnd.random() < 0.3 else {"op": "run", "fn": rnd.choice(zero)})
        p["calls"] = hist
        out.append(p)
    return out


def measured_sweeps(chk, tier, seed):
    """stdlib-heavy programs: need measured from the unlimited trace, limits at need-1/need/need+1"""
    ps = [{"name": n, "src": s, "limits": {}, "perms": {}} for n, s in pool.resource_programs(seed, 1 if tier == "quick" else 3)]
    scr = [s for s in corpus.scripts() if not s["cfg"].get("expected_compilation_error")]
    step = 14 if tier == "quick" else 2
    for s in scr[seed % step::step]:
        ps.append({"name": "script" + s["num"], "src": s["src"], "limits": s["limits"], "perms": s["perms"],
                   "now": s["cfg"].get("now")})
    base_jobs = []
    for p in ps:
        lim = dict(p["limits"])
        lim.setdefault("calls", None)
        if lim["calls"] is None:
            lim["calls"] = 10 ** 9
        base_jobs.append({"id": p["name"] + "@base", "src": p["src"], "limits": lim, "perms": p["perms"],
                          "trace": True, "calls": [{"op": "run", "fn": "main"}],
                          **({"now": p["now"]} if p.get("now") is not None else {})})
    base = vf.run_jobs(base_jobs, "c08-mbase", timeout_ms=120000)
    jobs = []
    for p, j in zip(ps, base_jobs):
        r = base[j["id"]]
        if vf.job_outcome(r) not in ("ok",) or "events" not in r:
            continue
        need_calls = r["counters"].get("calls_final", 0)
        need_depth = max([e["h"] for e in r["events"] if e["ev"] == "FrameIn"] + [0])
        for kind, need in (("calls", need_calls), ("depth", need_depth)):
            if need < 1:
                continue
            for L in (need - 1, need, need + 1, max(1, need // 2)):
                if L < 1:
                    continue
                lim = dict(p["limits"])
                lim[kind] = L
                jid = "%s@%s%d" % (p["name"], kind, L)
                if any(x["id"] == jid for x in jobs):
                    continue
                jobs.append({"id": jid, "src": p["src"], "limits": lim, "perms": p["perms"], "trace": True,
                             "calls": [{"op": "run", "fn": "main"}], "_need": need, "_kind": kind, "_L": L,
                             **({"now": p["now"]} if p.get("now") is not None else {})})
    res = vf.run_jobs(jobs, "c08-msweep", timeout_ms=120000)
    chk.count(len(jobs))
    vf.validate_job_traces(chk, jobs, res, "c08-msweep", "limit sweep (measured need)")
    viol = {"calls": "MaximumUDCall", "depth": "MaximumStackDepth"}
    for j in jobs:
        r = res[j["id"]]
        oc = vf.job_outcome(r)
        need, kind, L = j["_need"], j["_kind"], j["_L"]
        # calls: violation iff the counter reaches L (need >= L); depth: iff a frame height reaches L
        should = need >= L
        tripped = oc.endswith(viol[kind])
        chk.nontrivial(j["id"])
        if should != tripped and oc not in ("run_" + viol["calls"], "inst_" + viol["calls"]) or (oc.endswith("panic") or oc in ("crash", "timeout")):
            if kind == "depth" and oc.endswith(viol["calls"]):
                continue
            chk.violation("%s limit %d with measured need %d: outcome %s" % (kind, L, need, oc),
                          {"kind": "trace", "job": {k: v for k, v in j.items() if not k.startswith("_")},
                           "reason": "limit not exact", "need": need, "L": L, "outcome": oc})
    chk.part("measured", programs=len(ps), runs=len(jobs))


def run(chk, tier, seed):
    rnd = random.Random(seed)
    r = vf.tlc("MC_XrRuntime", "MC_XrRuntime_quick.cfg", "c08-mc", coverage=True, timeout=3000)
    if not r.ok:
        raise vf.ToolError("MC_XrRuntime failed:\n" + r.out[-2000:])
    chk.add_tlc(r)
    n = 150 if tier == "quick" else 1500
    base_progs = [coregen.Gen(seed * 101 + i, max_depth=3, n_decls=6, native_only=True, p_err=0.03).program("g%d" % i)
                  for i in range(n)]
    base_progs += history_programs(seed, 40 if tier == "quick" else 400)
    # tail-recursive functions with default parameters (a tail self-call that omits a default is still a tail call)
    from checks import c07
    base_progs += [p for p in c07.default_tail_programs() if p["lim"] == c07.NOLIM and ".n6." in p["id"] or ".n3." in p["id"] and p["lim"] == c07.NOLIM]
    base, r0 = corecheck.tlc_expect(base_progs, "c08-base")
    chk.add_tlc(r0)
    variants = []
    for p in base_progs:
        c = base[p["id"]]
        if c["taint"]:
            continue
        variants += corecheck.limit_variants(p, c, cap=(8 if tier == "quick" else 60), rnd=rnd, combined=2)
    tripped = lambda p, c: c["viol"] != "none" or any(x.get("viol", "none") != "none" for x in c["runs"])
    for b in range(0, len(variants), 2500):
        # traces of a sample are validated by XrRuntime as well
        corecheck.run_core(chk, variants[b:b + 2500], "c08-grid%d" % b, trace=(b == 0), validate=(b == 0),
                           limits_of=corecheck.xv_limits, nontrivial=tripped)
    measured_sweeps(chk, tier, seed)
    chk.cov["rule"] = ("random core programs over native builtins (exact counters by the reference semantics) under "
                       "every value 1..need+1 of each of the four limits (sub-sampled above the cap, always need-1, "
                       "need, need+1) and combined configurations; host histories of run/reset; stdlib-heavy programs "
                       "and shipped scripts with measured need. non-trivial = distinct (program, limits) in which a limit trips")
    chk.assumptions += ["search permits are not instrumented: the search limit is decided by the reference semantics only "
                        "(nth, take_while, skip_until over literal arrays)",
                        "counters of standard-library functions written in xray are measured, not predicted"]


def replay(chk, path):
    rp = json.load(open(path))
    if rp.get("kind") == "trace":
        return vf.replay_trace_job(chk, rp)
    return corecheck.replay_core(chk, path)
