"""C04 - Static checking accepts exactly the assignable programs.

Decided by XrTypes: TLC enumerates every (required, supplied) pair of the type universe, decides
Assignable by the documented rules and computes CommonType, after checking the lattice laws on
the universe (reflexive, unknown is bottom, transitive, common type commutative / idempotent /
upper bound / least).  The harness renders `required` as an annotation and `supplied` as a
canonical inhabitant expression in six syntactic positions (typed let, argument, struct field,
variant payload, return value, element of an annotated container) and the compiler must accept
exactly the assignable ones; for pairs with a common type the inferred static type of the
two-element array literal must be Sequence<CommonType>."""
import hashlib
import json

import vf

STYLE = {"declared": False}
HELPERS = {}

LEVEL = "model_checking"

DECLS = ("struct S0()\nstruct S1<T>(a: T)\nstruct S2<T, U>(a: T, b: U)\nunion U1<T>(a: T, b: int)\n")


def ann(t):
    k = t["k"]
    if k in ("int", "str", "bool", "float"):
        return k
    if k == "unknown":
        return "?"
    if k == "seq":
        return "Sequence<%s>" % ann(t["a"])
    if k == "opt":
        return "Optional<%s>" % ann(t["a"])
    if k == "gen":
        return "Generator<%s>" % ann(t["a"])
    if k == "map":
        return "Mapping<%s, %s>" % (ann(t["a"]), ann(t["b"]))
    if k == "tup":
        return "(%s)" % ", ".join(ann(x) for x in t["items"])
    if k == "fn":
        return "(%s)->(%s)" % (", ".join(ann(x) for x in t["ps"]), ann(t["r"]))
    if k == "comp":
        return t["name"] + ("<%s>" % ", ".join(ann(x) for x in t["args"]) if t["args"] else "")
    if k == "var":
        return t["n"]
    raise ValueError(k)


def ann_func(t):
    """the compiler's rendering when callables are declared functions / lambdas: (A)->R"""
    k = t["k"]
    if k == "fn":
        return "(%s)->%s" % (", ".join(ann_func(x) for x in t["ps"]), ann_func(t["r"]))
    if k == "seq":
        return "Sequence<%s>" % ann_func(t["a"])
    if k == "opt":
        return "Optional<%s>" % ann_func(t["a"])
    if k == "gen":
        return "Generator<%s>" % ann_func(t["a"])
    if k == "map":
        return "Mapping<%s, %s>" % (ann_func(t["a"]), ann_func(t["b"]))
    if k == "tup":
        return "(%s)" % ", ".join(ann_func(x) for x in t["items"])
    if k == "comp":
        return t["name"] + ("<%s>" % ", ".join(ann_func(x) for x in t["args"]) if t["args"] else "")
    return ann(t)


def inh(t):
    k = t["k"]
    if k == "int":
        return "1"
    if k == "str":
        return '"s"'
    if k == "bool":
        return "true"
    if k == "unknown":
        return 'error("e")'
    if k == "seq":
        return "[]" if t["a"]["k"] == "unknown" else "[%s]" % inh(t["a"])
    if k == "opt":
        return "none()" if t["a"]["k"] == "unknown" else "some(%s)" % inh(t["a"])
    if k == "gen":
        return "[].to_generator()" if t["a"]["k"] == "unknown" else "[%s].to_generator()" % inh(t["a"])
    if k == "map":
        return "mapping<int>()" if t["b"]["k"] == "unknown" else "mapping<int>().set(1, %s)" % inh(t["b"])
    if k == "tup":
        xs = [inh(x) for x in t["items"]]
        return "(%s,)" % xs[0] if len(xs) == 1 else "(%s)" % ", ".join(xs)
    if k == "fn":
        ps = ", ".join("q%d: %s" % (i, ann(p)) for i, p in enumerate(t["ps"]))
        lam = "((%s) -> {%s})" % (ps, inh(t["r"]))
        if STYLE["declared"] and t["r"]["k"] != "unknown":
            # a value whose static type is the *declared* callable type (not the lambda's own)
            name = "mk_" + hashlib.sha1(ann(t).encode()).hexdigest()[:8]
            HELPERS[name] = "fn %s()->%s { %s }" % (name, ann(t), lam)
            return "%s()" % name
        return lam
    if k == "comp":
        if t["name"] == "U1":
            return "U1::a(%s)" % inh(t["args"][0])
        return "%s(%s)" % (t["name"], ", ".join(inh(x) for x in t["args"]))
    raise ValueError(k)


def has(t, kind):
    if t["k"] == kind:
        return True
    for f in ("a", "b", "r"):
        if f in t and isinstance(t[f], dict) and has(t[f], kind):
            return True
    for f in ("items", "ps", "args"):
        if f in t and any(has(x, kind) for x in t[f]):
            return True
    return False


POS = {
    "let": lambda R, S, i: "let v%d: %s = %s;" % (i, R, S),
    "arg": lambda R, S, i: "fn f%d(p: %s)->int { 0 }\nlet v%d = f%d(%s);" % (i, R, i, i, S),
    "field": lambda R, S, i: "struct W%d(m: %s)\nlet v%d = W%d(%s);" % (i, R, i, i, S),
    "variant": lambda R, S, i: "union V%d(m: %s, n: int)\nlet v%d = V%d::m(%s);" % (i, R, i, i, S),
    "return": lambda R, S, i: "fn g%d()->%s { %s }" % (i, R, S),
    "element": lambda R, S, i: "let v%d: Sequence<%s> = [%s];" % (i, R, S),
    # argument of a call through a parameter of callable type / through a lambda held in a variable
    "callparam": lambda R, S, i: "fn h%d(c: (%s)->(int))->int { c(%s) }" % (i, R, S),
    "calllambda": lambda R, S, i: "let l%d = (x: %s) -> {0};\nlet v%d = l%d(%s);" % (i, R, i, i, S),
    # default value of a parameter
    "default": lambda R, S, i: "fn d%d(x: %s ?= %s)->int { 0 }" % (i, R, S),
}
# positions that also need an inhabitant of the required type (RI): an optional parameter passed explicitly, by name and
# through a function value
POS_RI = {
    "optarg": lambda R, S, i, RI: "fn o%d(x: int, y: %s ?= %s)->int { 0 }\nlet v%d = o%d(1, %s);" % (i, R, RI, i, i, S),
    "optarg_value": lambda R, S, i, RI: "fn p%d(x: int, y: %s ?= %s)->int { 0 }\nlet q%d = p%d;\nlet v%d = q%d(1, %s);" % (i, R, RI, i, i, i, i, S),
}


def pos_src(p, c, i):
    if p in POS_RI:
        return POS_RI[p](ann(c["req"]), inh(c["sup"]), i, inh(c["req"]))
    return POS[p](ann(c["req"]), inh(c["sup"]), i)


def inh_ctx(t):
    """inhabitant of a type inside `fn outer<T, U>(t: T, u: U)`"""
    k = t["k"]
    if k == "var":
        return t["n"].lower()
    if k == "seq":
        return "[]" if t["a"]["k"] == "unknown" else "[%s]" % inh_ctx(t["a"])
    if k == "opt":
        return "none()" if t["a"]["k"] == "unknown" else "some(%s)" % inh_ctx(t["a"])
    if k == "tup":
        return "(%s)" % ", ".join(inh_ctx(x) for x in t["items"])
    if k == "fn":
        ps = ", ".join("q%d: %s" % (i, ann(p)) for i, p in enumerate(t["ps"]))
        body = "q0" if t["ps"] and t["ps"][0] == t["r"] else inh_ctx(t["r"])
        return "((%s) -> {%s})" % (ps, body)
    if k == "comp":
        return "%s(%s)" % (t["name"], ", ".join(inh_ctx(x) for x in t["args"]))
    return inh(t)


CTX_POS = {
    "glet": lambda R, S, i: ("", "let v%d: %s = %s;" % (i, R, S)),
    "garg": lambda R, S, i: ("", "fn inner%d(p: %s)->int { 0 }\n    let v%d = inner%d(%s);" % (i, R, i, i, S)),
    "greturn": lambda R, S, i: ("", "fn inner%d()->%s { %s }" % (i, R, S)),
    "gcallparam": lambda R, S, i: (", c: (%s)->(int)" % R, "let v%d = c(%s);" % (i, S)),
    "gelement": lambda R, S, i: ("", "let v%d: Sequence<%s> = [%s];" % (i, R, S)),
}


def ctx_src(c, p, i):
    extra, body = CTX_POS[p](ann(c["req"]), inh_ctx(c["sup"]), i)
    return "fn outer%d<T, U>(t: T, u: U%s)->int {\n    %s\n    0\n}\n" % (i, extra, body)


def generic_context(chk, tier, seed):
    """XrTypesCtx: assignability among rigid type parameters inside a generic function body"""
    r = vf.tlc("XrTypesCtx", "XrTypesCtx.cfg", "c04-ctx", workers=1, timeout=3000)
    if not r.ok:
        raise vf.ToolError("XrTypesCtx failed (a law of rigid parameters does not hold on the model?):\n" + r.out[-2500:])
    chk.add_tlc(r)
    cases = r.cases()
    positions = list(CTX_POS)
    yes = [(c, p) for c in cases for p in positions if c["assign"] == "yes"]
    no = [(c, p) for c in cases for p in positions if c["assign"] == "no"]
    if tier == "quick":
        no = no[seed % 2::2]
    jobs, meta = [], {}
    for b in range(0, len(yes), 30):
        jid = "cy%d" % b
        jobs.append({"id": jid, "src": DECLS + "".join(ctx_src(c, p, k) for k, (c, p) in enumerate(yes[b:b + 30])), "compile_only": True})
        meta[jid] = yes[b:b + 30]
    for k, (c, p) in enumerate(no):
        jobs.append({"id": "cn%d" % k, "src": DECLS + ctx_src(c, p, 0), "compile_only": True})
        meta["cn%d" % k] = [(c, p)]
    res = vf.run_jobs(jobs, "c04-ctx")
    solo = []
    for j in jobs:
        if j["id"].startswith("cy") and vf.job_outcome(res[j["id"]]) != "ok":
            for k, (c, p) in enumerate(meta[j["id"]]):
                sid = "%s_%d" % (j["id"], k)
                solo.append({"id": sid, "src": DECLS + ctx_src(c, p, 0), "compile_only": True})
                meta[sid] = [(c, p)]
    res.update(vf.run_jobs(solo, "c04-ctx-solo"))
    n = 0
    for j in jobs + solo:
        if len(meta[j["id"]]) > 1:
            if vf.job_outcome(res[j["id"]]) == "ok":
                n += len(meta[j["id"]])
            continue
        (c, p), = meta[j["id"]]
        n += 1
        chk.nontrivial(["ctx", c["req"], c["sup"], p])
        o = res[j["id"]]
        oc = vf.job_outcome(o)
        if oc not in ("ok", "compile_err"):
            chk.violation("compiling `%s` : %s" % (j["src"][len(DECLS):][-220:], oc), {"kind": "assign", "source": j["src"], "observed": oc, "detail": o.get("compile")})
            continue
        want = c["assign"] == "yes"
        if (oc == "ok") != want:
            chk.violation("inside fn outer<T, U>, %s position: required %s, supplied %s (%s): the rules for rigid type parameters say %s, compiler %s" %
                          (p, ann(c["req"]), ann(c["sup"]), inh_ctx(c["sup"]), "assignable" if want else "not assignable",
                           "accepts" if oc == "ok" else "rejects: " + o["compile"].get("msg", "")[:150]),
                          {"kind": "assign", "source": j["src"], "position": p, "req": c["req"], "sup": c["sup"],
                           "expected": "accept" if want else "reject", "observed": "accept" if oc == "ok" else o["compile"]},
                          finding_key="ctx:%s:%s<-%s" % (p, ann(c["req"]), ann(c["sup"])))
    chk.count(n)
    chk.part("generic_context", pairs=len(cases), positions=positions, expected_accept=len(yes), expected_reject=len(no))


SHADOW = [
    # (name, body lines inside ctx(), expected accept?)  P = outer struct P(x: int); inside ctx a second `P` is declared
    ("arg_outer_fn_inner_val", "let v = takes_outer(inner_val);", False),
    ("arg_outer_fn_outer_val", "let v = takes_outer(outer_val);", True),
    ("array_mixed", "let v = [outer_val, inner_val];", False),
    ("array_mixed_rev", "let v = [inner_val, outer_val];", False),
    ("array_inner", "let v = [inner_val, inner_val];", True),
    ("let_inner_annot_outer_val", "let v: P = outer_val;", False),
    ("let_inner_annot_inner_val", "let v: P = inner_val;", True),
    ("arg_inner_fn_outer_val", "fn takes_inner(p: P)->int { 0 }\n    let v = takes_inner(outer_val);", False),
    ("arg_inner_fn_inner_val", "fn takes_inner(p: P)->int { 0 }\n    let v = takes_inner(inner_val);", True),
    ("opt_mixed", "let v = [some(outer_val), some(inner_val)];", False),
    ("generic_pick", "let v = pick(outer_val, inner_val);", False),
    ("callable_outer_inner_val", "let v = apply_outer(takes_outer, inner_val);", False),
]


def shadowed_compounds(chk):
    """two declarations of the same name in nested scopes are two types (assignability is by declaration)"""
    variants = [("struct P(x: int)", "P(1)", "struct P(x: str)", 'P("a")'),
                ("struct P(x: int)", "P(1)", "struct P(x: int)", "P(2)"),          # same shape, still another declaration: see below
                ("union P(a: int, b: str)", "P::a(1)", "union P(a: str, b: int)", 'P::a("s")'),
                ("struct P<T>(x: T)", "P(1)", "struct P<T>(x: T, y: T)", "P(1, 2)")]
    jobs, meta = [], {}
    for vi, (od, ov, idecl, iv) in enumerate(variants):
        for name, body, accept in SHADOW:
            if vi == 1:
                continue      # structurally identical declarations: the documentation does not say; not compared
            pty = "P<int>" if "<T>" in od else "P"
            src = ("%s\nfn takes_outer(p: %s)->int { 0 }\nfn apply_outer(f: (%s)->(int), p: %s)->int { f(p) }\nfn pick<T>(a: T, b: T)->T { a }\n"
                   "let outer_val = %s;\nfn ctx()->int {\n    %s\n    let inner_val = %s;\n    %s\n    0\n}\n" %
                   (od, pty, pty, pty, ov, idecl, iv, body.replace(": P =", ": %s =" % pty).replace("(p: P)", "(p: %s)" % pty)))
            jid = "sh%d_%s" % (vi, name)
            jobs.append({"id": jid, "src": src, "compile_only": True})
            meta[jid] = (name, accept, vi)
    res = vf.run_jobs(jobs, "c04-shadow")
    for j in jobs:
        name, accept, vi = meta[j["id"]]
        o = res[j["id"]]
        oc = vf.job_outcome(o)
        chk.count(1)
        chk.nontrivial(["shadow", vi, name])
        if oc not in ("ok", "compile_err") or (oc == "ok") != accept:
            chk.violation("shadowed compound, %s: expected %s, compiler: %s %s" % (name, "accepted" if accept else "rejected", oc,
                                                                                   str(o.get("compile", {}).get("msg", ""))[:160]),
                          {"kind": "assign", "source": j["src"], "expected": "accept" if accept else "reject", "observed": oc},
                          finding_key="shadow:%d:%s" % (vi, name))
    chk.part("shadowed_compounds", programs=len(jobs))


REC_DECLS = ("struct Lst<T>(h: T, t: Optional<Lst<T>>)\nstruct Nest<T>(v: T, deeper: Optional<Nest<Sequence<T>>>)\n"
             "struct Alt<T, U>(v: T, flip: Optional<Alt<U, T>>)\nunion Res<T, U>(ok: T, err: U)\n")


def rec_term(e):
    k = e["k"]
    if k == "hole":
        return inh(e["ty"])
    if k == "nil":
        return "none()"
    if k == "some":
        return "some(%s)" % rec_term(e["e"])
    if k == "cons":
        return "%s(%s)" % (e["name"], ", ".join(rec_term(a) for a in e["args"]))
    if k == "variant":
        return "Res::%s(%s)" % (("ok", "err")[e["idx"] - 1], rec_term(e["e"]))
    raise ValueError(k)


def recursive_compounds(chk):
    """XrTypesRec: constructor applications of (non-)regularly recursive generic compounds: verdict, inferred
    type, and assignability of the value to declared types"""
    r = vf.tlc("XrTypesRec", "XrTypesRec.cfg", "c04-rec", workers=1, timeout=3000)
    if not r.ok:
        raise vf.ToolError("XrTypesRec failed:\n" + r.out[-2500:])
    chk.add_tlc(r)
    cases = r.cases()
    jobs, meta = [], {}
    for i, c in enumerate(cases):
        src = REC_DECLS + "let v = %s;\n" % rec_term(c["term"])
        jobs.append({"id": "rc%d" % i, "src": src, "compile_only": True, "types": ["v"]})
        meta["rc%d" % i] = ("infer", c, None)
        for k, tg in enumerate(c["targets"] or []):
            jid = "rc%d_%d" % (i, k)
            jobs.append({"id": jid, "src": REC_DECLS + "let v: %s = %s;\n" % (ann(tg["ty"]), rec_term(c["term"])), "compile_only": True})
            meta[jid] = ("assign", c, tg)
    res = vf.run_jobs(jobs, "c04-rec")
    for j in jobs:
        mode, c, tg = meta[j["id"]]
        o = res[j["id"]]
        oc = vf.job_outcome(o)
        chk.count(1)
        chk.nontrivial(["rec", j["src"]])
        if oc not in ("ok", "compile_err"):
            chk.violation("compiling `%s`: %s" % (j["src"][len(REC_DECLS):], oc), {"kind": "assign", "source": j["src"], "observed": oc})
            continue
        if mode == "infer":
            want_ok = c["ok"]
            got_ty = o.get("types", {}).get("v")
            good = (oc == "ok") == want_ok and (not want_ok or got_ty == ann(c["ty"]))
            if not good:
                chk.violation("`%s`: expected %s, compiler: %s" % (j["src"][len(REC_DECLS):].strip(), "type " + ann(c["ty"]) if want_ok else "a type error",
                                                                  got_ty if oc == "ok" else "rejects: " + o["compile"].get("msg", "")[:140]),
                              {"kind": "infer", "source": j["src"], "expected": "Sequence" if False else (ann(c["ty"]) if want_ok else "rejected (ill typed)"), "observed": got_ty if oc == "ok" else oc},
                              finding_key="rec:infer:%s" % c["term"].get("name"))
        else:
            if (oc == "ok") != tg["ok"]:
                chk.violation("`%s`: %s, compiler %s" % (j["src"][len(REC_DECLS):].strip(), "assignable" if tg["ok"] else "not assignable",
                                                         "accepts" if oc == "ok" else "rejects: " + o["compile"].get("msg", "")[:140]),
                              {"kind": "assign", "source": j["src"], "expected": "accept" if tg["ok"] else "reject", "observed": "accept" if oc == "ok" else o["compile"]},
                              finding_key="rec:assign:%s<-%s" % (ann(tg["ty"]), ann(c["ty"])))
    chk.part("recursive_compounds", terms=len(cases), compilations=len(jobs))


def run(chk, tier, seed):
    for declared in (False, True):
        STYLE["declared"] = declared
        HELPERS.clear()
        run_style(chk, tier, seed, declared)
    generic_context(chk, tier, seed)
    shadowed_compounds(chk)
    recursive_compounds(chk)


def mk(body):
    return DECLS + helpers_for(body) + body


def helpers_for(src):
    return "".join(h + "\n" for n, h in sorted(HELPERS.items()) if n + "(" in src)


def run_style(chk, tier, seed, declared):
    cfg = "XrTypes.cfg" if tier == "quick" else "XrTypes_deep.cfg"
    r = vf.tlc("XrTypes", cfg, "c04", workers=1, timeout=3000, xmx="6g")
    if not r.ok:
        raise vf.ToolError("XrTypes failed (a lattice law does not hold on the model?):\n" + r.out[-2500:])
    chk.add_tlc(r)
    allcases = r.cases()
    if declared:
        # second pass: callables supplied as values of a declared callable type; only pairs that
        # involve a callable on the supplied side are new
        allcases = [c for c in allcases if has(c["sup"], "fn")]
    # the canonical inhabitant must really have the supplied type: ask the compiler for its
    # static type and drop supplied types whose inhabitant has another one (e.g. a generic call
    # on an empty container leaves its parameter unbound: [].to_generator() : Generator<T>)
    sups = {json.dumps(c["sup"], sort_keys=True): c["sup"] for c in allcases}
    pj = [{"id": "p%d" % i, "src": mk("let probe = %s;\n" % inh(t)), "compile_only": True, "types": ["probe"]}
          for i, t in enumerate(sups.values())]
    pres = vf.run_jobs(pj, "c04-probe")
    good_sup = set()
    for j, (k, t) in zip(pj, sups.items()):
        got = pres[j["id"]].get("types", {}).get("probe")
        if got in (ann(t), ann_func(t)):
            good_sup.add(k)
    chk.part("inhabitants", supplied_types=len(sups), with_exact_inhabitant=len(good_sup))
    allcases = [c for c in allcases if json.dumps(c["sup"], sort_keys=True) in good_sup]
    cases = [c for c in allcases if c["assign"] != "n/a"]
    if tier == "quick":
        positions = ["let", "arg"] + [["field", "variant", "return", "element"][seed % 4]] + ["callparam", "calllambda", "default", "optarg_value"]
    else:
        positions = list(POS) + list(POS_RI)
        if len(cases) > 40000:
            cases = [c for i, c in enumerate(cases) if (i + seed) % (len(cases) // 40000 + 1) == 0]
    yes, no = [], []
    for ci, c in enumerate(cases):
        for p in positions:
            if tier == "quick" and p == "optarg_value" and (ci + seed) % 3:
                continue
            (yes if c["assign"] == "yes" else no).append((ci, p))
    jobs, meta = [], {}
    B = 40
    for b in range(0, len(yes), B):
        chunk = yes[b:b + B]
        src = mk("\n".join(pos_src(p, cases[ci], k) for k, (ci, p) in enumerate(chunk)) + "\n")
        jid = "y%d" % b
        jobs.append({"id": jid, "src": src, "compile_only": True})
        meta[jid] = chunk
    for k, (ci, p) in enumerate(no):
        jid = "n%d" % k
        jobs.append({"id": jid, "src": mk(pos_src(p, cases[ci], 0) + "\n"), "compile_only": True})
        meta[jid] = [(ci, p)]
    res = vf.run_jobs(jobs, "c04")
    solo = []
    for j in jobs:
        if j["id"].startswith("y") and vf.job_outcome(res[j["id"]]) != "ok":
            for k, (ci, p) in enumerate(meta[j["id"]]):
                sid = "%s_%d" % (j["id"], k)
                solo.append({"id": sid, "src": mk(pos_src(p, cases[ci], 0) + "\n"), "compile_only": True})
                meta[sid] = [(ci, p)]
    res.update(vf.run_jobs(solo, "c04-solo"))
    n = 0
    for j in jobs + solo:
        if len(meta[j["id"]]) > 1:
            if vf.job_outcome(res[j["id"]]) == "ok":
                for ci, p in meta[j["id"]]:
                    n += 1
                    chk.nontrivial([cases[ci]["req"], cases[ci]["sup"], p])
            continue
        (ci, p), = meta[j["id"]]
        c = cases[ci]
        n += 1
        chk.nontrivial([c["req"], c["sup"], p])
        o = res[j["id"]]
        oc = vf.job_outcome(o)
        accepted = oc == "ok"
        if oc not in ("ok", "compile_err"):
            chk.violation("compiling `%s` : %s" % (j["src"][len(DECLS):][-200:], oc), {"kind": "assign", "source": j["src"], "observed": oc,
                                                                                 "detail": o.get("compile")})
            continue
        want = c["assign"] == "yes"
        if accepted != want:
            key = "assign:%s:%s<-%s" % (p, ann(c["req"]), ann(c["sup"]))
            chk.violation("%s position: required %s, supplied %s (%s): documented rules say %s, compiler %s" %
                          (p, ann(c["req"]), ann(c["sup"]), inh(c["sup"]), "assignable" if want else "not assignable",
                           "accepts" if accepted else "rejects: " + o["compile"].get("msg", "")[:150]),
                          {"kind": "assign", "source": j["src"], "position": p, "req": c["req"], "sup": c["sup"],
                           "expected": "accept" if want else "reject", "observed": "accept" if accepted else o["compile"]},
                          finding_key=key)
    chk.count(n)
    # inference: the element type of [a, b] is the common type
    inf = [c for c in allcases if c["common"]["k"] != "n/a" and not has(c["req"], "fn") and not has(c["sup"], "fn")
           and json.dumps(c["req"], sort_keys=True) in good_sup]
    if tier == "quick":
        inf = inf[seed % 3::3]
    ij = []
    for k, c in enumerate(inf):
        ij.append({"id": "i%d" % k, "src": mk("let v = [%s, %s];\n" % (inh(c["req"]), inh(c["sup"]))),
                   "compile_only": True, "types": ["v"]})
    ires = vf.run_jobs(ij, "c04-infer")
    for j, c in zip(ij, inf):
        o = ires[j["id"]]
        oc = vf.job_outcome(o)
        chk.count(1)
        chk.nontrivial(["infer", c["req"], c["sup"]])
        if c["common"]["k"] == "none":
            good = oc == "compile_err"
            want = "rejected (no common type)"
            got = oc
        else:
            want = "Sequence<%s>" % ann(c["common"])
            got = o.get("types", {}).get("v") if oc == "ok" else oc + ": " + str(o.get("compile", {}).get("msg", ""))[:120]
            good = got == want
        if not good:
            chk.violation("[%s, %s]: inferred type expected %s, observed %s" % (inh(c["req"]), inh(c["sup"]), want, got),
                          {"kind": "infer", "source": j["src"], "expected": want, "observed": got, "a": c["req"], "b": c["sup"]},
                          finding_key="infer:%s|%s" % (ann(c["req"]), ann(c["sup"])))
    # inference through a generic parameter bound by several arguments: the binding is the common type
    # (in either order, directly and inside a container), or the call is rejected
    GEN = ("fn pick<T>(a: T, b: T)->T { a }\nfn pickseq<T>(a: Sequence<T>, b: Sequence<T>)->Sequence<T> { a }\n"
           "fn pick3<T>(a: T, b: T, c: T)->Optional<T> { none() }\n")
    gj, gmeta = [], []
    for k, c in enumerate(inf):
        A, B = inh(c["req"]), inh(c["sup"])
        for form, call, wrap in (("pick", "pick(%s, %s)" % (A, B), "%s"), ("pickseq", "pickseq([%s], [%s])" % (A, B), "Sequence<%s>"),
                                 ("pick3", "pick3(%s, %s, %s)" % (A, B, A), "Optional<%s>")):
            if tier == "quick" and form != ("pick", "pickseq", "pick3")[(k + seed) % 3]:
                continue
            gj.append({"id": "g%d" % len(gj), "src": mk(GEN + "let v = %s;\n" % call), "compile_only": True, "types": ["v"]})
            gmeta.append((c, form, call, wrap))
    gres = vf.run_jobs(gj, "c04-generic")
    for j, (c, form, call, wrap) in zip(gj, gmeta):
        o = gres[j["id"]]
        oc = vf.job_outcome(o)
        chk.count(1)
        chk.nontrivial(["generic", form, c["req"], c["sup"]])
        if c["common"]["k"] == "none":
            good, want, got = oc == "compile_err", "rejected (no common type)", oc
        else:
            want = wrap % ann(c["common"])
            got = o.get("types", {}).get("v") if oc == "ok" else oc + ": " + str(o.get("compile", {}).get("msg", ""))[:120]
            good = got == want
        if not good:
            chk.violation("%s: static type expected %s, observed %s" % (call, want, got),
                          {"kind": "infer", "source": j["src"], "expected": want, "observed": got, "a": c["req"], "b": c["sup"]},
                          finding_key="generic:%s:%s|%s" % (form, ann(c["req"]), ann(c["sup"])))
    chk.part("generic_binding", calls=len(gj))
    chk.part("pairs", pairs=len(cases), positions=positions, expected_accept=len(yes), expected_reject=len(no), inference=len(inf))
    c = cases[len(cases) // 2]
    chk.sample({"required": ann(c["req"]), "supplied": ann(c["sup"]), "inhabitant": inh(c["sup"]), "assignable": c["assign"],
                "common": c["common"]})
    chk.cov["exhaustive"] = True
    chk.cov["rule"] = ("all (required, supplied) pairs of the XrTypes universe (int, str, bool, unknown; Sequence/Optional/"
                       "Generator/Mapping over them; tuples of arity 0-2; callables of arity 0-2; user structs/unions with "
                       "0-2 generic parameters; thorough: a second nesting level) x syntactic positions; plus array-literal "
                       "inference for every pair; non-trivial = distinct (required, supplied, position)")
    chk.assumptions += ["required types containing `unknown` cannot be written as annotations and are not required-side cases",
                        "no common type is documented for callables: callable pairs are excluded from the inference comparison"]


def replay(chk, path):
    rp = json.load(open(path))
    o = vf.run_jobs([{"id": "r", "src": rp["source"], "compile_only": True, "types": ["v"]}], "replay")["r"]
    oc = vf.job_outcome(o)
    chk.count(1)
    chk.nontrivial("replay")
    chk.nontrivial(rp["source"])
    chk.sample({"source": rp["source"], "outcome": oc})
    if rp["kind"] == "infer":
        got = o.get("types", {}).get("v") if oc == "ok" else oc
        good = (got == rp["expected"]) or (rp["expected"].startswith("rejected") and oc == "compile_err")
    else:
        good = (oc == "ok") == (rp.get("expected") == "accept")
    if not good:
        chk.violation("still deviates", rp)
    return chk.finish()
