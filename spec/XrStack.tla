------------------------------- MODULE XrStack -------------------------------
(***************************************************************************)
(* M5 (stacks): a Stack is a persistent first-in, last-out list            *)
(* (std/stack.md); push / tail return new stacks and leave every earlier   *)
(* version unchanged (structural sharing of a singly linked list).  Pool   *)
(* machine as XrSeq: each step applies one operation to earlier bindings,  *)
(* the abstract value of a stack is the list of its elements in insertion  *)
(* order, and all bindings are read back at the end.                       *)
(* Conversions to sequences: the shipped scripts (023, 026, 038) fix       *)
(* to_array = insertion order (std/stack.md describes the opposite; the    *)
(* scripts win, see DESIGN.md), to_array_reversed = the reverse; seq + stk *)
(* appends the stack last-in first, add_rev in insertion order             *)
(* (std/sequence.md, script 049); to_stack puts x[0] at the bottom.        *)
(***************************************************************************)
EXTENDS XrEval, Json, SequencesExt

CONSTANT Steps

VARIABLES pool, step, r
kvars == <<pool, step, r>>

Ch(S, x) == SetToSortSeq(S, LAMBDA a, b : a < b)[(x % Cardinality(S)) + 1]
Ents(kind) == {i \in 1..Len(pool) : pool[i].k = kind /\ ~pool[i].err}
Name(i) == "k" \o ToString(i)
V(i) == [k |-> "var", n |-> pool[i].n]
Lit(x) == [k |-> "lit", ty |-> "int", v |-> x]
Call(f, as) == [k |-> "call", f |-> f, args |-> as, sty |-> "method"]
Fn(f, as) == [k |-> "call", f |-> f, args |-> as, sty |-> "fn"]
Op2(f, a, b) == [k |-> "call", f |-> f, args |-> <<a, b>>, sty |-> "op"]
LitArr(xs) == [k |-> "arr", items |-> [i \in 1..Len(xs) |-> Lit(xs[i].v)]]
New(kind, v, term) == [n |-> Name(Len(pool) + 1), k |-> kind, err |-> FALSE, v |-> v, term |-> term]
NewErr(kind, term) == [n |-> Name(Len(pool) + 1), k |-> kind, err |-> TRUE, v |-> <<>>, term |-> term]

RECURSIVE PushAll(_, _, _)
PushAll(t, xs, i) == IF i > Len(xs) THEN t ELSE PushAll(Call("push", <<t, Lit(xs[i].v)>>), xs, i + 1)
RandInts(rr, off, maxlen) == LET n == rr[off] % (maxlen + 1) IN [j \in 1..n |-> IntV((rr[off + j] % 7) - 1)]

Source(rr) ==
    LET xs == RandInts(rr, 2, 4)
    IN IF rr[1] % 3 = 0 /\ xs # <<>> THEN New("stack", xs, Call("to_stack", <<LitArr(xs)>>))
       ELSE IF rr[1] % 3 = 1 /\ xs # <<>> THEN New("stack", xs, PushAll(Fn("stack", <<>>), xs, 1))
       ELSE IF rr[1] % 3 = 2 /\ rr[2] % 2 = 0 THEN New("int", IntV((rr[3] % 7) - 1), Lit((rr[3] % 7) - 1))
       ELSE IF xs = <<>> THEN New("seq", <<IntV(7)>>, LitArr(<<IntV(7)>>))
       ELSE New("seq", xs, LitArr(xs))

Op(rr) ==
    LET S == Ents("stack")
    IN IF S = {} THEN Source(rr)
    ELSE
    LET i == Ch(S, rr[1])  xs == pool[i].v  n == Len(xs)  o == Ch(1..21, rr[2])  x == (rr[3] % 7) - 1
    IN CASE o \in {1, 2} -> New("stack", Append(xs, IntV(x)), Call("push", <<V(i), Lit(x)>>))
         [] o \in {3, 4} -> IF n = 0 THEN NewErr("stack", Call("tail", <<V(i)>>))
                            ELSE New("stack", SubSeq(xs, 1, n - 1), Call("tail", <<V(i)>>))
         [] o = 5 -> IF n = 0 THEN NewErr("int", Call("head", <<V(i)>>)) ELSE New("int", xs[n], Call("head", <<V(i)>>))
         [] o = 6 -> New("int", IntV(n), Call("len", <<V(i)>>))
         [] o = 7 -> New("seq", xs, Call("to_array", <<V(i)>>))
         [] o = 8 -> New("seq", Reverse(xs), Call("to_array_reversed", <<V(i)>>))
         [] o = 9 -> LET j == Ch(S, rr[3]) IN New("bool", BoolV(xs = pool[j].v), Op2("eq", V(i), V(j)))
         [] o = 10 -> LET j == Ch(S, rr[3])
                      IN IF xs = pool[j].v THEN New("bool", BoolV(TRUE), Op2("eq", Call("hash", <<V(i)>>), Call("hash", <<V(j)>>)))
                         ELSE New("int", IntV(n), Call("len", <<V(i)>>))
         [] o = 11 /\ Ents("seq") # {} -> LET j == Ch(Ents("seq"), rr[3])
                      IN New("seq", pool[j].v \o Reverse(xs), Op2("add", V(j), V(i)))
         [] o = 12 /\ Ents("seq") # {} -> LET j == Ch(Ents("seq"), rr[3])
                      IN New("seq", pool[j].v \o xs, Fn("add_rev", <<V(j), V(i)>>))
         [] o = 13 /\ Ents("seq") # {} -> LET j == Ch(Ents("seq"), rr[3])
                      IN New("stack", pool[j].v, Call("to_stack", <<V(j)>>))
         \* pushing a value that is bound to a name: several stacks then hold the very same value object
         \* (equality is structural: what lies below a shared element still counts)
         [] o \in {14, 15, 16} /\ Ents("int") # {} -> LET j == Ch(Ents("int"), rr[3])
                      IN New("stack", Append(xs, pool[j].v), Call("push", <<V(i), V(j)>>))
         \* two stacks with the very same value object on top and (possibly) different elements below it
         [] o \in {17, 18, 19} /\ Ents("int") # {} /\ n >= 1 ->
                      LET j == Ch(Ents("int"), rr[3])
                          ys == Append(SubSeq(xs, 1, n - 1), IntV(x))
                          a == Call("push", <<V(i), V(j)>>)
                          b == Call("push", <<Call("push", <<Call("tail", <<V(i)>>), Lit(x)>>), V(j)>>)
                      IN IF o = 19 /\ xs = ys THEN New("bool", BoolV(TRUE), Op2("eq", Call("hash", <<a>>), Call("hash", <<b>>)))
                         ELSE New("bool", BoolV(xs = ys), Op2("eq", a, b))
         \* the left operand is an empty sequence in its canonical representation (everything skipped)
         [] o = 20 /\ Ents("seq") # {} -> LET j == Ch(Ents("seq"), rr[3])
                      IN New("seq", Reverse(xs), Op2("add", Call("skip", <<V(j), Lit(Len(pool[j].v))>>), V(i)))
         [] o = 21 /\ Ents("seq") # {} -> LET j == Ch(Ents("seq"), rr[3])
                      IN New("seq", xs, Fn("add_rev", <<Call("take", <<V(j), Lit(0)>>), V(i)>>))
         [] OTHER -> Source(rr)

Init == pool = <<>> /\ step = 0 /\ r = <<>>
Next == /\ step < Steps
        /\ r' = [j \in 1..8 |-> RandomElement(0..5039)]
        /\ pool' = Append(pool, IF step < 2 THEN Source(r') ELSE Op(r'))
        /\ step' = step + 1
Spec == Init /\ [][Next]_kvars

ProjE(e) ==
    IF e.err THEN [t |-> "err", m |-> "?"]
    ELSE IF e.k = "seq" THEN [t |-> "seq", inf |-> FALSE, v |-> [i \in 1..Len(e.v) |-> Proj(e.v[i])]]
    ELSE IF e.k = "stack" THEN [t |-> "stack", v |-> [i \in 1..Len(e.v) |-> Proj(e.v[i])]]
    ELSE Proj(e.v)

Emit == (step = Steps) =>
    PrintT(<<"CASE", ToJson([binds |-> [i \in 1..Len(pool) |-> [n |-> pool[i].n, term |-> pool[i].term, v |-> ProjE(pool[i])]]])>>)

\* design: push then tail is the identity; to_array_reversed is the reverse of to_array
PushTail == \A i \in 1..Len(pool) : (pool[i].k = "stack" /\ ~pool[i].err) =>
                SubSeq(Append(pool[i].v, IntV(0)), 1, Len(pool[i].v)) = pool[i].v
=============================================================================
