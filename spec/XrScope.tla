------------------------------- MODULE XrScope -------------------------------
(***************************************************************************)
(* Static side of forward declarations (lang/shadowing.md "Forward         *)
(* Functions"): a function that uses a forward function before it is       *)
(* defined is itself a forward function and cannot be called until all its *)
(* forward dependencies are fulfilled; calling one earlier is the          *)
(* compilation error MissingForwardImplementation.                         *)
(* The dynamic side (a forward name denotes the later definition, lexical  *)
(* scoping, closures, one-time defaults) is XrEval.                        *)
(***************************************************************************)
EXTENDS XrEval

\* Names an expression refers to (call targets and variables).  `deep` = TRUE also looks inside
\* lambda bodies; with FALSE only what is evaluated immediately is collected (a lambda body
\* runs when the lambda is called, not when it is created - but its defaults run at creation).
RECURSIVE Refs(_, _), RefsSeq(_, _, _), RefsDecls(_, _), RefsParams(_, _)
RefsSeq(es, i, deep) == IF i > Len(es) THEN {} ELSE Refs(es[i], deep) \cup RefsSeq(es, i + 1, deep)
RefsParams(ps, i) == IF i > Len(ps) THEN {}
                     ELSE (IF ps[i].hasdef THEN Refs(ps[i].def, TRUE) ELSE {}) \cup RefsParams(ps, i + 1)
RefsDecls(ds, i) ==
    IF i > Len(ds) THEN {}
    ELSE LET d == ds[i]
             here == IF d.k = "let" THEN Refs(d.e, TRUE)
                     ELSE IF d.k = "fn" THEN RefsParams(d.ps, 1) \cup RefsDecls(d.decls, 1) \cup Refs(d.ret, TRUE)
                     ELSE {}
         IN here \cup RefsDecls(ds, i + 1)
Refs(e, deep) ==
    CASE e.k = "var" -> {e.n}
      [] e.k = "call" -> {e.f} \cup RefsSeq(e.args, 1, deep)
      [] e.k = "callv" -> Refs(e.fe, deep) \cup RefsSeq(e.args, 1, deep)
      [] e.k \in {"arr", "tup", "cons"} -> RefsSeq(e.items, 1, deep)
      [] e.k \in {"variant", "member", "vget"} -> Refs(e.e, deep)
      [] e.k = "lam" -> RefsParams(e.ps, 1) \cup
                        (IF deep THEN RefsDecls(e.decls, 1) \cup Refs(e.ret, TRUE) ELSE {})
      [] OTHER -> {}

\* names that are *called* immediately (call targets, callees of function-valued calls):
\* merely mentioning a forward-dependent function as a value does not invoke it
RECURSIVE Called(_), CalledSeq(_, _)
CalledSeq(es, i) == IF i > Len(es) THEN {} ELSE Called(es[i]) \cup CalledSeq(es, i + 1)
Called(e) ==
    CASE e.k = "call" -> {e.f} \cup CalledSeq(e.args, 1)
      [] e.k = "callv" -> (IF e.fe.k = "var" THEN {e.fe.n} ELSE Called(e.fe)) \cup CalledSeq(e.args, 1)
      [] e.k \in {"arr", "tup", "cons"} -> CalledSeq(e.items, 1)
      [] e.k \in {"variant", "member", "vget"} -> Called(e.e)
      [] OTHER -> {}

\* walk the top-level declarations: req[name] = forward ids the name depends on,
\* open = ids not yet fulfilled.  Result: "ok" or the compilation error class.
RECURSIVE StaticWalk(_, _, _, _)
StaticWalk(ds, i, req, open) ==
    IF i > Len(ds) THEN "ok"
    ELSE
    LET d == ds[i]
        Need(names) == UNION {req[x] : x \in names \cap DOMAIN req}
        Put(n, r) == [x \in DOMAIN req \cup {n} |-> IF x = n THEN r ELSE req[x]]
    IN IF d.k = "fwd" THEN StaticWalk(ds, i + 1, Put(d.n, {d.id}), open \cup {d.id})
       ELSE IF d.k = "let"
         THEN \* what the initialiser calls now must be callable now; what it merely holds
              \* (lambdas, function values) makes the new variable forward-dependent
              IF Need(Called(d.e)) \cap open # {} THEN "MissingForwardImplementation"
              ELSE StaticWalk(ds, i + 1, Put(d.n, Need(Refs(d.e, TRUE)) \cap open), open)
       ELSE IF d.k = "fn"
         THEN \* default values are evaluated when the function is created: immediate uses
              IF Need(RefsParams(d.ps, 1)) \cap open # {} THEN "MissingForwardImplementation"
              ELSE LET body == Need(RefsDecls(d.decls, 1) \cup Refs(d.ret, TRUE)) \cap open
                       fulfils == d.n \in DOMAIN req /\ \E id \in req[d.n] \cap open : d.fulfils = id
                   IN IF fulfils
                        THEN StaticWalk(ds, i + 1, req, open \ {d.fulfils})
                        ELSE StaticWalk(ds, i + 1, Put(d.n, body), open)
       ELSE StaticWalk(ds, i + 1, req, open)

StaticCheck(decls) == StaticWalk(decls, 1, [x \in {} |-> {}], {})
=============================================================================
