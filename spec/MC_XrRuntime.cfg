SPECIFICATION MCSpec
CONSTANTS MaxAcct = 4 MaxFrames = 3 MaxActs = 2 Wide = TRUE
INVARIANT RuntimeInv
PROPERTY DoomedIsAbsorbing
PROPERTY EffectOnlyWithPermission
PROPERTY AcctStepsAreAllocations
CONSTRAINT Bound
CHECK_DEADLOCK FALSE
