---------------------------- MODULE MC_XrRuntime ----------------------------
(***************************************************************************)
(* Bounded model of the resource machine on its own: an arbitrary          *)
(* interpreter that may take any enabled XrRuntime action with parameters  *)
(* from small sets.  TLC checks RuntimeInv in every reachable state and the*)
(* action properties below, i.e. that the *design* of the accounting, the  *)
(* counters, the doom discipline and the permission grants is coherent     *)
(* before any implementation trace is looked at.                           *)
(***************************************************************************)
EXTENDS XrRuntime

CONSTANTS MaxAcct, MaxFrames, MaxActs, Wide   \* bounds of the exploration (see the .cfg files)

Sizes == {0, 1, 2}
Tmpls == {1, 2}
LimitAll == [size : {NoLimit, 3}, depth : {NoLimit, 2}, recursion : {NoLimit, 1},
             calls : {NoLimit, 2}, search : {NoLimit}, time : {NoLimit, 5}]
LimitChoices ==
    { [size |-> s, depth |-> d, recursion |-> r, calls |-> c, search |-> NoLimit, time |-> t] :
        s \in {NoLimit, 3}, d \in {NoLimit, 2}, r \in {NoLimit, 1}, c \in {NoLimit, 2},
        t \in {NoLimit, 5} } \cap
    (IF Wide THEN LimitAll
     ELSE { L \in LimitAll : Cardinality({k \in DOMAIN L : L[k] # NoLimit}) <= 1 })
PermChoices ==
    { [p \in PermIds |-> IF p = "print" THEN a ELSE IF p = "regex" THEN b ELSE "unset"] :
        a \in {"unset", "forbid"}, b \in IF Wide THEN {"unset", "allow"} ELSE {"unset"} }

MCNext ==
    \/ CompileBegin \/ CompileEnd
    \/ \E L \in LimitChoices, P \in PermChoices : InstBegin(acct, L, P)
    \/ \E o \in {"ok", doomed} : InstEnd(o, acct, IF lim.calls # NoLimit THEN calls ELSE 0)
    \/ RunBegin(acct, IF lim.calls # NoLimit THEN calls ELSE 0)
    \/ \E o \in {"ok", doomed} : RunEnd(o, acct, IF lim.calls # NoLimit THEN calls ELSE 0)
    \/ ResetCalls \/ ResetTimeout
    \/ Dropped(acct)
    \/ \E s \in Sizes, p \in 0..1 : Alloc(s, p, acct + s, lim.size)
    \/ \E s \in Sizes \ {0} : Dealloc(s, acct - s)
    \/ \E r \in 1..2 : CanAlloc(r, acct, lim.size)
    \/ \E t \in Tmpls : UCall(t)
    \/ Inc(calls + 1, lim.calls)
    \/ \E passed \in BOOLEAN : TimeChk(lim.time # NoLimit, passed)
    \/ \E t \in Tmpls : Frame(t, Len(frames), lim.depth)
    \/ \E t \in Tmpls : FrameIn(t, Len(frames) - 1)
    \/ \E t \in Tmpls : acts # <<>> /\ TailIter(t, TopAct.rec + 1, lim.recursion)
    \/ \E t \in Tmpls : frames # <<>> /\ Leave(t, Len(frames) - 1)
    \/ \E id \in {"print", "regex", "now"} : Perm(id, Allowed(id))
    \/ \E k \in {"write", "regex", "clock"} : Effect(k)

MCSpec == Init /\ [][MCNext]_rvars

Bound ==
    /\ acct <= MaxAcct /\ Len(frames) <= MaxFrames /\ Len(acts) <= MaxActs /\ calls <= 3
    /\ \A i \in 1..Len(acts) : acts[i].rec <= 2
    /\ \A p \in PermIds : grant[p] <= 2 /\ grant[p] >= -2

\* the first violation raised is the one the host receives: it never changes, and is only
\* cleared by the end of the host call; after a Timeout no further user call begins
DoomedIsAbsorbing ==
    [][doomed # "none" =>
          /\ (doomed' = doomed \/ phase' = "Idle")
          /\ (doomed = "Timeout" => Len(acts') <= Len(acts))]_rvars

\* an effect never happens while its permission is forbidden (or off by default)
EffectOnlyWithPermission ==
    [][\A p \in PermIds : (grant'[p] < 0 /\ grant[p] >= 0) => Allowed(p) /\ grant[p] >= 1]_rvars

\* the accounted total only ever moves by the size of one allocation
AcctStepsAreAllocations ==
    [][acct' # acct => \E s \in Sizes : acct' = acct + s \/ acct' = acct - s]_rvars
=============================================================================
