------------------------------ MODULE XrBigInt ------------------------------
(***************************************************************************)
(* Exact integers of any magnitude (std/int.md).  TLC has 32-bit integers, *)
(* so a number is a sign and a little-endian sequence of base-10^4 limbs   *)
(* without leading zero limbs (zero = empty magnitude, non-negative); the  *)
(* decimal text of a number IS its limb form, so the harness converts      *)
(* dumps to limbs without doing arithmetic.                                *)
(* The module is a trace acceptor: one event per integer-builtin call the  *)
(* interpreter made, carrying operands and result; each event is accepted  *)
(* iff the result is the mathematically exact one (recomputed here, or     *)
(* checked through the defining relation), iff the Short/Long              *)
(* representation is canonical, and iff results obtained along different   *)
(* routes are indistinguishable (equal value, equal hash, equal text).     *)
(*   env TRACE = ndjson of {ev, ...}                                       *)
(***************************************************************************)
EXTENDS Integers, Sequences, TLC, Json, IOUtils

B == 10000
Zero == [neg |-> FALSE, mag |-> <<>>]

RECURSIVE Trim(_), AddM(_, _, _, _), SubM(_, _, _, _), CmpM(_, _, _), MulLimb(_, _, _, _), MulM(_, _, _),
          ShortDiv(_, _, _, _), Horner(_, _, _), PowN(_, _)
Trim(m) == IF m = <<>> \/ m[Len(m)] # 0 THEN m ELSE Trim(SubSeq(m, 1, Len(m) - 1))
Limb(m, i) == IF i <= Len(m) THEN m[i] ELSE 0
\* magnitude addition, position i, carry c
AddM(a, b, i, c) ==
    IF i > Len(a) /\ i > Len(b) THEN (IF c = 0 THEN <<>> ELSE <<c>>)
    ELSE LET s == Limb(a, i) + Limb(b, i) + c IN <<s % B>> \o AddM(a, b, i + 1, s \div B)
\* a - b for a >= b
SubM(a, b, i, br) ==
    IF i > Len(a) THEN <<>>
    ELSE LET d == Limb(a, i) - Limb(b, i) - br
         IN IF d < 0 THEN <<d + B>> \o SubM(a, b, i + 1, 1) ELSE <<d>> \o SubM(a, b, i + 1, 0)
\* compare magnitudes: -1, 0, 1 (from the most significant limb, i = Len downwards)
CmpM(a, b, i) ==
    IF Len(a) # Len(b) THEN (IF Len(a) < Len(b) THEN -1 ELSE 1)
    ELSE IF i = 0 THEN 0
    ELSE IF a[i] < b[i] THEN -1 ELSE IF a[i] > b[i] THEN 1 ELSE CmpM(a, b, i - 1)
CmpMag(a, b) == CmpM(a, b, Len(a))
MulLimb(a, d, i, c) ==
    IF i > Len(a) THEN (IF c = 0 THEN <<>> ELSE <<c>>)
    ELSE LET p == a[i] * d + c IN <<p % B>> \o MulLimb(a, d, i + 1, p \div B)
\* schoolbook: a * b = a*b[1] + B * (a * b[2..])
MulM(a, b, i) ==
    IF i > Len(b) \/ a = <<>> THEN <<>>
    ELSE Trim(AddM(MulLimb(a, b[i], 1, 0), <<0>> \o MulM(a, b, i + 1), 1, 0))
MulMag(a, b) == Trim(MulM(a, b, 1))
\* divide magnitude by a single limb d (0 < d < B): quotient limbs (most significant first), remainder
ShortDiv(a, d, i, rem) ==
    IF i = 0 THEN [q |-> <<>>, r |-> rem]
    ELSE LET cur == rem * B + a[i]  rest == ShortDiv(a, d, i - 1, cur % d)
         IN [q |-> <<cur \div d>> \o rest.q, r |-> rest.r]

Mk(neg, mag) == LET m == Trim(mag) IN [neg |-> neg /\ m # <<>>, mag |-> m]
Neg(a) == Mk(~a.neg, a.mag)
Abs(a) == Mk(FALSE, a.mag)
Add(a, b) ==
    IF a.neg = b.neg THEN Mk(a.neg, AddM(a.mag, b.mag, 1, 0))
    ELSE LET c == CmpMag(a.mag, b.mag)
         IN IF c = 0 THEN Zero
            ELSE IF c > 0 THEN Mk(a.neg, SubM(a.mag, b.mag, 1, 0)) ELSE Mk(b.neg, SubM(b.mag, a.mag, 1, 0))
Sub(a, b) == Add(a, Neg(b))
Mul(a, b) == Mk(a.neg # b.neg, MulMag(a.mag, b.mag))
Cmp(a, b) ==
    IF a.neg # b.neg THEN (IF a.neg THEN -1 ELSE 1)
    ELSE IF a.neg THEN CmpMag(b.mag, a.mag) ELSE CmpMag(a.mag, b.mag)
Eq(a, b) == a.neg = b.neg /\ a.mag = b.mag
IsZero(a) == a.mag = <<>>
Small(n) == IF n < 0 THEN Mk(TRUE, <<(-n) % B, ((-n) \div B) % B, (-n) \div (B * B)>>)
            ELSE Mk(FALSE, <<n % B, (n \div B) % B, n \div (B * B)>>)
PowN(a, n) == IF n = 0 THEN Small(1) ELSE Mul(a, PowN(a, n - 1))
\* sum of ds[i] * base^(i-1), ds little-endian small non-negative ints, base < B
Horner(ds, base, i) == IF i > Len(ds) THEN Zero ELSE Add(Small(ds[i]), Mul(Small(base), Horner(ds, base, i + 1)))

\* 2^63 = 9223372036854775808
P63 == Mk(FALSE, <<5808, 5477, 368, 3372, 922>>)
FitsShort(a) == IF a.neg THEN Cmp(Abs(a), P63) <= 0 ELSE Cmp(a, P63) < 0

\* q, r are floor division and floored remainder of a by b (b # 0)
DivModFloorOK(a, b, q, r) ==
    /\ Eq(a, Add(Mul(q, b), r))
    /\ IF b.neg THEN (IsZero(r) \/ r.neg) /\ Cmp(r, b) > 0 ELSE ~r.neg /\ Cmp(r, b) < 0

----------------------------------------------------------------------------
Rec == ndJsonDeserialize(IOEnv.TRACE)
VARIABLE l
N(x) == Mk(x.neg, x.mag)          \* as sent by the harness (already trimmed; Mk re-trims)

EventOK(e) ==
    CASE e.ev = "add" -> Eq(N(e.r), Add(N(e.a), N(e.b)))
      [] e.ev = "sub" -> Eq(N(e.r), Sub(N(e.a), N(e.b)))
      [] e.ev = "mul" -> Eq(N(e.r), Mul(N(e.a), N(e.b)))
      [] e.ev = "neg" -> Eq(N(e.r), Neg(N(e.a)))
      [] e.ev = "abs" -> Eq(N(e.r), Abs(N(e.a)))
      [] e.ev = "cmp" -> e.r = Cmp(N(e.a), N(e.b))
      [] e.ev = "rel" -> e.r = (CASE e.op = "eq" -> Cmp(N(e.a), N(e.b)) = 0 [] e.op = "ne" -> Cmp(N(e.a), N(e.b)) # 0
                                  [] e.op = "lt" -> Cmp(N(e.a), N(e.b)) < 0 [] e.op = "le" -> Cmp(N(e.a), N(e.b)) <= 0
                                  [] e.op = "gt" -> Cmp(N(e.a), N(e.b)) > 0 [] e.op = "ge" -> Cmp(N(e.a), N(e.b)) >= 0)
      [] e.ev = "divmod" -> DivModFloorOK(N(e.a), N(e.b), N(e.q), N(e.r))       \* div_floor with mod
      [] e.ev = "divceil" -> \* q = ceil(a / b): q*b - a has the sign of b (or zero) and is smaller than b in magnitude
            LET d == Sub(Mul(N(e.q), N(e.b)), N(e.a))
            IN (IsZero(d) \/ d.neg = N(e.b).neg) /\ CmpMag(d.mag, N(e.b).mag) < 0
      [] e.ev = "pow" -> Eq(N(e.r), PowN(N(e.a), e.n))
      [] e.ev = "bits" -> \* a, b >= 0:  (a & b) + (a | b) = a + b,  a ^ b = (a | b) - (a & b),  a & b <= min
            /\ Eq(Add(N(e.and), N(e.or)), Add(N(e.a), N(e.b)))
            /\ Eq(N(e.xor), Sub(N(e.or), N(e.and)))
            /\ ~N(e.and).neg /\ Cmp(N(e.and), N(e.a)) <= 0 /\ Cmp(N(e.and), N(e.b)) <= 0
            /\ Cmp(N(e.or), N(e.a)) >= 0 /\ Cmp(N(e.or), N(e.b)) >= 0
      \* signed operands (infinite two's complement):  (a & b) + (a | b) = a + b  and  a ^ b = (a | b) - (a & b)
      [] e.ev = "sbits" -> /\ Eq(Add(N(e.and), N(e.or)), Add(N(e.a), N(e.b)))
                           /\ Eq(N(e.xor), Sub(N(e.or), N(e.and)))
      \* a & (2^k - 1) is the floored remainder of a by 2^k (the remainder itself is checked by its divmod event)
      [] e.ev = "mask" -> Eq(N(e.and), N(e.mod))
      [] e.ev = "gcd" -> \* g >= 0, a = g*a1, b = g*b1 (a1, b1 by the interpreter's own floor division), and
                         \* the cofactors have gcd 1 according to the interpreter as well
            /\ ~N(e.g).neg
            /\ Eq(N(e.a), Mul(N(e.g), N(e.a1))) /\ Eq(N(e.b), Mul(N(e.g), N(e.b1)))
            /\ e.cof1
      [] e.ev = "lcm" -> \* lcm * gcd = |a * b|, lcm >= 0
            ~N(e.l).neg /\ Eq(Mul(N(e.l), N(e.g)), Abs(Mul(N(e.a), N(e.b))))
      [] e.ev = "fact" -> Eq(N(e.r), Mul(Small(e.n), N(e.prev)))           \* n! = n * (n-1)!
      [] e.ev = "binom" -> \* C(n,k) * k = C(n,k-1) * (n-k+1)
            Eq(Mul(N(e.r), Small(e.k)), Mul(N(e.prev), Small(e.n - e.k + 1)))
      \* integer roots: floor_root(a, b) = r  iff  r^b <= a < (r+1)^b;  ceil_root(a, b) = r  iff  (r-1)^b < a <= r^b  (a > 0)
      [] e.ev = "froot" -> Cmp(PowN(N(e.r), e.b), N(e.a)) <= 0 /\ Cmp(N(e.a), PowN(Add(N(e.r), Small(1)), e.b)) < 0
      [] e.ev = "croot" -> Cmp(PowN(Sub(N(e.r), Small(1)), e.b), N(e.a)) < 0 /\ Cmp(N(e.a), PowN(N(e.r), e.b)) <= 0
      \* multinomial through binomials: (a+b+c)! / (a! b! c!) = C(a+b+c, a) * C(b+c, b)
      [] e.ev = "multinom" -> Eq(N(e.r), Mul(N(e.c1), N(e.c2)))
      \* factorial with a step: n!(s) = n * (n-s)!(s)
      [] e.ev = "factstep" -> Eq(N(e.r), Mul(Small(e.n), N(e.prev)))
      [] e.ev = "digits" -> Eq(Abs(N(e.a)), Horner(e.ds, e.base, 1)) /\ \A i \in 1..Len(e.ds) : e.ds[i] >= 0 /\ e.ds[i] < e.base
      [] e.ev = "text" -> Eq(N(e.a), N(e.parsed))                           \* to_str / to_int / format round trip
      [] e.ev = "repr" -> (e.short = FitsShort(N(e.a)))                      \* canonical Short/Long form
      [] e.ev = "same" -> \* two routes to the same number: indistinguishable
            Eq(N(e.a), N(e.b)) /\ e.eq /\ e.samehash /\ e.sametext
      \* fractions n/d: results checked by cross-multiplication, normal form by sign and gcd
      [] e.ev = "fnew" -> Eq(Mul(N(e.rn), N(e.d)), Mul(N(e.n), N(e.rd)))                    \* rn/rd = n/d
      [] e.ev = "fadd" -> Eq(Mul(N(e.rn), Mul(N(e.d1), N(e.d2))),
                            Mul(Add(Mul(N(e.n1), N(e.d2)), Mul(N(e.n2), N(e.d1))), N(e.rd)))
      [] e.ev = "fsub" -> Eq(Mul(N(e.rn), Mul(N(e.d1), N(e.d2))),
                            Mul(Sub(Mul(N(e.n1), N(e.d2)), Mul(N(e.n2), N(e.d1))), N(e.rd)))
      [] e.ev = "fmul" -> Eq(Mul(N(e.rn), Mul(N(e.d1), N(e.d2))), Mul(Mul(N(e.n1), N(e.n2)), N(e.rd)))
      [] e.ev = "fdiv" -> Eq(Mul(N(e.rn), Mul(N(e.d1), N(e.n2))), Mul(Mul(N(e.n1), N(e.d2)), N(e.rd)))
      [] e.ev = "fnorm" -> \* lowest terms with a positive denominator (gcd by the interpreter, itself checked by C14)
            ~N(e.rd).neg /\ ~IsZero(N(e.rd)) /\ e.gcd1
      [] e.ev = "fcmp" -> \* sign of n1*d2 - n2*d1 (denominators positive)
            e.r = Cmp(Mul(N(e.n1), N(e.d2)), Mul(N(e.n2), N(e.d1)))
      \* a ** k: n1^k / d1^k for k >= 0, d1^|k| / n1^|k| for k < 0 (n1 # 0)
      [] e.ev = "fpow" -> IF e.k >= 0
                            THEN Eq(Mul(N(e.rn), PowN(N(e.d1), e.k)), Mul(PowN(N(e.n1), e.k), N(e.rd)))
                            ELSE ~IsZero(N(e.n1)) /\ Eq(Mul(N(e.rn), PowN(N(e.n1), -e.k)), Mul(PowN(N(e.d1), -e.k), N(e.rd)))
      [] e.ev = "fneg" -> Eq(N(e.rn), Neg(N(e.n1))) /\ Eq(N(e.rd), N(e.d1))
      [] e.ev = "fabs" -> Eq(N(e.rn), Abs(N(e.n1))) /\ Eq(N(e.rd), N(e.d1))
      [] e.ev = "fsign" -> e.r = Cmp(N(e.n1), Zero)                            \* d1 > 0 (fnorm)
      [] e.ev = "feq" -> e.r = Eq(Mul(N(e.n1), N(e.d2)), Mul(N(e.n2), N(e.d1)))
      \* floor: r * d1 <= n1 < (r + 1) * d1; ceil: (r - 1) * d1 < n1 <= r * d1   (d1 > 0)
      [] e.ev = "ffloor" -> /\ Cmp(Mul(N(e.r), N(e.d1)), N(e.n1)) <= 0
                            /\ Cmp(N(e.n1), Mul(Add(N(e.r), Small(1)), N(e.d1))) < 0
      [] e.ev = "fceil" -> /\ Cmp(N(e.n1), Mul(N(e.r), N(e.d1))) <= 0
                           /\ Cmp(Mul(Sub(N(e.r), Small(1)), N(e.d1)), N(e.n1)) < 0
      \* trunc: towards zero
      [] e.ev = "ftrunc" -> IF N(e.n1).neg
                              THEN /\ Cmp(N(e.n1), Mul(N(e.r), N(e.d1))) <= 0
                                   /\ Cmp(Mul(Sub(N(e.r), Small(1)), N(e.d1)), N(e.n1)) < 0
                              ELSE /\ Cmp(Mul(N(e.r), N(e.d1)), N(e.n1)) <= 0
                                   /\ Cmp(N(e.n1), Mul(Add(N(e.r), Small(1)), N(e.d1))) < 0
      \* a % b = a - q * b with q = floor(a / b) (q checked by its own ffloor event):
      \* rn/rd = n1/d1 - q*n2/d2   <=>   rn*d1*d2 = (n1*d2 - q*n2*d1)*rd ; the result has the sign of b and is smaller
      [] e.ev = "fmod" -> /\ Eq(Mul(N(e.rn), Mul(N(e.d1), N(e.d2))),
                                Mul(Sub(Mul(N(e.n1), N(e.d2)), Mul(N(e.q), Mul(N(e.n2), N(e.d1)))), N(e.rd)))
                          /\ (IsZero(N(e.rn)) \/ N(e.rn).neg = N(e.n2).neg)
                          /\ CmpMag(Mul(N(e.rn), N(e.d2)).mag, Mul(N(e.n2), N(e.rd)).mag) < 0
      [] OTHER -> FALSE

Init == l = 1
Next == l <= Len(Rec) /\ EventOK(Rec[l]) /\ l' = l + 1
Spec == Init /\ [][Next]_l
Accepted ==
    LET d == TLCGet("stats").diameter
    IN IF d - 1 = Len(Rec) THEN PrintT(<<"TRACE_ACCEPTED", Len(Rec)>>)
       ELSE PrintT(<<"TRACE_REJECTED_AT", d, ToJson(Rec[d])>>) /\ FALSE
=============================================================================
