//! xv — generic replay/record runner for the xray verification harness.
//!
//! `xv run <jobs.ndjson> <out.ndjson> [--threads N] [--timeout-ms T]`
//!     runs every job (one JSON object per line) against the `xray` crate built from /repo's
//!     working tree with `--cfg xray_verif`, and writes one observation object per job.
//! `xv signatures <out.json>` dumps the root-scope signature table.
//!
//! The runner knows nothing about properties: it renders no programs and compares nothing.
//! Jobs carry program text and a configuration; observations carry projected state
//! (outcome classes, canonical value dumps, static types, output bytes, counters) and the
//! recorded event trace. Everything property-specific lives in the TLA+ specifications and in
//! the driver that binds them.

mod doubles;

use doubles::{VClock, VRng, VWriter};
use serde_json::{json, Map, Value};
use std::cell::RefCell;
use std::io::{BufRead, BufReader, BufWriter, Write};
use std::panic::{catch_unwind, AssertUnwindSafe};
use std::sync::atomic::{AtomicUsize, Ordering};
use std::sync::mpsc;
use std::sync::{Arc, Mutex};
use std::time::{Duration, Instant};
use xray::builtin::builtin_permissions as bp;
use xray::compile_err::ResolvedTracedCompilationError;
use xray::permissions::PermissionSet;
use xray::root_compilation_scope::RootCompilationScope;
use xray::root_runtime_scope::RootEvaluationScope;
use xray::runtime::{RTCell, RuntimeLimits};
use xray::std_compilation_scope;
use xray::verif;

type W = VWriter;
type R = VRng;
type T = VClock;

thread_local! {
    static PANIC_MSG: RefCell<Option<String>> = RefCell::new(None);
}

fn take_panic() -> String {
    PANIC_MSG
        .with(|p| p.borrow_mut().take())
        .unwrap_or_else(|| "<no message>".to_string())
}

fn opt_usize(v: Option<&Value>) -> Option<usize> {
    v.and_then(|x| x.as_u64()).map(|x| x as usize)
}

fn limits_from(job: &Value) -> RuntimeLimits {
    let l = job.get("limits");
    let g = |k: &str| opt_usize(l.and_then(|l| l.get(k)));
    let mut perms = PermissionSet::default();
    if let Some(Value::Object(p)) = job.get("perms") {
        for (k, v) in p {
            let perm = match k.as_str() {
                "now" => &bp::NOW,
                "print" => &bp::PRINT,
                "print_debug" => &bp::PRINT_DEBUG,
                "random" => &bp::RANDOM,
                "regex" => &bp::REGEX,
                "sleep" => &bp::SLEEP,
                _ => continue,
            };
            match v.as_bool() {
                Some(true) => perms.allow(perm),
                Some(false) => perms.forbid(perm),
                None => {}
            }
        }
    }
    // a configuration history: allow / forbid calls applied in order on the same set
    if let Some(Value::Array(ops)) = job.get("perm_ops") {
        for op in ops {
            let (Some(k), Some(v)) = (op.get(0).and_then(|x| x.as_str()), op.get(1).and_then(|x| x.as_bool())) else { continue };
            let perm = match k {
                "now" => &bp::NOW,
                "print" => &bp::PRINT,
                "print_debug" => &bp::PRINT_DEBUG,
                "random" => &bp::RANDOM,
                "regex" => &bp::REGEX,
                "sleep" => &bp::SLEEP,
                _ => continue,
            };
            if v {
                perms.allow(perm)
            } else {
                perms.forbid(perm)
            }
        }
    }
    RuntimeLimits {
        size_limit: g("size"),
        depth_limit: g("depth"),
        recursion_limit: g("recursion"),
        ud_call_limit: g("calls"),
        maximum_search: g("search"),
        time_limit: l
            .and_then(|l| l.get("time_ms"))
            .and_then(|x| x.as_u64())
            .map(Duration::from_millis),
        permissions: perms,
    }
}

fn compile_err_json(e: &ResolvedTracedCompilationError) -> Value {
    let class: &'static str = match e {
        ResolvedTracedCompilationError::Syntax(_) => "Syntax",
        ResolvedTracedCompilationError::Compilation(r, _, _) => r.into(),
    };
    // rendering must not panic either
    let msg = catch_unwind(AssertUnwindSafe(|| format!("{e}")));
    match msg {
        Ok(m) => json!({"ok": false, "class": class, "msg": m}),
        Err(_) => json!({"ok": false, "class": class, "render_panic": take_panic()}),
    }
}

fn srcs_of(job: &Value) -> Vec<String> {
    match job.get("src") {
        Some(Value::String(s)) => vec![s.clone()],
        Some(Value::Array(a)) => a
            .iter()
            .filter_map(|x| x.as_str().map(|s| s.to_string()))
            .collect(),
        _ => vec![],
    }
}

fn names(job: &Value, key: &str) -> Vec<String> {
    job.get(key)
        .and_then(|v| v.as_array())
        .map(|a| {
            a.iter()
                .filter_map(|x| x.as_str().map(|s| s.to_string()))
                .collect()
        })
        .unwrap_or_default()
}

fn run_job(job: &Value) -> Value {
    let mut out = Map::new();
    out.insert("id".into(), job.get("id").cloned().unwrap_or(Value::Null));
    let trace = job.get("trace").and_then(|v| v.as_bool()).unwrap_or(false);
    let max_elems = opt_usize(job.get("max_elems")).unwrap_or(64);
    let now = job.get("now").and_then(|v| v.as_f64()).unwrap_or(1.0e9);
    let seed = job.get("rng_seed").and_then(|v| v.as_u64()).unwrap_or(7);
    doubles::set_rng_seed(seed);
    let default_depth = opt_usize(job.get("default_depth")).unwrap_or(20_000);

    if trace {
        verif::start();
    }
    let finish = |mut out: Map<String, Value>| -> Value {
        if trace {
            out.insert("events".into(), Value::Array(verif::stop()));
        }
        Value::Object(out)
    };

    // ---- compile --------------------------------------------------------------------------
    let mut comp: RootCompilationScope<W, R, T> = match catch_unwind(std_compilation_scope::<W, R, T>)
    {
        Ok(c) => c,
        Err(_) => {
            out.insert("compile".into(), json!({"panic": take_panic(), "phase": "std"}));
            return finish(out);
        }
    };
    let srcs = srcs_of(job);
    let mut compile_results = Vec::new();
    let mut all_ok = true;
    for src in &srcs {
        verif::emit(json!({"ev":"CompileBegin"}));
        let r = catch_unwind(AssertUnwindSafe(|| comp.feed_file(src)));
        let res = match r {
            Ok(Ok(())) => json!({"ok": true}),
            Ok(Err(e)) => compile_err_json(&e),
            Err(_) => json!({"panic": take_panic()}),
        };
        let ok = res.get("ok").and_then(|v| v.as_bool()).unwrap_or(false);
        verif::emit(json!({"ev":"CompileEnd","ok":ok}));
        compile_results.push(res);
        if !ok {
            all_ok = false;
            break;
        }
    }
    out.insert(
        "compile".into(),
        if compile_results.len() == 1 {
            compile_results[0].clone()
        } else {
            json!({"ok": all_ok, "parts": compile_results})
        },
    );
    if !all_ok || job.get("compile_only").and_then(|v| v.as_bool()).unwrap_or(false) {
        if all_ok {
            let mut types = Map::new();
            for n in names(job, "types") {
                types.insert(n.clone(), json!(comp.verif_static_type(&n)));
            }
            out.insert("types".into(), Value::Object(types));
        }
        return finish(out);
    }
    let mut types = Map::new();
    for n in names(job, "types") {
        types.insert(n.clone(), json!(comp.verif_static_type(&n)));
    }
    out.insert("types".into(), Value::Object(types));

    // first round: the job's own configuration; further rounds ("then": [cfg, ...]) instantiate the SAME
    // compilation again under other limits / permissions (one compilation, several runtimes)
    run_round(&comp, job, &mut out, max_elems, now, default_depth);
    if let Some(Value::Array(more)) = job.get("then") {
        let mut rounds = Vec::new();
        for cfg in more {
            verif::emit(json!({"ev":"Reset"}));
            let mut r = Map::new();
            run_round(&comp, cfg, &mut r, max_elems, now, default_depth);
            rounds.push(Value::Object(r));
        }
        out.insert("rounds".into(), Value::Array(rounds));
    }
    finish(out)
}

/// instantiate `comp` under the limits / permissions of `job`, run its host calls, dump the observed
/// bindings, drop everything; results go into `out`
fn run_round(
    comp: &RootCompilationScope<W, R, T>,
    job: &Value,
    out: &mut Map<String, Value>,
    max_elems: usize,
    now: f64,
    default_depth: usize,
) {
    // ---- instantiate ----------------------------------------------------------------------
    let mut limits = limits_from(job);
    if limits.depth_limit.is_none() {
        limits.depth_limit = Some(default_depth);
    }
    let runtime: RTCell<W, R, T> = limits.to_runtime(VWriter::default(), VClock(now));
    let acc0 = runtime.verif_accounted();
    verif::emit(json!({"ev":"InstBegin","total":acc0,
        "limits":{"size":runtime.limits.size_limit,"depth":runtime.limits.depth_limit,
                  "recursion":runtime.limits.recursion_limit,"calls":runtime.limits.ud_call_limit,
                  "search":runtime.limits.maximum_search,
                  "time": runtime.limits.time_limit.map(|d| d.as_millis() as u64)}}));
    let inst = catch_unwind(AssertUnwindSafe(|| {
        RootEvaluationScope::from_compilation_scope(&comp, runtime.clone())
    }));
    let mut counters = Map::new();
    counters.insert("acc_before".into(), json!(acc0));
    match inst {
        Err(_) => {
            verif::emit(json!({"ev":"Panic","phase":"inst"}));
            out.insert("inst".into(), json!({"panic": take_panic()}));
        }
        Ok(Err(viol)) => {
            let v = format!("{viol:?}");
            verif::emit(json!({"ev":"InstEnd","outcome":v,"total":runtime.verif_accounted(),"calls":runtime.verif_ud_calls()}));
            out.insert("inst".into(), json!({"violation": v}));
        }
        Ok(Ok(scope)) => {
            verif::emit(json!({"ev":"InstEnd","outcome":"ok","total":runtime.verif_accounted(),"calls":runtime.verif_ud_calls()}));
            out.insert("inst".into(), json!({"ok": true}));
            counters.insert("acc_after_inst".into(), json!(runtime.verif_accounted()));
            counters.insert("calls_after_inst".into(), json!(runtime.verif_ud_calls()));
            // host-call history
            let mut call_results = Vec::new();
            if let Some(Value::Array(calls)) = job.get("calls") {
                for c in calls {
                    let op = c.get("op").and_then(|v| v.as_str()).unwrap_or("run");
                    match op {
                        "reset_calls" => {
                            runtime.reset_ud_calls();
                            verif::emit(json!({"ev":"ResetCalls"}));
                            call_results.push(json!({"reset": "calls"}));
                        }
                        "reset_timeout" => {
                            runtime.reset_timeout();
                            verif::emit(json!({"ev":"ResetTimeout"}));
                            call_results.push(json!({"reset": "timeout"}));
                        }
                        _ => {
                            let fname = c.get("fn").and_then(|v| v.as_str()).unwrap_or("main");
                            let f = scope.get_user_defined_function(fname);
                            match f {
                                Err(e) => call_results.push(json!({"lookup_err": format!("{e:?}")})),
                                Ok(f) => {
                                    verif::emit(json!({"ev":"RunBegin","fn":fname,"total":runtime.verif_accounted(),"calls":runtime.verif_ud_calls()}));
                                    let calls_before = runtime.verif_ud_calls();
                                    let r = catch_unwind(AssertUnwindSafe(|| {
                                        scope.run_function(f, vec![])
                                    }));
                                    let calls_after = runtime.verif_ud_calls();
                                    match r {
                                        Err(_) => {
                                            verif::emit(json!({"ev":"Panic","phase":"run"}));
                                            call_results.push(json!({"panic": take_panic()}));
                                        }
                                        Ok(Err(viol)) => {
                                            let v = format!("{viol:?}");
                                            verif::emit(json!({"ev":"RunEnd","outcome":v,"total":runtime.verif_accounted(),"calls":calls_after}));
                                            call_results.push(json!({"violation": v, "calls_before": calls_before, "calls_after": calls_after}));
                                        }
                                        Ok(Ok(res)) => {
                                            verif::emit(json!({"ev":"RunEnd","outcome":"ok","total":runtime.verif_accounted(),"calls":calls_after}));
                                            let val = res.unwrap_value();
                                            let d = catch_unwind(AssertUnwindSafe(|| {
                                                scope.verif_dump(&val, max_elems)
                                            }));
                                            drop(val);
                                            match d {
                                                Ok(d) => call_results.push(json!({"ok": d, "calls_before": calls_before, "calls_after": calls_after})),
                                                Err(_) => call_results.push(json!({"dump_panic": take_panic()})),
                                            }
                                        }
                                    }
                                }
                            }
                        }
                    }
                }
            }
            out.insert("calls".into(), Value::Array(call_results));
            counters.insert("acc_after_calls".into(), json!(runtime.verif_accounted()));
            counters.insert("calls_final".into(), json!(runtime.verif_ud_calls()));
            // observed bindings (recorder paused while forcing lazies)
            let mut values = Map::new();
            let paused = verif::pause();
            for n in names(job, "observe") {
                let d = match scope.get_value(&n) {
                    Err(e) => json!({"lookup_err": format!("{e:?}")}),
                    Ok(v) => match catch_unwind(AssertUnwindSafe(|| scope.verif_dump(v, max_elems))) {
                        Ok(d) => d,
                        Err(_) => json!({"dump_panic": take_panic()}),
                    },
                };
                values.insert(n, d);
            }
            verif::resume(paused);
            out.insert("values".into(), Value::Object(values));
            counters.insert("acc_before_drop".into(), json!(runtime.verif_accounted()));
            let dropped = catch_unwind(AssertUnwindSafe(move || drop(scope)));
            if dropped.is_err() {
                verif::emit(json!({"ev":"Panic","phase":"drop"}));
                out.insert("drop_panic".into(), json!(take_panic()));
            }
        }
    }
    // the compilation scope holds no managed values; whatever is still accounted now leaked
    let acc_end = runtime.verif_accounted();
    verif::emit(json!({"ev":"Dropped","total":acc_end}));
    counters.insert("acc_after_drop".into(), json!(acc_end));
    out.insert("counters".into(), Value::Object(counters));
    {
        let stats = runtime.stats.borrow();
        out.insert(
            "stdout".into(),
            json!(String::from_utf8_lossy(&stats.stdout.buf).to_string()),
        );
        out.insert("writes".into(), json!(stats.stdout.writes));
    }
    out.insert("effects".into(), doubles::take_effect_counts());
}


fn cmd_run(args: &[String]) -> i32 {
    let jobs_path = &args[0];
    let out_path = &args[1];
    let mut threads = 8usize;
    let mut timeout_ms = 60_000u64;
    let mut stack_mb = 1024usize;
    let mut i = 2;
    while i < args.len() {
        match args[i].as_str() {
            "--threads" => {
                threads = args[i + 1].parse().unwrap();
                i += 2
            }
            "--timeout-ms" => {
                timeout_ms = args[i + 1].parse().unwrap();
                i += 2
            }
            "--stack-mb" => {
                stack_mb = args[i + 1].parse().unwrap();
                i += 2
            }
            _ => i += 1,
        }
    }
    let f = std::fs::File::open(jobs_path).expect("jobs file");
    let jobs: Vec<Value> = BufReader::new(f)
        .lines()
        .filter_map(|l| l.ok())
        .filter(|l| !l.trim().is_empty())
        .map(|l| serde_json::from_str(&l).expect("job json"))
        .collect();
    let jobs = Arc::new(jobs);
    let next = Arc::new(AtomicUsize::new(0));
    // per worker: (job index, start) of the job in flight
    let inflight: Arc<Mutex<Vec<Option<(usize, Instant)>>>> = Arc::new(Mutex::new(Vec::new()));
    let (tx, rx) = mpsc::channel::<(usize, usize, Value)>();

    std::panic::set_hook(Box::new(|info| {
        let msg = if let Some(s) = info.payload().downcast_ref::<&str>() {
            s.to_string()
        } else if let Some(s) = info.payload().downcast_ref::<String>() {
            s.clone()
        } else {
            "<non-string panic>".to_string()
        };
        let loc = info
            .location()
            .map(|l| format!("{}:{}", l.file(), l.line()))
            .unwrap_or_default();
        PANIC_MSG.with(|p| *p.borrow_mut() = Some(format!("{msg} @ {loc}")));
    }));

    let spawn_worker = |wid: usize| {
        let jobs = jobs.clone();
        let next = next.clone();
        let inflight = inflight.clone();
        let tx = tx.clone();
        std::thread::Builder::new()
            .stack_size(stack_mb << 20)
            .spawn(move || loop {
                let idx = next.fetch_add(1, Ordering::SeqCst);
                if idx >= jobs.len() {
                    inflight.lock().unwrap()[wid] = None;
                    break;
                }
                inflight.lock().unwrap()[wid] = Some((idx, Instant::now()));
                let t0 = Instant::now();
                let mut res = run_job(&jobs[idx]);
                if let Value::Object(m) = &mut res {
                    m.insert("wall_ms".into(), json!(t0.elapsed().as_millis() as u64));
                }
                // if the watchdog already gave up on this job, the worker retires silently
                let still_mine = {
                    let g = inflight.lock().unwrap();
                    matches!(g[wid], Some((i, _)) if i == idx)
                };
                if !still_mine {
                    break;
                }
                if tx.send((wid, idx, res)).is_err() {
                    break;
                }
            })
            .expect("spawn");
    };
    {
        let mut g = inflight.lock().unwrap();
        for _ in 0..threads {
            g.push(None);
        }
    }
    for w in 0..threads {
        spawn_worker(w);
    }
    let mut out = BufWriter::new(std::fs::File::create(out_path).expect("out file"));
    let mut done = 0usize;
    let total = jobs.len();
    while done < total {
        match rx.recv_timeout(Duration::from_millis(200)) {
            Ok((_wid, _idx, res)) => {
                writeln!(out, "{}", res).unwrap();
                out.flush().unwrap();
                done += 1;
            }
            Err(mpsc::RecvTimeoutError::Timeout) => {
                // watchdog
                let mut overdue = Vec::new();
                {
                    let mut g = inflight.lock().unwrap();
                    for (wid, slot) in g.iter_mut().enumerate() {
                        if let Some((idx, t0)) = slot {
                            let limit = jobs[*idx]
                                .get("timeout_ms")
                                .and_then(|v| v.as_u64())
                                .unwrap_or(timeout_ms);
                            if t0.elapsed() > Duration::from_millis(limit) {
                                overdue.push((wid, *idx));
                                *slot = None;
                            }
                        }
                    }
                }
                for (_wid, idx) in overdue {
                    let id = jobs[idx].get("id").cloned().unwrap_or(Value::Null);
                    writeln!(out, "{}", json!({"id": id, "timeout": true})).unwrap();
                    out.flush().unwrap();
                    done += 1;
                    // abandoned thread keeps its slot; add a fresh worker in a new slot
                    let wid = {
                        let mut g = inflight.lock().unwrap();
                        g.push(None);
                        g.len() - 1
                    };
                    spawn_worker(wid);
                }
            }
            Err(mpsc::RecvTimeoutError::Disconnected) => break,
        }
    }
    out.flush().unwrap();
    0
}

fn cmd_signatures(args: &[String]) -> i32 {
    let comp: RootCompilationScope<W, R, T> = std_compilation_scope();
    let sigs = comp.verif_signatures();
    std::fs::write(&args[0], serde_json::to_string(&sigs).unwrap()).unwrap();
    0
}

fn main() {
    let args: Vec<String> = std::env::args().collect();
    let code = match args.get(1).map(|s| s.as_str()) {
        Some("run") => cmd_run(&args[2..]),
        Some("signatures") => cmd_signatures(&args[2..]),
        _ => {
            eprintln!("usage: xv run <jobs> <out> [--threads N] [--timeout-ms T] | xv signatures <out>");
            2
        }
    };
    // abandoned (timed-out) workers are killed here
    std::process::exit(code);
}
