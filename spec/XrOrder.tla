------------------------------- MODULE XrOrder -------------------------------
(***************************************************************************)
(* Derived equality, order and text (std/tuple.md, sequence.md,            *)
(* optional.md, std_conventions.md): eq is structural, cmp is              *)
(* lexicographic over tuple and Sequence components (a proper prefix is    *)
(* smaller), ne/lt/le/gt/ge follow from them, to_str of int/bool/str is    *)
(* exact and format(x, "") = to_str(x); integer format specifiers          *)
(* [[fill]align][sign][#][0][width][grouping][mode] pad, align, sign and   *)
(* group as documented; sort returns the stable ordered permutation.       *)
(* TLC enumerates typed value pairs / specifier x value pairs / inputs and *)
(* checks the order laws on the model before emitting expectations.        *)
(***************************************************************************)
EXTENDS XrEval, Json, SequencesExt

\* ---- structural order on values (same static type) --------------------------------------
RECURSIVE VCmp(_, _), VCmpSeq(_, _, _)
VCmpSeq(xs, ys, i) ==
    IF i > Len(xs) /\ i > Len(ys) THEN 0
    ELSE IF i > Len(xs) THEN -1 ELSE IF i > Len(ys) THEN 1
    ELSE LET c == VCmp(xs[i], ys[i]) IN IF c # 0 THEN c ELSE VCmpSeq(xs, ys, i + 1)
StrLess(a, b) == \* the strings of the universe, ordered by code point
    LET ord == <<"", "a", "ab", "b">> pos(s) == CHOOSE i \in 1..4 : ord[i] = s IN pos(a) < pos(b)
VCmp(a, b) ==
    CASE a.t = "int" -> Cmp3(a.v, b.v)
      [] a.t = "bool" -> IF a.v = b.v THEN 0 ELSE IF b.v THEN -1 ELSE 1
      [] a.t = "str" -> IF a.v = b.v THEN 0 ELSE IF StrLess(a.v, b.v) THEN -1 ELSE 1
      [] a.t \in {"seq", "struct"} -> VCmpSeq(a.v, b.v, 1)
      [] OTHER -> 0

Ints == {IntV(-1), IntV(0), IntV(2)}
Strs == {StrV(""), StrV("a"), StrV("ab"), StrV("b")}
Bools == {BoolV(TRUE), BoolV(FALSE)}
SeqsOf(S) == {SeqV(<<>>)} \cup {SeqV(<<x>>) : x \in S} \cup {SeqV(<<x, y>>) : x \in S, y \in S}
TypeVals ==
    [ int |-> Ints, str |-> Strs, bool |-> Bools,
      tup_int_str |-> {StructV(<<x, y>>) : x \in Ints, y \in {StrV("a"), StrV("b")}},
      seq_int |-> SeqsOf(Ints) \cup {SeqV(<<IntV(0), IntV(0), IntV(2)>>)},
      seq_str |-> SeqsOf({StrV("a"), StrV("b")}),
      opt_int |-> {NoneV} \cup {SomeV(x) : x \in Ints},
      seq_seq_int |-> SeqsOf({SeqV(<<>>), SeqV(<<IntV(0)>>), SeqV(<<IntV(0), IntV(2)>>)}),
      seq_tup |-> SeqsOf({StructV(<<IntV(0), StrV("a")>>), StructV(<<IntV(0), StrV("b")>>), StructV(<<IntV(2), StrV("a")>>)}),
      tup_seq_int |-> {StructV(<<s, x>>) : s \in {SeqV(<<>>), SeqV(<<IntV(0)>>), SeqV(<<IntV(2), IntV(0)>>)}, x \in {IntV(0), IntV(2)}} ]
Ordered == {"int", "str", "bool", "tup_int_str", "seq_int", "seq_str", "seq_seq_int", "seq_tup", "tup_seq_int"}
ExactText == {"int", "str", "bool"}

VARIABLES mode, ty, a, b, fspec, fx, sortin
ovars == <<mode, ty, a, b, fspec, fx, sortin>>

\* ---- integer format specifiers -----------------------------------------------------------
RECURSIVE BaseStr(_, _), Group3(_, _)
HexDigit(d) == IF d < 10 THEN Digit(d) ELSE CASE d = 10 -> "a" [] d = 11 -> "b" [] d = 12 -> "c" [] d = 13 -> "d" [] d = 14 -> "e" [] d = 15 -> "f"
BaseStr(n, base) == IF n < base THEN HexDigit(n) ELSE BaseStr(n \div base, base) \o HexDigit(n % base)
\* decimal digits grouped in threes from the right
Group3(n, sep) == IF n < 1000 THEN NatStr(n)
                  ELSE Group3(n \div 1000, sep) \o sep \o (LET r == n % 1000 IN (IF r < 10 THEN "00" ELSE IF r < 100 THEN "0" ELSE "") \o NatStr(r))
Specs ==
    [fill : {"", "*"}, align : {"", "<", ">", "^", "="}, sign : {"", "+", "-", " "}, alt : BOOLEAN, zero : BOOLEAN,
     width : {0, 4, 7, 10}, group : {"", "_", ","}, fmode : {"", "b", "o", "x"}]
WellFormed(s) ==
    /\ (s.fill # "" => s.align # "")                \* a fill character needs an alignment
    /\ (s.zero => s.fill = "" /\ s.align = "")       \* zero padding instead of fill/align
    /\ (s.group # "" => s.fmode = "")                \* grouping is documented for decimal digits
    /\ (s.alt => s.fmode # "")                       \* alternate form exists for b / o / x
    /\ (s.alt => s.align # "=" /\ ~s.zero)           \* position of the prefix relative to '=' padding is not documented
FormatInt(x, s) ==
    LET mag == Abs(x)
        digits == IF s.fmode = "b" THEN BaseStr(mag, 2) ELSE IF s.fmode = "o" THEN BaseStr(mag, 8)
                  ELSE IF s.fmode = "x" THEN BaseStr(mag, 16)
                  ELSE IF s.group # "" THEN Group3(mag, s.group) ELSE NatStr(mag)
        prefix == IF s.alt THEN "0" \o s.fmode ELSE ""
        sgn == IF x < 0 THEN "-" ELSE IF s.sign = "+" THEN "+" ELSE IF s.sign = " " THEN " " ELSE ""
        body == prefix \o digits
        fillc == IF s.zero THEN "0" ELSE IF s.fill = "" THEN " " ELSE s.fill
        al == IF s.zero THEN "=" ELSE IF s.align = "" THEN ">" ELSE s.align
        pad == IF s.width > Len(sgn) + Len(body) THEN s.width - Len(sgn) - Len(body) ELSE 0
    IN CASE al = "<" -> [ok |-> TRUE, v |-> sgn \o body \o RepStr(fillc, pad)]
         [] al = ">" -> [ok |-> TRUE, v |-> RepStr(fillc, pad) \o sgn \o body]
         [] al = "=" -> [ok |-> TRUE, v |-> sgn \o RepStr(fillc, pad) \o body]
         [] OTHER -> \* centered: which side gets the odd character is not documented
                     [ok |-> pad % 2 = 0, v |-> RepStr(fillc, pad \div 2) \o sgn \o body \o RepStr(fillc, pad \div 2)]
SpecText(s) == s.fill \o s.align \o s.sign \o (IF s.alt THEN "#" ELSE "") \o (IF s.zero THEN "0" ELSE "")
               \o (IF s.width = 0 THEN "" ELSE NatStr(s.width)) \o s.group \o s.fmode
FormatValues == {0, 5, -5, 255, -255, 1234567, -1234567, 1000, 999}

\* ---- string format specifiers ---------------------------------------------------------------
\* format(x: str, f): only fill, alignment and width apply (std/str.md: "No modes are accepted"); the
\* width counts characters (code points), whatever their UTF-8 width.  Strings are sequences of the
\* abstract symbols of XrStr, rendered by the harness.
StrSpecs == [fill : {"", "*"}, align : {"", "<", ">", "^"}, width : {0, 2, 3, 4, 7, 10}]
StrWellFormed(s) == s.fill # "" => s.align # ""
StrFormatValues == {<<>>, <<"a">>, <<"a", "s">>, <<"e1", "a">>, <<"zh", "zh">>, <<"em">>, <<"a", "cd">>,
                    <<"ss", "a", "s">>, <<"a", "em", "zh", "e1">>}
FormatStr(xs, s) ==
    LET pad == IF s.width > Len(xs) THEN s.width - Len(xs) ELSE 0
        al == IF s.align = "" THEN ">" ELSE s.align
    IN CASE al = "<" -> [ok |-> TRUE, pre |-> 0, post |-> pad]
         [] al = ">" -> [ok |-> TRUE, pre |-> pad, post |-> 0]
         [] OTHER -> [ok |-> pad % 2 = 0, pre |-> pad \div 2, post |-> pad \div 2]
StrSpecText(s) == s.fill \o s.align \o (IF s.width = 0 THEN "" ELSE NatStr(s.width))

\* ---- float format specifiers ------------------------------------------------------------------
\* format(x: float, f) in the fixed-point modes ("" = "f", and "%" = 100 * x in "f" followed by "%"):
\* the magnitude is rounded to `precision` decimals (6 when absent), the integer digits OF THE ROUNDED
\* number are grouped, then sign and padding apply as for integers.  Floats are dyadic rationals
\* num / den (den a power of two), so that the decimal expansion is exact; a rounding tie (which way
\* it goes is not documented) and a negative number that rounds to zero are left open.
FSpecs ==
    [fill : {"", "*"}, align : {"", "<", "=", "^"}, sign : {"", "+"}, zero : BOOLEAN,
     width : {0, 12}, group : {"", "_", ","}, prec : {-1, 0, 1, 3}, fmode : {"", "f", "%"}]
FWellFormed(s) == (s.fill # "" => s.align # "") /\ (s.zero => s.fill = "" /\ s.align = "")
FloatValues == {<<FALSE, 0, 1>>, <<FALSE, 1, 8>>, <<TRUE, 5, 4>>, <<FALSE, 7999, 8>>, <<FALSE, 31999, 32>>, <<TRUE, 31999, 32>>,
                <<FALSE, 3999, 4>>, <<FALSE, 1000, 1>>, <<FALSE, 2469135, 2>>, <<TRUE, 2469135, 2>>, <<FALSE, 319999, 32>>,
                <<FALSE, 2559, 256>>, <<TRUE, 2559, 256>>, <<FALSE, 1279, 128>>}
Pow10(p) == CASE p = 0 -> 1 [] p = 1 -> 10 [] p = 3 -> 1000 [] p = 6 -> 1000000
RECURSIVE ZeroPadNat(_, _)
ZeroPadNat(n, w) == IF w = 0 THEN "" ELSE ZeroPadNat(n \div 10, w - 1) \o Digit(n % 10)
FormatFloat(x, s) ==
    LET neg == x[1]
        num == IF s.fmode = "%" THEN x[2] * 100 ELSE x[2]
        den == x[3]
        p == IF s.prec = -1 THEN 6 ELSE s.prec
        whole0 == num \div den
        scaled == (num % den) * Pow10(p)
        q0 == scaled \div den
        r2 == scaled % den
        tie == 2 * r2 = den
        q1 == IF 2 * r2 > den THEN q0 + 1 ELSE q0
        whole == IF q1 = Pow10(p) THEN whole0 + 1 ELSE whole0
        frac == IF q1 = Pow10(p) THEN 0 ELSE q1
        digits == (IF s.group # "" THEN Group3(whole, s.group) ELSE NatStr(whole))
                  \o (IF p = 0 THEN "" ELSE "." \o ZeroPadNat(frac, p)) \o (IF s.fmode = "%" THEN "%" ELSE "")
        sgn == IF neg THEN "-" ELSE IF s.sign = "+" THEN "+" ELSE ""
        fillc == IF s.zero THEN "0" ELSE IF s.fill = "" THEN " " ELSE s.fill
        al == IF s.zero THEN "=" ELSE IF s.align = "" THEN ">" ELSE s.align
        pad == IF s.width > Len(sgn) + Len(digits) THEN s.width - Len(sgn) - Len(digits) ELSE 0
        open == tie \/ (neg /\ whole = 0 /\ frac = 0)
    IN CASE al = "<" -> [ok |-> ~open, v |-> sgn \o digits \o RepStr(fillc, pad)]
         [] al = ">" -> [ok |-> ~open, v |-> RepStr(fillc, pad) \o sgn \o digits]
         [] al = "=" -> [ok |-> ~open, v |-> sgn \o RepStr(fillc, pad) \o digits]
         [] OTHER -> [ok |-> ~open /\ pad % 2 = 0, v |-> RepStr(fillc, pad \div 2) \o sgn \o digits \o RepStr(fillc, pad \div 2)]
FSpecText(s) == s.fill \o s.align \o s.sign \o (IF s.zero THEN "0" ELSE "") \o (IF s.width = 0 THEN "" ELSE NatStr(s.width))
                \o s.group \o (IF s.prec = -1 THEN "" ELSE "." \o NatStr(s.prec)) \o s.fmode

\* ---- sorting ------------------------------------------------------------------------------
\* elements are (key, payload); the comparator looks at the key only: ties keep their order
RECURSIVE InsertStable(_, _), StableSort(_)
InsertStable(x, ys) == IF ys = <<>> THEN <<x>>
                       ELSE IF x[1] < ys[1][1] THEN <<x>> \o ys ELSE <<ys[1]>> \o InsertStable(x, Tail(ys))
StableSort(xs) == IF xs = <<>> THEN <<>> ELSE InsertStable(xs[Len(xs)], StableSort(SubSeq(xs, 1, Len(xs) - 1)))
\* (inserting from the back and stopping *before* equal keys keeps equal keys in input order)
IsSortedStable(ys) == \A i \in 1..(Len(ys) - 1) : ys[i][1] < ys[i + 1][1] \/ (ys[i][1] = ys[i + 1][1] /\ ys[i][2] < ys[i + 1][2])

Init ==
    \/ /\ mode = "pair" /\ ty \in DOMAIN TypeVals /\ a \in TypeVals[ty] /\ b \in TypeVals[ty]
       /\ fspec = 0 /\ fx = 0 /\ sortin = <<>>
    \/ /\ mode = "format" /\ fspec \in {s \in Specs : WellFormed(s)} /\ fx \in FormatValues
       /\ ty = "" /\ a = 0 /\ b = 0 /\ sortin = <<>>
    \/ /\ mode = "sformat" /\ fspec \in {s \in StrSpecs : StrWellFormed(s)} /\ fx \in StrFormatValues
       /\ ty = "" /\ a = 0 /\ b = 0 /\ sortin = <<>>
    \/ /\ mode = "fformat" /\ fspec \in {s \in FSpecs : FWellFormed(s)} /\ fx \in FloatValues
       /\ ty = "" /\ a = 0 /\ b = 0 /\ sortin = <<>>
Next == UNCHANGED ovars

Emit ==
    IF mode = "pair"
      THEN PrintT(<<"CASE", ToJson([mode |-> "pair", ty |-> ty, a |-> Proj(a), b |-> Proj(b), eq |-> VEq(a, b),
                                    cmp |-> IF ty \in Ordered THEN VCmp(a, b) ELSE 99,
                                    text |-> IF ty \in ExactText THEN VStr(a) ELSE "?"])>>)
    ELSE IF mode = "fformat"
      THEN LET f == FormatFloat(fx, fspec)
           IN f.ok => PrintT(<<"CASE", ToJson([mode |-> "fformat", neg |-> fx[1], num |-> fx[2], den |-> fx[3], spec |-> FSpecText(fspec), v |-> f.v])>>)
    ELSE IF mode = "sformat"
      THEN LET f == FormatStr(fx, fspec)
           IN f.ok => PrintT(<<"CASE", ToJson([mode |-> "sformat", x |-> fx, spec |-> StrSpecText(fspec), pre |-> f.pre, post |-> f.post,
                                               fill |-> IF fspec.fill = "" THEN " " ELSE fspec.fill])>>)
      ELSE LET f == FormatInt(fx, fspec)
           IN f.ok => PrintT(<<"CASE", ToJson([mode |-> "format", x |-> fx, spec |-> SpecText(fspec), v |-> f.v])>>)

\* order laws on the model
EqIsEquivalence == mode = "pair" => (VEq(a, a) /\ (VEq(a, b) = VEq(b, a)))
CmpConsistentWithEq == (mode = "pair" /\ ty \in Ordered) => ((VCmp(a, b) = 0) = VEq(a, b))
CmpAntisymmetric == (mode = "pair" /\ ty \in Ordered) => VCmp(a, b) = -VCmp(b, a)
CmpTransitive ==
    (mode = "pair" /\ ty \in Ordered) =>
        \A c \in TypeVals[ty] : (VCmp(a, b) <= 0 /\ VCmp(b, c) <= 0) => VCmp(a, c) <= 0
PrefixIsSmaller ==
    (mode = "pair" /\ ty \in {"seq_int", "seq_str"} /\ Len(a.v) < Len(b.v) /\ SubSeq(b.v, 1, Len(a.v)) = a.v) => VCmp(a, b) = -1
StrWidthReached == (mode = "sformat" /\ FormatStr(fx, fspec).ok) =>
    LET f == FormatStr(fx, fspec) IN f.pre + Len(fx) + f.post >= fspec.width /\ (fspec.width <= Len(fx) => f.pre + f.post = 0)
FloatWidthReached == (mode = "fformat" /\ FormatFloat(fx, fspec).ok) => Len(FormatFloat(fx, fspec).v) >= fspec.width
EmptySpecIsToStr == (mode = "format" /\ SpecText(fspec) = "") => FormatInt(fx, fspec).v = IntStr(fx)
=============================================================================
