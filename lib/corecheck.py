"""Glue for the core-language checks: programs -> TLC (XrCore/XrEval) -> expected behaviours
-> replay through xv -> comparison of projected state."""
import json
import os

import coregen
import vf


def _tlc_chunk(args):
    progs, name, timeout = args
    d = vf.workdir("core-" + name)
    path = os.path.join(d, "progs.ndjson")
    with open(path, "w") as f:
        for p in progs:
            p.setdefault("hasfwd", False)
            f.write(json.dumps(p) + "\n")
    r = vf.tlc("XrCore", "XrCore.cfg", "core-" + name, workers=1, env={"PROGS": path},
               timeout=timeout, xmx="4g")
    cases = {c["id"]: c for c in r.cases()}
    if not r.ok or len(cases) != len(progs):
        raise vf.ToolError("XrCore evaluation failed (%d/%d cases):\n%s" %
                           (len(cases), len(progs), r.out[-2500:]))
    return cases, r


def tlc_expect(progs, name, timeout=2400, chunk=250):
    """Evaluate programs with the reference semantics (several TLC processes over chunks).
    Returns ({id: case}, TlcResult-like with summed state counts)."""
    from concurrent.futures import ThreadPoolExecutor
    chunks = [(progs[i:i + chunk], "%s-%d" % (name, i), timeout) for i in range(0, len(progs), chunk)]
    if not chunks:
        chunks = [([], name, timeout)]
    with ThreadPoolExecutor(max_workers=6) as ex:
        outs = list(ex.map(_tlc_chunk, chunks))
    cases = {}
    for c, _ in outs:
        cases.update(c)
    r = outs[0][1]
    r.generated = sum(o[1].generated for o in outs)
    r.distinct = sum(o[1].distinct for o in outs)
    return cases, r


def norm_dump(d):
    """implementation dump -> the projection shape of XrEval.Proj"""
    if d is None:
        return {"t": "missing"}
    t = d.get("t")
    if t == "int":
        return {"t": "int", "v": int(d["v"])}
    if t == "bool":
        return {"t": "bool", "v": d["v"]}
    if t == "str":
        return {"t": "str", "v": d["v"]}
    if t == "seq":
        return {"t": "seq", "v": [norm_dump(x) for x in d["v"]]}
    if t == "struct":
        return {"t": "struct", "v": [norm_dump(x) for x in d["v"]]}
    if t == "opt":
        if d["v"] is None:
            return {"t": "opt", "has": False}
        return {"t": "opt", "has": True, "v": norm_dump(d["v"])}
    if t == "union":
        return {"t": "union", "i": d["variant"], "v": norm_dump(d["v"])}
    if t == "err":
        return {"t": "err", "m": d["m"]}
    if t == "fn":
        return {"t": "fn"}
    return {"t": t or "?", "raw": d}


def same(exp, got):
    """expected projection (from TLC) vs normalised implementation dump"""
    if exp.get("t") != got.get("t"):
        return False
    t = exp["t"]
    if t in ("int", "bool", "str"):
        return exp["v"] == got["v"]
    if t in ("seq", "struct"):
        return len(exp["v"]) == len(got["v"]) and all(same(a, b) for a, b in zip(exp["v"], got["v"]))
    if t == "opt":
        if exp["has"] != got["has"]:
            return False
        return (not exp["has"]) or same(exp["v"], got["v"])
    if t == "union":
        return exp["i"] == got["i"] and same(exp["v"], got["v"])
    if t == "err":
        return exp["m"] == "?" or exp["m"] == got["m"]     # builtin error texts are unspecified
    if t in ("fn", "gen"):
        return True
    return False


def mkjob(p, case, trace=False, limits=None):
    lim = limits if limits is not None else {}
    return {"id": p["id"], "src": coregen.render(p), "observe": [b["n"] for b in case["binds"]],
            "calls": p.get("calls", []), "trace": trace, "limits": lim}


def compare(p, case, obs):
    """-> list of (what, expected, observed) differences; [] if the run conforms"""
    diffs = []
    oc = vf.job_outcome(obs)
    if oc in ("crash", "timeout", "missing") or oc.endswith("panic"):
        return [("outcome", "a value, an error value or a violation", oc + ": " + json.dumps(
            {k: v for k, v in (obs or {}).items() if k in ("compile", "inst", "calls", "crash")})[:400])]
    if case.get("static", "ok") != "ok":
        if oc != "compile_err" or obs["compile"].get("class") != case["static"]:
            return [("compile", "rejected with " + case["static"],
                     oc + " " + str(obs.get("compile", {}).get("class")) + " " + obs.get("compile", {}).get("msg", "")[:200])]
        return []
    if oc == "compile_err":
        return [("compile", "accepted (the program is well-typed by construction)",
                 obs["compile"].get("msg", "")[:300])]
    if case["viol"] != "none":
        if oc != "inst_" + case["viol"]:
            diffs.append(("instantiate outcome", case["viol"], oc))
        return diffs
    if oc.startswith("inst_"):
        return [("instantiate outcome", "ok", oc)]
    vals = obs.get("values", {})
    last = {}
    for b in case["binds"]:
        last[b["n"]] = b          # a shadowed top-level binding is no longer visible to the host
    for b in last.values():
        got = norm_dump(vals.get(b["n"]))
        if not same(b["v"], got):
            diffs.append(("binding " + b["n"], b["v"], got))
    # host calls
    runs = [r for r in case["runs"]]
    got_calls = obs.get("calls", [])
    for i, r in enumerate(runs):
        if r["op"] != "run" or i >= len(got_calls):
            continue
        g = got_calls[i]
        if r.get("taint"):
            break
        if r["viol"] != "none":
            if vf.norm_outcome(g.get("violation", "")) != r["viol"]:
                diffs.append(("run %s outcome" % r["fn"], r["viol"], g))
            break
        if "ok" not in g:
            diffs.append(("run %s outcome" % r["fn"], "value", g))
            break
        if not same(r["v"], norm_dump(g["ok"])):
            diffs.append(("run %s result" % r["fn"], r["v"], norm_dump(g["ok"])))
    tainted_run = any(r.get("taint") for r in runs)
    if not tainted_run:
        exp_out = "".join(l + "\n" for l in case["out"])
        if exp_out != obs.get("stdout", ""):
            diffs.append(("output", exp_out, obs.get("stdout", "")))
    return diffs


# --------------------------------------------------------------------------------------------
# one call does it all: expectation by TLC, replay through xv, comparison, violations

def run_core(chk, progs, name, trace=False, limits_of=None, classify=None, nontrivial=None,
             sample_every=0, validate=False):
    """progs: ASTs (coregen format). limits_of(p) -> xv limits dict (must agree with p['lim']).
    classify(p, diffs) -> finding key or None.  Returns (cases, observations)."""
    cases, r = tlc_expect(progs, name)
    chk.add_tlc(r)
    jobs = []
    for p in progs:
        j = mkjob(p, cases[p["id"]], trace=trace, limits=limits_of(p) if limits_of else None)
        jobs.append(j)
    res = vf.run_jobs(jobs, name)
    chk.count(len(progs))
    n_taint = 0
    for p, j in zip(progs, jobs):
        c = cases[p["id"]]
        if c["taint"] and c.get("static", "ok") == "ok":
            n_taint += 1
            continue
        obs = res.get(p["id"])
        diffs = compare(p, c, obs)
        if nontrivial is None or nontrivial(p, c):
            chk.nontrivial(j["src"] + json.dumps(j["limits"], sort_keys=True))
        if diffs:
            key = classify(p, diffs) if classify else None
            chk.violation(
                "%s: %s expected %s, observed %s" % (p["id"], diffs[0][0], json.dumps(diffs[0][1])[:200],
                                                  json.dumps(diffs[0][2])[:200]),
                {"kind": "core", "spec": "XrCore/XrEval", "program": p, "source": j["src"],
                 "limits": j["limits"],
                 "diffs": [{"what": d[0], "expected": d[1], "observed": d[2]} for d in diffs[:6]]},
                finding_key=key)
    chk.part(name, programs=len(progs), tainted=n_taint)
    if progs:
        p = progs[len(progs) // 2]
        c = cases[p["id"]]
        chk.sample({"source": coregen.render(p)[:700], "expected": {"binds": c["binds"][:4], "out": c["out"][:6],
                                                                   "viol": c["viol"], "runs": c["runs"][:2]}})
    if validate and trace:
        vf.validate_job_traces(chk, jobs, res, name + "-tr", "core program trace")
    return cases, res


def replay_core(chk, path):
    rp = json.load(open(path))
    p = rp["program"]
    lim = rp.get("limits") or None
    run_core(chk, [p], "replay", limits_of=(lambda _p: lim) if lim else None)
    chk.nontrivial("replay")
    return chk.finish()


# --------------------------------------------------------------------------------------------
# limit grids

KINDS = (("calls", "calls", "calls", 1), ("depth", "depth", "maxdepth", 1),
         ("rec", "recursion", "maxrec", 0), ("search", "search", "maxsearch", 0))


def limit_variants(p, case, cap=12, rnd=None, combined=1):
    """copies of program p under every single limit value from the minimum to need+1 (sub-sampled to
    `cap` values per kind, always keeping need-1, need, need+1) plus a few combined configurations.
    `need` comes from the unlimited evaluation `case` (by the reference semantics)."""
    out = []
    needs = {}
    for mk, xk, ck, lo in KINDS:
        need = case.get(ck, 0)
        for r in case.get("runs", []):
            if mk == "calls" and r.get("op") == "run":
                need = max(need, r.get("calls", 0))
        needs[mk] = need
        if need == 0 and mk != "calls":
            continue
        vals = list(range(lo, need + 2))
        if len(vals) > cap:
            keep = {lo, need - 1, need, need + 1}
            rest = [v for v in vals if v not in keep]
            if rnd:
                rnd.shuffle(rest)
            vals = sorted(keep | set(rest[:cap - len(keep)]))
        for L in vals:
            if L < lo:
                continue
            q = dict(p)
            q["id"] = "%s~%s%d" % (p["id"], mk, L)
            q["lim"] = dict(p["lim"], **{mk: L})
            out.append(q)
    if rnd and combined:
        for c in range(combined):
            q = dict(p)
            lim = dict(p["lim"])
            for mk, xk, ck, lo in KINDS:
                if rnd.random() < 0.6 and (needs[mk] > 0 or mk == "calls"):
                    lim[mk] = max(lo, needs[mk] + rnd.choice([-1, 0, 1, 1]))
            q["id"] = "%s~mix%d" % (p["id"], c)
            q["lim"] = lim
            out.append(q)
    return out


def xv_limits(p):
    m = {"calls": "calls", "depth": "depth", "rec": "recursion", "search": "search"}
    return {m[k]: (None if v == -1 else v) for k, v in p["lim"].items()}
