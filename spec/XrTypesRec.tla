------------------------------ MODULE XrTypesRec ------------------------------
(***************************************************************************)
(* Generic compounds whose fields mention the compound itself with OTHER   *)
(* type arguments (lang/structs.md, lang/unions.md, lang/types.md):        *)
(*     struct Lst<T>(h: T, t: Optional<Lst<T>>)             regular        *)
(*     struct Nest<T>(v: T, deeper: Optional<Nest<Sequence<T>>>)  nested   *)
(*     struct Alt<T, U>(v: T, flip: Optional<Alt<U, T>>)     permuted      *)
(*     union  Res<T, E>(ok: T, err: E)                        two parameters*)
(* The type of a constructor application is inferred by matching the field *)
(* types against the argument types (Match), a type parameter that nothing *)
(* determines is the bottom type, and the application is well typed iff    *)
(* every argument is assignable to its field type under that binding.      *)
(* TLC enumerates constructor terms to depth 3 with typed holes and emits  *)
(* the verdict and the inferred type; the compiler must agree on both.     *)
(***************************************************************************)
EXTENDS XrTypeAlg

T == VarT("T")
U == VarT("U")
Decl ==
    [Lst  |-> [gens |-> <<"T">>, fields |-> <<T, OptT(CompT("Lst", <<T>>))>>],
     Nest |-> [gens |-> <<"T">>, fields |-> <<T, OptT(CompT("Nest", <<SeqT(T)>>))>>],
     Alt  |-> [gens |-> <<"T", "U">>, fields |-> <<T, OptT(CompT("Alt", <<U, T>>))>>],
     Res  |-> [gens |-> <<"T", "U">>, fields |-> <<T, U>>]]      \* union: one field per application

Fail == [x \in {"#fail"} |-> Unknown]
IsFail(b) == "#fail" \in DOMAIN b
NoBind == [x \in {} |-> Unknown]

RECURSIVE Match(_, _, _), MatchAll(_, _, _, _), Subst(_, _), SubstAll(_, _, _)
\* one-way matching of a field type (with type parameters) against an argument type
Match(p, t, b) ==
    IF IsFail(b) THEN Fail
    ELSE IF t.k = "unknown" THEN b                         \* the bottom type determines nothing
    ELSE IF p.k = "var" THEN
        IF p.n \in DOMAIN b
          THEN LET c == CommonType(b[p.n], t) IN IF c.k = "none" THEN Fail ELSE [b EXCEPT ![p.n] = c]
          ELSE [x \in DOMAIN b \cup {p.n} |-> IF x = p.n THEN t ELSE b[x]]
    ELSE IF p.k # t.k THEN Fail
    ELSE CASE p.k \in {"int", "str", "bool"} -> b
           [] p.k \in {"seq", "opt"} -> Match(p.a, t.a, b)
           [] p.k = "comp" -> IF p.name # t.name THEN Fail ELSE MatchAll(p.args, t.args, 1, b)
           [] OTHER -> Fail
MatchAll(ps, ts, i, b) == IF i > Len(ps) THEN b ELSE MatchAll(ps, ts, i + 1, Match(ps[i], ts[i], b))

Subst(p, b) ==
    CASE p.k = "var" -> IF p.n \in DOMAIN b THEN b[p.n] ELSE Unknown
      [] p.k \in {"seq", "opt"} -> [k |-> p.k, a |-> Subst(p.a, b)]
      [] p.k = "comp" -> CompT(p.name, SubstAll(p.args, b, 1))
      [] OTHER -> p
SubstAll(ps, b, i) == IF i > Len(ps) THEN <<>> ELSE <<Subst(ps[i], b)>> \o SubstAll(ps, b, i + 1)

\* terms: [k |-> "hole", ty] | [k |-> "none"] | [k |-> "some", e] | [k |-> "cons", name, args] | [k |-> "variant", name, idx, e]
Bad == [k |-> "none"]        \* (reuses XrTypeAlg.None's shape: "ill typed")
RECURSIVE TypeOf(_)
TypeOf(e) ==
    CASE e.k = "hole" -> e.ty
      [] e.k = "nil" -> OptT(Unknown)
      [] e.k = "some" -> LET t == TypeOf(e.e) IN IF t.k = "none" THEN Bad ELSE OptT(t)
      [] e.k = "cons" ->
            LET d == Decl[e.name]
                ts == [i \in 1..Len(e.args) |-> TypeOf(e.args[i])]
            IN IF \E i \in 1..Len(ts) : ts[i].k = "none" THEN Bad
               ELSE LET b == MatchAll(d.fields, ts, 1, NoBind)
                    IN IF IsFail(b) THEN Bad
                       ELSE IF \A i \in 1..Len(ts) : Assignable(Subst(d.fields[i], b), ts[i])
                              THEN CompT(e.name, [i \in 1..Len(d.gens) |-> IF d.gens[i] \in DOMAIN b THEN b[d.gens[i]] ELSE Unknown])
                              ELSE Bad
      [] e.k = "variant" ->
            LET d == Decl[e.name]  t == TypeOf(e.e)
            IN IF t.k = "none" THEN Bad
               ELSE LET b == Match(d.fields[e.idx], t, NoBind)
                    IN IF IsFail(b) THEN Bad
                       ELSE CompT(e.name, [i \in 1..Len(d.gens) |-> IF d.gens[i] \in DOMAIN b THEN b[d.gens[i]] ELSE Unknown])

Holes == {[k |-> "hole", ty |-> t] : t \in {Int, Str, SeqT(Int), SeqT(SeqT(Int))}}
Nil == [k |-> "nil"]
Cons(name, a, b) == [k |-> "cons", name |-> name, args |-> <<a, b>>]
Some(e) == [k |-> "some", e |-> e]
Names == {"Lst", "Nest", "Alt"}
D1 == {Cons(n, h, Nil) : n \in Names, h \in Holes}
D2 == {Cons(n, h, Some(Cons(n, g, Nil))) : n \in Names, h \in Holes, g \in Holes}
D3 == {Cons(n, h, Some(Cons(n, g, Some(Cons(n, f, Nil))))) : n \in Names, h \in Holes, g \in Holes, f \in {[k |-> "hole", ty |-> Int], [k |-> "hole", ty |-> Str], [k |-> "hole", ty |-> SeqT(Int)]}}
Variants == {[k |-> "variant", name |-> "Res", idx |-> i, e |-> h] : i \in 1..2, h \in Holes}
Terms == D1 \cup D2 \cup D3 \cup Variants

\* a declared type the value is then assigned to: the inferred type itself, and a neighbour
Targets(t) == {t} \cup {CompT("Res", <<Int, Str>>), CompT("Lst", <<Int>>), CompT("Nest", <<Int>>), CompT("Alt", <<Int, Str>>), CompT("Alt", <<Str, Int>>)}

RECURSIVE SetSeq(_)
SetSeq(S) == IF S = {} THEN <<>> ELSE LET x == CHOOSE y \in S : TRUE IN <<x>> \o SetSeq(S \ {x})

VARIABLES term
Init == term \in Terms
Next == UNCHANGED term

Emit == LET t == TypeOf(term)
        IN PrintT(<<"CASE", ToJson([term |-> term, ok |-> t.k # "none", ty |-> t,
                                    targets |-> IF t.k = "none" THEN <<>>
                                                ELSE LET sq == SetSeq({x \in Targets(t) : ~HasUnknown(x)})
                                                     IN [i \in 1..Len(sq) |-> [ty |-> sq[i], ok |-> Assignable(sq[i], t)]]])>>)

\* design: a well-typed application is assignable to its own inferred type, and nesting the regular list keeps the type
SelfAssignable == LET t == TypeOf(term) IN t.k # "none" => Assignable(t, t)
RegularKeepsType ==
    (term.k = "cons" /\ term.name = "Lst" /\ TypeOf(term).k # "none" /\ term.args[2].k = "some")
        => TypeOf(term) = TypeOf(term.args[2].e) \/ HasUnknown(TypeOf(term.args[2].e))
=============================================================================
