INIT Init
NEXT Next
CONSTANT Window = 3000100
INVARIANT ClosedFormsAgree
INVARIANT Predict
CHECK_DEADLOCK FALSE
