INIT OInit
NEXT ONext
CONSTANTS MaxCands = 3 Levels = TRUE
INVARIANT Emit
INVARIANT AlphaInvariant
INVARIANT NonMatchingIrrelevant
INVARIANT LevelIrrelevant
CHECK_DEADLOCK FALSE
