#!/usr/bin/env python3
"""copy a confirmed seed from /tmp/seed/<name> into seeded/<name> (meta.json gets the confirmation record)"""
import json, os, shutil, sys
ROOT = os.path.dirname(os.path.dirname(os.path.abspath(__file__)))
for name in sys.argv[1:]:
    src, dst = "/tmp/seed/" + name, os.path.join(ROOT, "seeded", name)
    v = json.load(open(src + "/verify.json"))
    if not v.get("confirmed"):
        print(name, "NOT confirmed - not stored")
        continue
    os.makedirs(dst, exist_ok=True)
    for f in os.listdir(src):
        shutil.copy(os.path.join(src, f), dst)
    m = json.load(open(dst + "/meta.json"))
    m["confirmed_by"] = {k: v[k] for k in ("suite_with_change", "demo_passes_with_change", "demo_passes_without_change", "commands")}
    json.dump(m, open(dst + "/meta.json", "w"), indent=1)
    print("stored", name)
