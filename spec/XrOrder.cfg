INIT Init
NEXT Next
INVARIANT Emit
INVARIANT EqIsEquivalence
INVARIANT CmpConsistentWithEq
INVARIANT CmpAntisymmetric
INVARIANT CmpTransitive
INVARIANT PrefixIsSmaller
INVARIANT EmptySpecIsToStr
CHECK_DEADLOCK FALSE
INVARIANT StrWidthReached
INVARIANT FloatWidthReached
