#!/usr/bin/env python3
"""tools/mkseedprompt.py <ID> <worktree> <A> <B>  -> /tmp/seed/<ID>.prompt
The prompt contains the property record and one-line descriptions of the changes already collected
for it (so that the sub-agent produces different ones) - nothing else from /verif."""
import glob
import json
import os
import sys
ROOT = os.path.dirname(os.path.dirname(os.path.abspath(__file__)))
pid, wt, a, b = sys.argv[1:5]
t = open(os.path.join(ROOT, "tools", "seed_prompt.tmpl")).read()
prop = [json.loads(l) for l in open(os.path.join(ROOT, "properties.jsonl")) if json.loads(l)["id"] == pid][0]
known = []
for d in sorted(glob.glob(os.path.join(ROOT, "seeded", pid + "-*"))):
    try:
        m = json.load(open(os.path.join(d, "meta.json")))
        known.append("  - (%s) %s" % (", ".join(m.get("files", [])), (m.get("summary") or "").replace("\n", " ")[:420]))
    except Exception:
        pass
ktxt = ""
if known:
    ktxt = ("Changes ALREADY collected for this property - do NOT repeat these or close variants of them; choose different "
            "mechanisms, different functions and, where possible, different files among the anchors:\n" + "\n".join(known) + "\n")
t = t.replace("@KNOWN@", ktxt).replace("@WT@", wt).replace("@A@", a).replace("@B@", b).replace("@ID@", pid).replace("@PROP@", json.dumps(prop, indent=1))
os.makedirs("/tmp/seed", exist_ok=True)
json.dump(prop, open("/tmp/seed/%s.property.json" % pid, "w"), indent=1)
open("/tmp/seed/%s.prompt" % pid, "w").write(t)
print("/tmp/seed/%s.prompt" % pid, len(t))
