#!/usr/bin/env python3
"""Binding self-test: the trace acceptors accept what the implementation records and reject the same
traces after one field is corrupted or one event is removed (so the specification really constrains the code).

  tools/selftest.py        exit 0 when every original is accepted and every corruption is rejected"""
import copy
import json
import os
import re
import sys

sys.path.insert(0, os.path.join(os.path.dirname(os.path.abspath(__file__)), "..", "lib"))
import vf  # noqa: E402


def main():
    vf.build()
    src = ("fn f(x: int)->int { x + 1 }\nfn t(n: int, acc: int)->int { if(n == 0, acc, t(n - 1, acc + n)) }\n"
           "let a = [1, 2, 3].map(f).to_array();\nlet b = t(5, 0);\nlet c = display(b);\nlet s = \"ab\" * 50;\n")
    job = {"id": "st", "src": src, "observe": [], "limits": {"size": 10 ** 7, "calls": 500, "depth": 50, "recursion": 100}, "trace": True}
    res = vf.run_jobs([job], "selftest")
    ev = vf.normalise_events(res["st"]["events"], {})
    print("recorded %d events, outcome %s" % (len(ev), vf.job_outcome(res["st"])))

    def first(kind, pred=lambda e: True, nth=0):
        idx = [i for i, e in enumerate(ev) if e["ev"] == kind and pred(e)]
        return idx[min(nth, len(idx) - 1)]
    variants = [("original", ev, True)]

    def mut(name, f):
        e2 = copy.deepcopy(ev)
        f(e2)
        variants.append((name, e2, False))
    mut("a Dealloc removed", lambda t: t.pop(first("Dealloc", nth=3)))
    mut("an Alloc total off by 8", lambda t: t[first("Alloc", nth=5)].__setitem__("total", t[first("Alloc", nth=5)]["total"] + 8))
    mut("an Inc (call counter) removed", lambda t: t.pop(first("Inc", nth=1)))
    mut("call counter jumps by 2", lambda t: t[first("Inc", nth=2)].__setitem__("calls", t[first("Inc", nth=2)]["calls"] + 1))
    mut("a Frame height off by 1", lambda t: t[first("Frame", nth=2)].__setitem__("h", t[first("Frame", nth=2)]["h"] + 1))
    mut("a Leave removed", lambda t: t.pop(first("Leave", nth=1)))
    mut("tail iteration counter skips", lambda t: t[first("Tail", nth=1)].__setitem__("rec", t[first("Tail", nth=1)]["rec"] + 1))
    mut("effect without its permission check", lambda t: t.pop(first("Perm")))
    mut("host outcome changed", lambda t: t[first("InstEnd")].__setitem__("outcome", "MaximumUDCall"))
    mut("final accounted total changed", lambda t: t[first("InstEnd")].__setitem__("total", t[first("InstEnd")]["total"] + 16))
    acc, rej, _ = vf.validate_traces([(n, t) for n, t, _ in variants], "selftest")
    rejected = {r[0] for r in rej}
    ok = True
    for n, _, want_accept in variants:
        got = n not in rejected
        flag = "ok " if got == want_accept else "BAD"
        ok &= got == want_accept
        print("  [%s] XrRuntime %-40s %s" % (flag, n, "accepted" if got else "rejected"))
    # value acceptors
    d = vf.workdir("selftest-big")

    def accept(module, cfg, events):
        p = d + "/%s.ndjson" % module
        with open(p, "w") as f:
            for e in events:
                f.write(json.dumps(e) + "\n")
        r = vf.tlc(module, cfg, "selftest-" + module, workers=1, env={"TRACE": p}, dfs=True)
        return '"TRACE_ACCEPTED"' in r.out
    L = lambda n: {"neg": n < 0, "mag": [int(str(abs(n))[max(0, len(str(abs(n))) - 4 * (i + 1)):len(str(abs(n))) - 4 * i]) for i in range((len(str(abs(n))) + 3) // 4)] if n else []}
    a, b = 2 ** 70 + 3, -(10 ** 9 + 7)
    good = [{"ev": "mul", "a": L(a), "b": L(b), "r": L(a * b)}, {"ev": "repr", "a": L(2 ** 63), "short": False}]
    bad1 = [{"ev": "mul", "a": L(a), "b": L(b), "r": L(a * b + 1)}]
    bad2 = [{"ev": "repr", "a": L(2 ** 63 - 1), "short": False}]
    for n, evs, want in (("exact product", good, True), ("product off by one", bad1, False), ("non-canonical Long for 2^63-1", bad2, False)):
        got = accept("XrBigInt", "XrBigInt.cfg", evs)
        ok &= got == want
        print("  [%s] XrBigInt  %-40s %s" % ("ok " if got == want else "BAD", n, "accepted" if got else "rejected"))
    fl = lambda cls: {"t": "float", "finite": cls in ("zero", "subnormal", "normal"), "class": cls}
    for n, evs, want in (("finite floats in a container", [{"ev": "Finite", "v": {"t": "seq", "v": [fl("normal"), {"t": "opt", "has": True, "v": fl("zero")}]}}], True),
                         ("an infinity inside an optional", [{"ev": "Finite", "v": {"t": "seq", "v": [fl("normal"), {"t": "opt", "has": True, "v": fl("inf")}]}}], False),
                         ("a str where the type says int", [{"ev": "Value", "t": {"k": "seq", "a": {"k": "int"}}, "v": {"t": "seq", "v": [{"t": "str"}]}}], False)):
        got = accept("XrShape", "XrShape.cfg", evs)
        ok &= got == want
        print("  [%s] XrShape   %-40s %s" % ("ok " if got == want else "BAD", n, "accepted" if got else "rejected"))
    # representation acceptors, on tables / trees dumped by the interpreter
    import poolcheck
    rj = {"id": "repr", "src": "let s = ([1, 2, 3] + range(4)).skip(1).take(5);\nlet z = zip(count(), [7, 8]);\n"
          "let m = mapping((x: int) -> {x % 2}, (a: int, b: int) -> {a == b}).set(1, 10).set(3, 30).set(2, 20).discard(1);\n", "observe": ["s", "z", "m"]}
    ro = vf.run_jobs([rj], "selftest-repr")["repr"]["values"]
    recs = []
    poolcheck.seq_records(ro["s"], recs, ("repr", "s"))
    poolcheck.seq_records(ro["z"], recs, ("repr", "z"))
    seqs = [{k: v for k, v in r.items() if not k.startswith("_")} for r in recs]
    wrong_len = copy.deepcopy(seqs)
    wrong_len[0]["len"] += 1
    wrong_mid = copy.deepcopy(seqs)

    def bump(r):
        if isinstance(r, dict):
            if r.get("k") == "Chain":
                r["mid"][0] += 1
                return True
            of = r.get("of")
            return any(bump(x) for x in (of if isinstance(of, list) else [of] if of else []))
        return False
    bumped = any(bump(r["repr"]) for r in wrong_mid)
    for n, evs, want in (("recorded representation trees", seqs, True), ("reported length off by one", wrong_len, False)) + \
            ((("a chain midpoint off by one", wrong_mid, False),) if bumped else ()):
        got = accept("XrSeqRepr", "XrSeqRepr.cfg", evs)
        ok &= got == want
        print("  [%s] XrSeqRepr %-40s %s" % ("ok " if got == want else "BAD", n, "accepted" if got else "rejected"))
    dm = ro["m"]
    table = {"ev": "Table", "eqm": 0, "hm": 2, "len": dm["len"], "hs": [int(e["h"]) for e in dm["entries"]], "ks": [int(e["k"]["v"]) for e in dm["entries"]],
             "bn": [x["n"] for x in dm["buckets"]]}
    t_len = dict(table, len=table["len"] + 1)
    t_bucket = dict(table, hs=[1 - h for h in table["hs"]])
    for n, evs, want in (("recorded bucket table", [table], True), ("stored length off by one", [t_len], False), ("keys in the wrong buckets", [t_bucket], False)):
        got = accept("XrMapRepr", "XrMapRepr.cfg", evs)
        ok &= got == want
        print("  [%s] XrMapRepr %-40s %s" % ("ok " if got == want else "BAD", n, "accepted" if got else "rejected"))
    st = lambda w, ln, by, tb: [{"ev": "Str", "w": w, "len": ln, "bytes": by, "table": tb}]
    for n, evs, want in [
        ("ascii without table", st([1, 1, 1], 3, 3, []), True),
        ("non-ascii with exact table", st([1, 2, 4, 1], 4, 8, [0, 1, 3, 7]), True),
        ("non-ascii WITHOUT table (len in bytes)", st([1, 2], 3, 3, []), False),
        ("table off by one", st([1, 2, 1], 3, 4, [0, 1, 2]), False),
        ("len differs from characters", st([1, 1], 3, 2, []), False),
    ]:
        got = accept("XrStrRepr", "XrStrRepr.cfg", evs)
        ok &= got == want
        print("  [%s] XrStrRepr %-40s %s" % ("ok " if got == want else "BAD", n, "accepted" if got else "rejected"))
    print("SELFTEST", "PASSED" if ok else "FAILED")
    return 0 if ok else 1


if __name__ == "__main__":
    sys.exit(main())
