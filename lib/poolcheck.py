"""Shared driver for the collection specifications (XrSeq, XrGen, XrMap, XrStr ...): TLC walks a
pool machine with -simulate; each behaviour is one program whose bindings (terms over earlier
bindings) are rendered, run, and compared with the list/stream/map semantics TLC recorded."""
import json

import coregen
import corecheck
import vf


def same_val(exp, got):
    """expected projection (may carry inf=true for infinite sequences) vs normalised dump"""
    if exp.get("t") == "seq" and "inf" in exp:
        if got.get("t") != "seq":
            return False
        if exp["inf"]:
            if not got.get("inf"):
                return False
            n = min(len(exp["v"]), len(got["v"]))
            return n >= 5 and all(same_val(a, b) for a, b in zip(exp["v"][:n], got["v"][:n]))
        if got.get("inf"):
            return False
        return len(exp["v"]) == len(got["v"]) and all(same_val(a, b) for a, b in zip(exp["v"], got["v"]))
    if exp.get("t") == "bagseq":
        # a listing whose order the documentation leaves open: compared as a multiset of lists
        if got.get("t") != "seq" or got.get("inf") or len(exp["v"]) != len(got["v"]):
            return False
        key = lambda x: json.dumps(x, sort_keys=True)
        return sorted(key(norm_plain(a)) for a in exp["v"]) == sorted(key(norm_plain(b)) for b in got["v"])
    if exp.get("t") == "stack":
        return got.get("t") == "stack" and len(exp["v"]) == len(got["v"]) and all(same_val(a, b) for a, b in zip(exp["v"], got["v"]))
    if exp.get("t") in ("struct",) and got.get("t") == "struct":
        return len(exp["v"]) == len(got["v"]) and all(same_val(a, b) for a, b in zip(exp["v"], got["v"]))
    if exp.get("t") == "opt" and got.get("t") == "opt":
        return exp["has"] == got["has"] and (not exp["has"] or same_val(exp["v"], got["v"]))
    return corecheck.same(exp, got)


def norm_plain(x):
    """a nested sequence value reduced to plain lists of ints (for order-insensitive comparison)"""
    if isinstance(x, dict) and x.get("t") == "seq":
        return [norm_plain(y) for y in x["v"]]
    if isinstance(x, dict) and "v" in x:
        return x["v"]
    return x


def norm(d):
    n = corecheck.norm_dump(d)
    if d and d.get("t") == "seq":
        n = {"t": "seq", "inf": d.get("len") is None, "v": [norm(x) for x in d["v"]]}
    elif d and d.get("t") == "struct":
        n = {"t": "struct", "v": [norm(x) for x in d["v"]]}
    elif d and d.get("t") == "stack":
        n = {"t": "stack", "v": [norm(x) for x in d["v"]] if d.get("len") == len(d["v"]) else None}
    elif d and d.get("t") == "opt" and d["v"] is not None:
        n = {"t": "opt", "has": True, "v": norm(d["v"])}
    return n


def seq_records(d, out, tag):
    """every sequence inside a dumped value -> {"ev":"Seq", len, repr} records for XrSeqRepr
    (numbers beyond TLC's 32-bit integers: the record is left out)"""
    def conv(r):
        if not isinstance(r, dict):
            return {"k": "?"}
        k = r.get("k")
        if k == "Range":
            a, b, s = int(r["start"]), int(r["end"]), int(r["step"])
            if max(abs(a), abs(b), abs(s)) > 2 ** 30:
                raise OverflowError
            return {"k": k, "start": a, "end": b, "step": s}
        if k == "Array":
            return {"k": k, "n": r["n"]}
        if k == "Map":
            return {"k": k, "of": conv(r["of"])}
        if k == "Zip":
            return {"k": k, "of": [conv(x) for x in r["of"]]}
        if k == "Chain":
            if any(m > 2 ** 30 for m in r["mid"]):
                raise OverflowError
            return {"k": k, "of": [conv(x) for x in r["of"]], "mid": list(r["mid"])}
        if k == "Slice":
            if r["start"] > 2 ** 30 or (r["end"] or 0) > 2 ** 30:
                raise OverflowError
            return {"k": k, "of": conv(r["of"]), "start": r["start"], "end": -1 if r["end"] is None else r["end"]}
        return {"k": k}
    if not isinstance(d, dict):
        return
    t = d.get("t")
    if t == "seq":
        try:
            ln = d.get("len")
            if ln is None or ln <= 2 ** 30:
                out.append({"ev": "Seq", "len": -1 if ln is None else ln, "repr": conv(d.get("repr")), "_tag": tag})
        except OverflowError:
            pass
        for x in d.get("v", []):
            seq_records(x, out, tag)
    elif t in ("struct", "stack"):
        for x in d.get("v", []):
            seq_records(x, out, tag)
    elif t in ("opt", "union"):
        seq_records(d.get("v"), out, tag)
    elif t in ("map", "set"):
        for e in d.get("entries", []):
            seq_records(e.get("k"), out, tag)
            seq_records(e.get("v"), out, tag)


def check_seq_reprs(chk, records, sources, name):
    """XrSeqRepr decides the representation invariants of every recorded sequence"""
    seen, uniq = set(), []
    for r in records:
        key = json.dumps({k: v for k, v in r.items() if not k.startswith("_")}, sort_keys=True)
        if key not in seen:
            seen.add(key)
            uniq.append(r)
    for r in vf.accept_records(chk, "XrSeqRepr", uniq, name):
        job, bind = r["_tag"]
        rec = {k: v for k, v in r.items() if not k.startswith("_")}
        chk.violation("sequence %s: representation %s violates the invariants of XrSeqRepr (reported length %s)" %
                      (bind, json.dumps(rec["repr"])[:300], rec["len"]),
                      {"kind": "seq-repr", "source": sources.get(job, ""), "binding": bind, "record": rec},
                      finding_key="seqrepr:" + _repr_shape(rec["repr"]))
    chk.part("representations", sequences=len(records), distinct=len(uniq))
    return len(uniq)


def _repr_shape(r):
    if not isinstance(r, dict):
        return "?"
    of = r.get("of")
    if isinstance(of, list):
        return "%s(%s)" % (r.get("k"), ",".join(_repr_shape(x) for x in of))
    if isinstance(of, dict):
        return "%s(%s)" % (r.get("k"), _repr_shape(of))
    return str(r.get("k"))


def run_pool(chk, module, cfg, name, n_programs, depth, seed, prelude="", kind="pool", limits=None, max_elems=64,
             post=None, finding_key=None):
    """simulate `module`, replay every behaviour. Returns list of (case, observation)."""
    r = vf.tlc(module, cfg, name, simulate=n_programs, depth=depth, seed=seed, timeout=3000)
    cases = r.cases()
    if not cases or "Error:" in r.out:
        raise vf.ToolError("%s produced no behaviours / failed:\n%s" % (module, r.out[-2500:]))
    chk.add_tlc(r)
    jobs = []
    for i, c in enumerate(cases):
        src = prelude + "".join("let %s = %s;\n" % (b["n"], coregen.rexpr(b["term"])) for b in c["binds"])
        jobs.append({"id": "%s%d" % (name, i), "src": src, "observe": [b["n"] for b in c["binds"]],
                     "limits": limits or {}, "max_elems": max_elems, "timeout_ms": 30000})
    res = vf.run_jobs(jobs, name)
    chk.count(len(jobs))
    out = []
    for j, c in zip(jobs, cases):
        o = res[j["id"]]
        oc = vf.job_outcome(o)
        chk.nontrivial(j["src"])
        if oc != "ok":
            chk.violation("%s program: %s %s" % (kind, oc, str(o.get("compile", {}).get("msg") or o.get("inst") or o.get("crash"))[:300]),
                          {"kind": kind, "source": j["src"], "observed": oc, "expected": c["binds"],
                           "detail": {k: v for k, v in o.items() if k in ("compile", "inst", "crash")}},
                          finding_key=finding_key(j, c, None, oc) if finding_key else None)
            continue
        for b in c["binds"]:
            got = norm(o["values"].get(b["n"]))
            if not same_val(b["v"], got):
                line = "let %s = %s;" % (b["n"], coregen.rexpr(b["term"]))
                chk.violation("%s: `%s` expected %s, observed %s" % (kind, line, json.dumps(b["v"])[:200], json.dumps(got)[:200]),
                              {"kind": kind, "source": j["src"], "binding": b["n"], "expected": b["v"], "observed": got,
                               "expected_all": c["binds"]},
                              finding_key=finding_key(j, c, b, got) if finding_key else None)
                break
        if post:
            post(j, c, o)
        out.append((c, o))
    if jobs:
        chk.sample({"source": jobs[len(jobs) // 2]["src"][:900], "expected": [{"n": b["n"], "v": b["v"]} for b in cases[len(jobs) // 2]["binds"][:4]]})
    return out


def replay_pool(chk, path):
    rp = json.load(open(path))
    names = [b["n"] for b in rp.get("expected_all", [])] or ([rp["binding"]] if "binding" in rp else [])
    o = vf.run_jobs([{"id": "r", "src": rp["source"], "observe": names, "max_elems": 12, "timeout_ms": 30000}], "replay")["r"]
    oc = vf.job_outcome(o)
    chk.count(1)
    chk.nontrivial("replay")
    chk.nontrivial(rp["source"])
    chk.sample({"source": rp["source"][:400], "outcome": oc})
    bad = oc != "ok"
    if not bad:
        for b in rp.get("expected_all", []):
            if not same_val(b["v"], norm(o["values"].get(b["n"]))):
                bad = True
    if bad:
        chk.violation("still deviates", rp)
    return chk.finish()
