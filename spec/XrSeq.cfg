SPECIFICATION Spec
CONSTANT Steps = 12
INVARIANT Emit
INVARIANT TakeSkipPartition
INVARIANT ReverseInvolutive
CHECK_DEADLOCK FALSE
