------------------------------- MODULE XrConv -------------------------------
(***************************************************************************)
(* Calendar conversions (std/date.md, std/datetime.md): proleptic          *)
(* Gregorian date <-> Julian day number, weekday (Monday = 0), and Unix    *)
(* seconds <-> datetime.  The reference is a day-step machine (NextDay     *)
(* with the Gregorian month lengths and leap rule, JDN + 1, weekday + 1);  *)
(* TLC walks it over a window around the anchor 2000-01-01 = JDN 2451545   *)
(* (a Saturday) and checks that the closed forms below agree with it at    *)
(* every day; the closed forms then predict the requested days anywhere in *)
(* the supported range.                                                    *)
(*   env DAYS = ndjson of {jdn} to predict                                 *)
(***************************************************************************)
EXTENDS Integers, Sequences, TLC, Json, IOUtils

Leap(y) == (y % 4 = 0 /\ y % 100 # 0) \/ y % 400 = 0
DaysIn(y, m) == IF m = 2 THEN (IF Leap(y) THEN 29 ELSE 28) ELSE IF m \in {4, 6, 9, 11} THEN 30 ELSE 31

\* closed forms (floor division throughout)
JdnOf(y, m, d) ==
    LET a == (14 - m) \div 12  yy == y + 4800 - a  mm == m + 12 * a - 3
    IN d + (153 * mm + 2) \div 5 + 365 * yy + yy \div 4 - yy \div 100 + yy \div 400 - 32045
DateOf(jdn) ==
    LET f == jdn + 1401 + (((4 * jdn + 274277) \div 146097) * 3) \div 4 - 38
        e == 4 * f + 3
        g == (e % 1461) \div 4
        h == 5 * g + 2
        d == (h % 153) \div 5 + 1
        m == ((h \div 153 + 2) % 12) + 1
        y == e \div 1461 - 4716 + (14 - m) \div 12
    IN [y |-> y, m |-> m, d |-> d]
WeekdayOf(jdn) == jdn % 7                 \* Monday = 0 ... Sunday = 6

CONSTANT Window                          \* days walked on each side of the anchor
VARIABLES y, m, d, jdn, wd, dir
cvars == <<y, m, d, jdn, wd, dir>>

Init == y = 2000 /\ m = 1 /\ d = 1 /\ jdn = 2451545 /\ wd = 5 /\ dir \in {"fwd", "bwd"}
Fwd == /\ dir = "fwd" /\ jdn < 2451545 + Window
       /\ IF d < DaysIn(y, m) THEN d' = d + 1 /\ UNCHANGED <<y, m>>
          ELSE IF m < 12 THEN d' = 1 /\ m' = m + 1 /\ UNCHANGED y
          ELSE d' = 1 /\ m' = 1 /\ y' = y + 1
       /\ jdn' = jdn + 1 /\ wd' = (wd + 1) % 7 /\ UNCHANGED dir
Bwd == /\ dir = "bwd" /\ jdn > 2451545 - Window
       /\ IF d > 1 THEN d' = d - 1 /\ UNCHANGED <<y, m>>
          ELSE IF m > 1 THEN m' = m - 1 /\ d' = DaysIn(y, m - 1) /\ UNCHANGED y
          ELSE m' = 12 /\ d' = 31 /\ y' = y - 1
       /\ jdn' = jdn - 1 /\ wd' = (wd + 6) % 7 /\ UNCHANGED dir
Next == Fwd \/ Bwd

\* the closed forms agree with the day-step machine on every day walked
ClosedFormsAgree ==
    /\ JdnOf(y, m, d) = jdn
    /\ DateOf(jdn) = [y |-> y, m |-> m, d |-> d]
    /\ WeekdayOf(jdn) = wd

\* predictions for the requested days (printed once, from the initial state)
Days == ndJsonDeserialize(IOEnv.DAYS)
Predict ==
    (jdn = 2451545 /\ dir = "fwd") =>
        \A i \in 1..Len(Days) :
            LET j == Days[i].jdn  dt == DateOf(j)
            IN PrintT(<<"CASE", ToJson([jdn |-> j, y |-> dt.y, m |-> dt.m, d |-> dt.d, wd |-> WeekdayOf(j),
                                        back |-> JdnOf(dt.y, dt.m, dt.d)])>>)
=============================================================================
