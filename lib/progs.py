"""Seed programs for the resource checks (inputs only - never oracles).  Each is a complete
xray program with top-level bindings and a zero-argument `main`; parameters are varied by the
caller's seed.  The oracle for what happens when they run is XrRuntime (trace validation)."""
import random


def resource_programs(seed, n_variants=1):
    rnd = random.Random(seed)
    progs = []
    for v in range(n_variants):
        k = rnd.randint(3, 9)
        m = rnd.randint(2, 6)
        big = rnd.choice([63, 64, 65, 100, 127, 200])
        progs += [
            ("ints%d" % v, f"""
let a = 2 ** {big};
let b = a * a - a;
let c = [a, b, a + b, -a].map((x: int) -> {{x * 3 + 1}}).to_array();
fn main()->int {{ let d = b / 7; (a + b + d.floor()) % 1000003 }}
"""),
            # payloads that only count when measured in bytes / limbs: long non-ASCII strings, integers of many limbs
            ("wide%d" % v, f"""
let u = "é中😀" * {k * 6};
let w = u + u.upper() + "x" * 3;
let n1 = 2 ** 1000 + 12345;
let n2 = n1 * n1 - n1;
let ns = [n1, n2, -n1, n1 + n2];
fn main()->int {{ let z = [u, w, w + u].map((x: str) -> {{x.len()}}).to_array(); let q = ns.map((x: int) -> {{x * 3 + 1}}).to_array(); z.sum() + (q.get(1) % 1000003) }}
"""),
            ("strs%d" % v, f"""
let s = "abc" * {k};
let t = s + "é中" + s.upper();
let parts = t.split("b");
fn main()->int {{ let u = [s, t, s + t].map((x: str) -> {{x.len()}}).to_array(); u.sum() + parts.len() }}
"""),
            ("seqs%d" % v, f"""
let r = range({k * 3});
let a = r.map((x: int) -> {{x * x}}).to_array();
let b = a.push(1).rpush(2).insert(1, 7).pop(0).set(0, 5) + a.take({m}) + a.skip({m});
let z = a.zip(b).to_array();
fn main()->int {{ let w = b.sort((p: int, q: int) -> {{cmp(p, q)}}); w.get(0) + z.len() + a.reverse().get(0) }}
"""),
            ("stacks%d" % v, f"""
fn build(n: int, s: Stack<int>)->Stack<int> {{ (n == 0).if(s, build(n - 1, s.push(n))) }}
let s0 = build({k}, stack());
let s1 = s0.push(100).push(200);
let s2 = s0.push(300);
fn main()->int {{ let t = build({m}, s1); t.len() + s2.head() + s1.tail().head() + s0.to_array().len() }}
"""),
            ("maps%d" % v, f"""
let m0 = mapping((x: int) -> {{x % {m}}}, (p: int, q: int) -> {{p == q}});
let m1 = m0.update(range({k}).map((i: int) -> {{(i, i * i)}}));
let m2 = m1.set(1, 100).set({k + 5}, 7).discard(0);
let m3 = m2.pop(1);
fn main()->int {{ let m4 = m1.set_default(77, 1).update_from_keys([1, 2, 77], (i: int) -> {{i}}, (i: int, v: int) -> {{v + i}}); m4.len() + m2.len() + m3.len() + m1.lookup(2).value() }}
"""),
            ("sets%d" % v, f"""
let e0 = set((x: int) -> {{x % {m}}}, (p: int, q: int) -> {{p == q}});
let e1 = e0.update(range({k}));
let e2 = e1.add(100).add(3).remove(100).discard(0).discard(55);
fn main()->int {{ let e3 = e1.update([7, 8, 9, 7]); e3.len() + e2.len() + e1.contains(2).if(1, 0) }}
"""),
            # everything in one bucket: the accounted size must follow the entries, not the buckets
            ("collide%d" % v, f"""
let m0: Mapping<int, int> = mapping((x: int) -> {{0}}, (p: int, q: int) -> {{p == q}});
let m1 = m0.update(range({k + 6}).map((i: int) -> {{(i, i + 1)}}));
let m2 = m1.update_counter([1, 2, 2, 99].to_generator()).map_values((x: int) -> {{x * 2}});
let e0 = set((x: int) -> {{x % 2}}, (p: int, q: int) -> {{p == q}});
let e1 = e0.update(range({k + 8}));
fn main()->int {{ let m3 = m2.update_from_keys(range({k + 9}).to_array(), (i: int) -> {{i}}, (i: int, w: int) -> {{w + 1}}).discard(3).pop(4); let e2 = e1.discard(1).remove(2).add(77); m3.len() + m2.len() + e2.len() }}
"""),
            ("clos%d" % v, f"""
fn adder(n: int)->(int)->(int) {{ let big = 2 ** {big}; fn f(x: int)->int {{ x + n + big % 7 }} f }}
let fs = range({k}).map(adder).to_array();
struct P(x: int, y: Sequence<int>)
union U(a: int, b: str)
let ps = range({m}).map((i: int) -> {{P(i, [i, i])}}).to_array();
let us = [U::a(1), U::b("q" * {k})];
fn main()->int {{ let g = fs.get(1); g(5) + ps.get(0)::y.len() + us.len() + fs.map((f: (int)->(int)) -> {{f(1)}}).sum() }}
"""),
            ("gens%d" % v, f"""
let g = count().to_generator().map((x: int) -> {{x * 2}}).filter((x: int) -> {{x % 3 == 0}});
let a = g.take({k}).to_array();
let w = range({k + 4}).to_generator().windows({min(m, 3)}).to_array();
fn main()->int {{ let h = g.skip({m}).take({m}).to_array(); a.len() + h.sum() + w.len() + successors(1, (x: int) -> {{x * 2}}).take({k}).to_array().sum() }}
"""),
            ("errs%d" % v, f"""
let e = [1, 2, 3].get({k});
let f = if_error(e, 5);
let h = [1, 0, 2].map((x: int) -> {{10 / x}});
fn main()->int {{ let q = is_error(h.get(1)).if(1, 2); q + f + get_error(e).value().len() }}
"""),
        ]
    return progs
