"""C05 - Overload resolution is ranked, unambiguous and stable.

Decided by XrOverload: TLC enumerates candidate sets (subsets of a pool of 16 signatures: plain,
generic in one or two parameters, with optional trailing parameters, over int / str / Sequence /
Optional / callable; optionally split over an enclosing scope) x argument tuples, predicts
Unique(tag) / AmbiguousOverload / NoOverload and checks on the model that the prediction is
invariant under alpha-renaming, under adding non-matching candidates and under moving candidates
between scope levels.  Each candidate's body returns its tag, so the body that runs is
observable; every case is rendered in several variants (declaration orders, renamed generics,
extra non-matching overloads) that must all agree with the prediction.  Collisions with
standard-library names and dynamic lookup through derived eq/to_str are covered by templates."""
import itertools
import json
import random

import vf

LEVEL = "model_checking"

ARG_SRC = {"int": "1", "str": '"s"', "seq:int": "[1]", "seq:str": '["s"]', "opt:int": "some(1)", "fn": "((q: int) -> {q})"}


def tname(t, ren):
    k = t["k"]
    if k == "var":
        return ren.get(t["n"], t["n"])
    if k in ("int", "str", "bool", "float"):
        return k
    if k == "seq":
        return "Sequence<%s>" % tname(t["a"], ren)
    if k == "opt":
        return "Optional<%s>" % tname(t["a"], ren)
    if k == "fn":
        return "(%s)->(%s)" % (", ".join(tname(x, ren) for x in t["ps"]), tname(t["r"], ren))
    raise ValueError(k)


def arg_src(t):
    k = t["k"]
    if k in ("int", "str"):
        return ARG_SRC[k]
    if k in ("seq", "opt"):
        return ARG_SRC[k + ":" + t["a"]["k"]]
    if k == "fn":
        return ARG_SRC["fn"]
    raise ValueError(k)


def cand_decl(name, c, ren, pnames):
    gens = [ren.get(g, g) for g in sorted(c["gen"])]
    ps = []
    for i, p in enumerate(c["ps"]):
        s = "%s%d: %s" % (pnames, i, tname(p["ty"], ren))
        if p["opt"]:
            s += " ?= " + ('"d"' if p["ty"]["k"] == "str" else "0")
        ps.append(s)
    return "fn %s%s(%s)->int { %d }" % (name, "<%s>" % ", ".join(gens) if gens else "", ", ".join(ps), c["tag"])


def render(case, order, ren, extra, pn):
    cands = [case["cands"][i] for i in order]
    outer = [c for c in cands if c["lvl"] == 0]
    inner = [c for c in cands if c["lvl"] == 1]
    lines = [cand_decl("ov", c, ren, pn) for c in outer]
    if extra:
        lines.append("fn ov(%s0: bool, %s1: bool, %s2: bool, %s3: bool)->int { 99 }" % (pn, pn, pn, pn))
    call = "ov(%s)" % ", ".join(arg_src(a) for a in case["args"])
    body = "".join("    " + cand_decl("ov", c, ren, pn) + "\n" for c in inner)
    lines.append("fn site()->int {\n%s    %s\n}" % (body, call))
    lines.append("let r = site();")
    return "\n".join(lines) + "\n"


def render_gap(case, order, pn):
    """the inner candidates two function levels below the outer ones, with a scope in between that declares no overload of the name"""
    cands = [case["cands"][i] for i in order]
    outer = [c for c in cands if c["lvl"] == 0]
    inner = [c for c in cands if c["lvl"] == 1]
    lines = [cand_decl("ov", c, {}, pn) for c in outer]
    call = "ov(%s)" % ", ".join(arg_src(a) for a in case["args"])
    body = "".join("        " + cand_decl("ov", c, {}, pn) + "\n" for c in inner)
    lines.append("fn site()->int {\n    let unrelated = 5;\n    fn mid()->int {\n%s        %s\n    }\n    mid()\n}" % (body, call))
    lines.append("let r = site();")
    return "\n".join(lines) + "\n"


def rigid_tname(t, ren):
    return tname(t, ren).replace("int", "G").replace("str", "H")


RIGID_ARG = {"int": "g", "str": "h", "seq:int": "[g]", "seq:str": "[h]", "opt:int": "some(g)", "fn": "((q: G) -> {q})"}


def render_rigid(case, order, pn):
    """the whole case inside `fn outer<G, H>(g: G, h: H)` with the ground types int and str renamed to the opaque
    parameters G and H: opaque type parameters resolve like any other (distinct) ground types"""
    def decl(c):
        gens = sorted(c["gen"])
        ps = []
        for i, p in enumerate(c["ps"]):
            s = "%s%d: %s" % (pn, i, rigid_tname(p["ty"], {}))
            if p["opt"]:
                s += " ?= " + ("h" if p["ty"]["k"] == "str" else "g" if p["ty"]["k"] == "int" else "0")
            ps.append(s)
        return "fn ov%s(%s)->int { %d }" % ("<%s>" % ", ".join(gens) if gens else "", ", ".join(ps), c["tag"])

    def asrc(t):
        k = t["k"]
        if k in ("int", "str"):
            return RIGID_ARG[k]
        if k in ("seq", "opt"):
            return RIGID_ARG[k + ":" + t["a"]["k"]]
        return RIGID_ARG["fn"]
    cands = [case["cands"][i] for i in order]
    for c in cands:
        for p in c["ps"]:
            if p["opt"] and p["ty"]["k"] not in ("int", "str"):
                return None
    outer = "".join("    " + decl(c) + "\n" for c in cands if c["lvl"] == 0)
    inner = "".join("        " + decl(c) + "\n" for c in cands if c["lvl"] == 1)
    call = "ov(%s)" % ", ".join(asrc(a) for a in case["args"])
    return "fn outer<G, H>(g: G, h: H)->int {\n%s    fn site()->int {\n%s        %s\n    }\n    site()\n}\nlet r = outer(7, true);\n" % (outer, inner, call)


def template_programs():
    """collisions with standard-library names; dynamic lookup through derived functions"""
    T = []
    T.append(("std_len_user_int", "fn len(x: int)->int { 77 }\nlet a = len(5);\nlet b = len(\"abc\");\nlet c = len([1, 2]);",
              {"a": 77, "b": 3, "c": 2}))
    T.append(("std_add_user_bool", "fn add(a: bool, b: bool)->int { 55 }\nlet a = true + false;\nlet b = 1 + 2;\nlet c = add(true, true);",
              {"a": 55, "b": 3, "c": 55}))
    T.append(("generic_vs_exact", "fn pick<T>(a: T)->int { 1 }\nfn pick(a: int)->int { 2 }\nlet a = pick(5);\nlet b = pick(\"s\");\nlet c = pick([1]);",
              {"a": 2, "b": 1, "c": 1}))
    T.append(("inner_merges_not_hides", "fn k(a: int)->int { 1 }\nfn site()->int { fn k(a: str)->int { 2 } k(1) * 10 + k(\"s\") }\nlet a = site();", {"a": 12}))
    T.append(("dyn_eq_finds_user_eq", "struct P(x: int)\nfn eq(a: P, b: P)->bool { true }\nlet a = [P(1)] == [P(2)];\nlet b = (P(1), 5) == (P(9), 5);\nlet c = some(P(1)) == some(P(3));",
              {"a": True, "b": True, "c": True}))
    T.append(("dyn_to_str_finds_user", "struct P(x: int)\nfn to_str(a: P)->str { \"P!\" }\nlet a = [P(1), P(2)].to_str();\nlet b = (P(1), 2).to_str();",
              {"a": None, "b": None}))
    # several forward declarations of one name: each implementation fulfils the declaration with ITS signature,
    # whatever the order of the declarations and of the implementations
    sigs = {"a1": ("a: int", "\"one:\" + a.to_str()", "1", "one:1"), "a2": ("a: int, b: int", "\"two:\" + (a + b).to_str()", "1, 2", "two:3"),
            "a3": ("a: int, b: int, c: int", "\"three:\" + (a + b + c).to_str()", "1, 2, 3", "three:6"), "s1": ("a: str", "\"str:\" + a", "\"z\"", "str:z")}
    k = 0
    for group in (("a1", "a2"), ("a2", "a3"), ("a1", "a2", "a3"), ("a1", "s1"), ("s1", "a2")):
        for fo in itertools.permutations(group):
            for io in itertools.permutations(group):
                if len(group) == 3 and (fo[0] != group[0] and io[0] != group[2]):
                    continue
                src = "".join("forward fn tag(%s)->str;\n" % sigs[g][0] for g in fo)
                src += "".join("fn use_%s()->str { tag(%s) }\n" % (g, sigs[g][2]) for g in group)
                src += "".join("fn tag(%s)->str { %s }\n" % (sigs[g][0], sigs[g][1]) for g in io)
                src += "".join("let r_%s = use_%s();\nlet d_%s = tag(%s);\n" % (g, g, g, sigs[g][2]) for g in group)
                exp = {}
                for g in group:
                    exp["r_" + g] = sigs[g][3]
                    exp["d_" + g] = sigs[g][3]
                T.append(("fwd_overloads_%d" % k, src, exp))
                k += 1
    return T


def run(chk, tier, seed):
    rnd = random.Random(seed)
    cfg = "XrOverload.cfg" if tier == "quick" else "XrOverload_thorough.cfg"
    r = vf.tlc("XrOverload", cfg, "c05", workers=1, timeout=3000, xmx="6g")
    if not r.ok:
        raise vf.ToolError("XrOverload failed (a meta-property does not hold on the model?):\n" + r.out[-2500:])
    chk.add_tlc(r)
    cases = r.cases()
    if tier == "quick":
        # scope levels for a seeded part of the cases (the quick model has all candidates at the call site's level)
        for c in cases:
            if rnd.random() < 0.5:
                for cand in c["cands"]:
                    cand["lvl"] = rnd.choice([0, 1])
    elif len(cases) > 30000:
        cases = rnd.sample(cases, 30000)
    jobs, meta = [], {}
    for ci, c in enumerate(cases):
        n = len(c["cands"])
        orders = [list(range(n)), list(reversed(range(n)))]
        if n > 2:
            orders.append(rnd.sample(range(n), n))
        variants = [(orders[0], {}, False, "a"), (orders[1], {"T": "Q", "U": "R"}, False, "zz"), (orders[-1], {"T": "U", "U": "T"}, True, "p")]
        for vi, (o, ren, extra, pn) in enumerate(variants):
            jid = "c%d_%d" % (ci, vi)
            jobs.append({"id": jid, "src": render(c, o, ren, extra, pn), "observe": ["r"]})
            meta[jid] = (ci, vi)
        if tier == "thorough" or (ci + seed) % 2 == 0:
            if any(x["lvl"] == 1 for x in c["cands"]) and any(x["lvl"] == 0 for x in c["cands"]):
                jobs.append({"id": "c%d_gap" % ci, "src": render_gap(c, orders[-1], "a"), "observe": ["r"]})
                meta["c%d_gap" % ci] = (ci, "gap")
            rs = render_rigid(c, orders[0], "a")
            if rs is not None:
                jobs.append({"id": "c%d_rigid" % ci, "src": rs, "observe": ["r"]})
                meta["c%d_rigid" % ci] = (ci, "rigid")
    res = vf.run_jobs(jobs, "c05")
    chk.count(len(jobs))
    for j in jobs:
        ci, vi = meta[j["id"]]
        c = cases[ci]
        o = res[j["id"]]
        oc = vf.job_outcome(o)
        want = c["res"]
        chk.nontrivial([sorted(x["tag"] for x in c["cands"]), c["args"], [x["lvl"] for x in c["cands"]]])
        if want["r"] == "unique":
            got = o.get("values", {}).get("r", {}).get("v") if oc == "ok" else oc + " " + str(o.get("compile", {}).get("class"))
            good = oc == "ok" and got == str(want["tag"])
            wtxt = "body of candidate %d runs" % want["tag"]
        else:
            got = oc + " " + str(o.get("compile", {}).get("class"))
            good = oc == "compile_err" and o["compile"].get("class") == want["r"]
            wtxt = want["r"]
        if not good:
            chk.violation("variant %s: expected %s, observed %s\n%s" % (vi, wtxt, got, j["src"]),
                          {"kind": "overload", "source": j["src"], "expected": want, "observed": got, "variant": vi,
                           "cands": c["cands"], "args": c["args"]},
                          finding_key="overload:%s|%s" % (sorted(x["tag"] for x in c["cands"]), json.dumps(c["args"])))
    # deep call sites: the same candidate set split over two enclosing function levels, several calls from a
    # function nested below both (captures from different ancestor depths; the choice may not depend on which
    # call was compiled first)
    groups = {}
    for c in cases:
        if c["res"]["r"] == "unique":
            groups.setdefault(tuple(sorted(x["tag"] for x in c["cands"])), []).append(c)
    keys = [k for k in sorted(groups) if len(k) >= 2 and len(groups[k]) >= 2]
    if len(keys) > (400 if tier == "quick" else 4000):
        keys = rnd.sample(keys, 400 if tier == "quick" else 4000)
    dj, dmeta = [], {}
    for gi, k in enumerate(keys):
        g = groups[k]
        cands = [dict(x) for x in g[0]["cands"]]
        lv = [0, 1] + [rnd.choice([0, 1]) for _ in cands[2:]]
        rnd.shuffle(lv)
        for x, l in zip(cands, lv):
            x["lvl"] = l
        calls = {}
        for c in g:
            calls.setdefault(json.dumps(c["args"]), (c["args"], c["res"]["tag"]))
        calls = list(calls.values())[:6]
        for vi, order in enumerate([calls, list(reversed(calls))]):
            outer = "".join("    " + cand_decl("ov", c, {}, "a") + "\n" for c in cands if c["lvl"] == 0)
            inner = "".join("        " + cand_decl("ov", c, {}, "a") + "\n" for c in cands if c["lvl"] == 1)
            body = ", ".join("ov(%s)" % ", ".join(arg_src(a) for a in args) for args, _ in order)
            src = ("fn top()->Sequence<int> {\n%s    fn site()->Sequence<int> {\n%s        fn deep()->Sequence<int> {\n            [%s]\n        }\n        deep()\n    }\n    site()\n}\nlet r = top();\n"
                   % (outer, inner, body))
            jid = "d%d_%d" % (gi, vi)
            dj.append({"id": jid, "src": src, "observe": ["r"]})
            dmeta[jid] = (k, [t for _, t in order], cands)
    dres = vf.run_jobs(dj, "c05-deep")
    for j in dj:
        k, want, cands = dmeta[j["id"]]
        o = dres[j["id"]]
        oc = vf.job_outcome(o)
        chk.count(1)
        chk.nontrivial(j["src"])
        got = [int(x["v"]) for x in o["values"]["r"]["v"]] if oc == "ok" and o["values"]["r"].get("t") == "seq" else oc + " " + str(o.get("compile", {}).get("class"))
        if got != want:
            chk.violation("deep call site: expected the bodies %s to run, observed %s\n%s" % (want, got, j["src"]),
                          {"kind": "overload", "source": j["src"], "expected": {"r": "unique-seq", "tags": want}, "observed": got, "cands": cands, "args": []},
                          finding_key="overload-deep:%s" % (list(k),))
    chk.part("deep_sites", programs=len(dj))
    tj = [{"id": t[0], "src": t[1] + "\n", "observe": list(t[2])} for t in template_programs()]
    tres = vf.run_jobs(tj, "c05-templates")
    for t, j in zip(template_programs(), tj):
        o = tres[j["id"]]
        oc = vf.job_outcome(o)
        chk.count(1)
        chk.nontrivial(t[1])
        bad = None
        if oc != "ok":
            bad = oc + ": " + str(o.get("compile", {}).get("msg", o.get("inst")))[:200]
        else:
            for name, want in t[2].items():
                d = o["values"].get(name, {})
                if want is None:
                    if d.get("t") != "str" or "P!" not in d.get("v", ""):
                        bad = "%s = %s (the user's to_str was not used)" % (name, d)
                elif isinstance(want, bool):
                    if d.get("v") is not want:
                        bad = "%s = %s, expected %s" % (name, d, want)
                elif d.get("v") != str(want):
                    bad = "%s = %s, expected %s" % (name, d, want)
        if bad:
            chk.violation("template %s: %s" % (t[0], bad), {"kind": "overload-template", "source": t[1], "expected": {k: v for k, v in t[2].items()}, "observed": bad})
    chk.part("cases", candidate_sets_x_args=len(cases), variants_run=len(jobs), templates=len(tj))
    c = cases[len(cases) // 3]
    chk.sample({"source": render(c, list(range(len(c["cands"]))), {}, False, "a"), "expected": c["res"]})
    chk.cov["exhaustive"] = tier == "thorough" and len(cases) < 30000
    chk.cov["rule"] = ("all subsets (size <= %s) of a 16-signature pool x 13 argument tuples, each rendered in 3 variants "
                       "(declaration order, renamed generic parameters and variables, an extra non-matching overload) plus a gap variant (the "
                       "inner candidates two scopes below the outer ones) and a rigid variant (the case inside fn outer<G> with int renamed to G), "
                       "candidates optionally split between the call site's scope and the enclosing one; plus stdlib-name "
                       "collisions and dynamic-lookup templates. non-trivial = distinct (candidate set, levels, args)" %
                       ("2" if tier == "quick" else "3"))


def replay(chk, path):
    rp = json.load(open(path))
    names = ["r"] if rp["kind"] == "overload" else list(rp["expected"])
    o = vf.run_jobs([{"id": "r", "src": rp["source"] + "\n", "observe": names}], "replay")["r"]
    oc = vf.job_outcome(o)
    chk.count(1)
    chk.nontrivial("replay")
    chk.nontrivial(rp["source"])
    chk.sample({"source": rp["source"], "outcome": oc, "values": o.get("values")})
    if rp["kind"] == "overload":
        want = rp["expected"]
        if want["r"] == "unique-seq":
            good = oc == "ok" and o["values"]["r"].get("t") == "seq" and [int(x["v"]) for x in o["values"]["r"]["v"]] == want["tags"]
        elif want["r"] == "unique":
            good = oc == "ok" and o["values"]["r"].get("v") == str(want["tag"])
        else:
            good = oc == "compile_err" and o["compile"].get("class") == want["r"]
        if not good:
            chk.violation("still deviates", rp)
    else:
        chk.violation("template replay: re-run the check", rp) if oc != "ok" else None
    return chk.finish()
