INIT Init
NEXT Next
CONSTANT Window = 150000
INVARIANT ClosedFormsAgree
INVARIANT Predict
CHECK_DEADLOCK FALSE
