//! Recording doubles for the three injectable dependencies of the runtime: the output writer,
//! the clock and the random source. Each touch is an `Effect` event in the recorder and a
//! thread-local count (so jobs run without tracing can still report "never touched").

use rand::rngs::StdRng;
use rand::{Error, RngCore, SeedableRng};
use serde_json::{json, Value};
use std::cell::{Cell, RefCell};
use std::io::Write;
use xray::time_provider::TimeProvider;
use xray::verif;

thread_local! {
    static SEED: Cell<u64> = Cell::new(7);
    static COUNTS: RefCell<[u64; 4]> = RefCell::new([0; 4]);
}

fn touch(i: usize, kind: &'static str) {
    COUNTS.with(|c| c.borrow_mut()[i] += 1);
    verif::emit(json!({"ev":"Effect","kind":kind}));
}

pub fn set_rng_seed(s: u64) {
    SEED.with(|c| c.set(s));
    COUNTS.with(|c| *c.borrow_mut() = [0; 4]);
}

pub fn take_effect_counts() -> Value {
    let c = COUNTS.with(|c| {
        let v = *c.borrow();
        *c.borrow_mut() = [0; 4];
        v
    });
    json!({"write": c[0], "clock": c[1], "rng": c[2], "rng_new": c[3]})
}

#[derive(Default, Debug)]
pub struct VWriter {
    pub buf: Vec<u8>,
    pub writes: usize,
}

impl Write for VWriter {
    fn write(&mut self, b: &[u8]) -> std::io::Result<usize> {
        touch(0, "write");
        self.writes += 1;
        self.buf.extend_from_slice(b);
        Ok(b.len())
    }
    fn flush(&mut self) -> std::io::Result<()> {
        Ok(())
    }
}

pub struct VClock(pub f64);

impl TimeProvider for VClock {
    fn unix_now(&self) -> f64 {
        touch(1, "clock");
        self.0
    }
}

pub struct VRng(StdRng);

impl RngCore for VRng {
    fn next_u32(&mut self) -> u32 {
        touch(2, "rng");
        self.0.next_u32()
    }
    fn next_u64(&mut self) -> u64 {
        touch(2, "rng");
        self.0.next_u64()
    }
    fn fill_bytes(&mut self, dest: &mut [u8]) {
        touch(2, "rng");
        self.0.fill_bytes(dest)
    }
    fn try_fill_bytes(&mut self, dest: &mut [u8]) -> Result<(), Error> {
        touch(2, "rng");
        self.0.try_fill_bytes(dest)
    }
}

impl SeedableRng for VRng {
    type Seed = <StdRng as SeedableRng>::Seed;
    /// the seed offered by the crate (entropy) is ignored: runs are reproducible from the job's seed
    fn from_seed(_seed: Self::Seed) -> Self {
        touch(3, "rng_new");
        VRng(StdRng::seed_from_u64(SEED.with(|c| c.get())))
    }
}
