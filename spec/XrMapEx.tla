------------------------------- MODULE XrMapEx -------------------------------
(***************************************************************************)
(* M5 (mappings and sets), exhaustive tier: EVERY linear history of at     *)
(* most N updates over a small key universe, for one (hash, equality)      *)
(* pair, explored breadth-first by TLC (model checking, not simulation).   *)
(* A state is a history (the sequence of updates applied to the empty      *)
(* collection) together with the abstract value it denotes - a set of      *)
(* equivalence classes, or a function from classes to values.  Every state *)
(* is emitted; the harness assembles the histories into tries (a version   *)
(* is a `let` derived from its parent version, so all versions of all      *)
(* histories stay alive side by side: persistence) and reads every version *)
(* back.  Removal paths matter most: remove / discard / pop leave emptied  *)
(* buckets behind, so the layout depends on the whole history.             *)
(***************************************************************************)
EXTENDS Integers, Sequences, FiniteSets, TLC, Json, SequencesExt

CONSTANTS Kind,      \* "set" | "map"
          Keys,      \* key universe
          N,         \* maximal history length
          Eqm,       \* equality = congruence modulo Eqm (0: identity)
          Hm         \* hash(x) = class(x) % Hm

VARIABLES hist,      \* <<[op, k, v]>>
          val,       \* abstract value: set of classes / function class -> value
          err        \* the last update was an error value (remove / pop of an absent key)
vars == <<hist, val, err>>

Class(x) == IF Eqm = 0 THEN x ELSE x % Eqm
EmptyMap == [c \in {} |-> 0]

SetOps == {"add", "discard", "remove"}
MapOps == {"set", "set_default", "discard", "pop"}

Init == hist = <<>> /\ err = FALSE /\ val = IF Kind = "set" THEN {} ELSE EmptyMap

Present(k) == IF Kind = "set" THEN Class(k) \in val ELSE Class(k) \in DOMAIN val

Apply(op, k, v) ==
    CASE op = "add"         -> [val |-> val \cup {Class(k)}, err |-> FALSE]
      [] op = "discard"     -> [val |-> IF Kind = "set" THEN val \ {Class(k)}
                                        ELSE [c \in DOMAIN val \ {Class(k)} |-> val[c]], err |-> FALSE]
      [] op = "remove"      -> [val |-> val \ {Class(k)}, err |-> ~Present(k)]
      [] op = "pop"         -> [val |-> [c \in DOMAIN val \ {Class(k)} |-> val[c]], err |-> ~Present(k)]
      [] op = "set"         -> [val |-> [c \in DOMAIN val \cup {Class(k)} |-> IF c = Class(k) THEN v ELSE val[c]], err |-> FALSE]
      [] op = "set_default" -> [val |-> IF Present(k) THEN val
                                        ELSE [c \in DOMAIN val \cup {Class(k)} |-> IF c = Class(k) THEN v ELSE val[c]], err |-> FALSE]

Next ==
    /\ ~err                                  \* an error value has no successors
    /\ Len(hist) < N
    /\ \E op \in (IF Kind = "set" THEN SetOps ELSE MapOps), k \in Keys :
          LET v == 10 * (Len(hist) + 1) + k      \* values tell the updates apart
              r == Apply(op, k, v)
          IN /\ hist' = Append(hist, [op |-> op, k |-> k, v |-> v])
             /\ val' = r.val /\ err' = r.err

Spec == Init /\ [][Next]_vars

Sorted(S) == SetToSortSeq(S, LAMBDA a, b : a < b)
ProjVal == IF Kind = "set" THEN Sorted(val)
           ELSE LET ks == Sorted(DOMAIN val) IN [j \in 1..Len(ks) |-> <<ks[j], val[ks[j]]>>]

Emit == PrintT(<<"CASE", ToJson([kind |-> Kind, eqm |-> Eqm, hm |-> Hm, ops |-> hist, err |-> err, v |-> ProjVal])>>)

\* design: an update touches only the class of its key
OnlyTheKeyChanges ==
    [][\A c \in Keys : (hist' # hist /\ Class(c) # Class(hist'[Len(hist')].k)) =>
            (IF Kind = "set" THEN (Class(c) \in val') = (Class(c) \in val)
             ELSE /\ (Class(c) \in DOMAIN val') = (Class(c) \in DOMAIN val)
                  /\ (Class(c) \in DOMAIN val => val'[Class(c)] = val[Class(c)]))]_vars
=============================================================================
