#!/usr/bin/env python3
"""Regenerates /verif/MANIFEST.json from the table below (single source of truth)."""
import json
import os
import subprocess

ROOT = os.path.dirname(os.path.dirname(os.path.abspath(__file__)))

# id -> (category, technique, text, note, design_ref)
CHECKS = {
    "C09": ("fault_enumeration",
            "TLA+ trace validation (XrRuntime) of size-limit sweeps over every allocation point + TLC model check of the accounting machine",
            "Every allocation/deallocation/pre-flight event of every run (unlimited, and L=T_i, T_i-1 for the allocation points T_i) is accepted by the TLA+ resource machine XrRuntime: conservation at every event, ok<=>total<=L, payload covered, no underflow, refused bytes not kept, nothing accumulates between runs, zero after drop, host receives the first violation; passing results are L-independent and monotone in L. The accounting design itself is model-checked by TLC (MC_XrRuntime).",
            "Trusts the hooks in src/runtime.rs (state logged at the linearisation point) and the trace normaliser (representation changes only); programs are a hand-written pool + the shipped scripts; sweep is sub-sampled in the quick tier.",
            "DESIGN.md 6 C09, 5 XrRuntime"),
    "C02": ("model_checking",
            "TLA+ reference semantics (XrEval/XrCore, XrSyntax) evaluated by TLC; behaviours replayed into the interpreter; TLA+ acceptor of exact float arithmetic on dyadic rationals (XrFloatExact) over observed operator results",
            "TLC evaluates every generated core program with the executable reference semantics XrEval (values of all top-level bindings, host-call results, output lines) and enumerates all operator chains of 2-3 binary operators with the documented grouping (XrSyntax); the interpreter must reproduce each predicted behaviour binding by binding and line by line, for every call spelling. Float + - * ** sqrt floor ceil neg abs on operands where the result is an exactly representable dyadic rational are recorded and decided by XrFloatExact.",
            "Fragment = what XrEval defines (ints within +-1e8, bool, str, sequences, optionals, tuples, structs, unions, closures, defaults, recursion, errors, display); builtin error texts and the evaluation of arguments right of an error argument are left open; programs are drawn by a seeded typed generator (depth <= 8, <= 40 declarations in the thorough tier).",
            "DESIGN.md 6 C02, 5 XrEval/XrSyntax"),
    "C06": ("model_checking",
            "TLA+ reference semantics (strict-call / violation rules of XrEval) evaluated by TLC + XrRuntime trace validation",
            "TLC predicts with XrEval (a) error-heavy generated programs, (b) every static root-scope signature with an error at each argument position (strict rule: leftmost error), (c) handler templates and random programs under every value of each limit (a violation is the outcome whatever encloses the tripping call); recorded traces of (c) are validated by XrRuntime (host outcome = first violation raised).",
            "Dynamic (factory) overloads and signatures without canonical inhabitants are not swept; known finding: Mapping set_default short-circuits its value (kept because a shipped test asserts it).",
            "DESIGN.md 6 C06"),
    "C07": ("model_checking",
            "TLA+ reference semantics with explicit trampoline (XrEval.Tramp) evaluated by TLC over recursion templates; replay",
            "Every template (self-call in tail position directly or through each documented carrier; in each non-tail position) x iteration count x {no limit, depth limits, recursion limits n-1,n,n+1} is evaluated by TLC and replayed; large counts (1e3..1e5) use the closed form that TLC checked against the machine for n <= 12.",
            "Carrier set = if, if_error/2 and /3, bool and/or, Optional or; non-carriers templated: arithmetic, neg, array item, condition, lambda, alias, inner function, assert, not, display, is_error; other implementation carriers (cast, map_or, tuple and, to_str of a str) are not templated.",
            "DESIGN.md 6 C07"),
    "C08": ("model_checking",
            "TLA+ reference semantics with limits (XrEval) over complete limit grids + XrRuntime trace validation + TLC model check of the counter machine",
            "For each generated program TLC computes the need per limit kind and then the outcome under every limit value 1..need+1 (each kind, and combined) and for host histories of run/reset; the interpreter must agree; recorded traces are validated by XrRuntime (counters exact at every event, every frame counted); stdlib-heavy programs use measured need.",
            "Search permits cannot be hooked add-only, so the search limit is decided by the reference semantics for nth/take_while/skip_until only; xray-defined stdlib functions are covered by the measured (relative) claim.",
            "DESIGN.md 6 C08"),
    "C11": ("model_checking",
            "TLA+ permission/effect machine (XrPerm over XrRuntime) enumerated by TLC for all plans x assignments; replay + trace validation",
            "TLC runs each effect plan (display, debug, now, random/sample/shuffle/choices/distributions, regex, sleep; direct, wrapped, in closures, callbacks, lazy elements, defaults, stdlib wrappers, mixed orders) through XrRuntime's Perm/Effect actions for every enumerated permission assignment (allow/forbid/unset) and predicts the outcome and which injected dependency is touched; the interpreter runs with recording doubles and must agree; every trace (also of the shipped scripts) is validated by XrRuntime: an effect only after its own permission check passed. Each plan is also run over several runtimes built from ONE compilation (allowing, refusing, allowing): every runtime decides by its own permission table.",
            "Writer/clock/rng are observed through doubles, regex-compile and sleep through hooks at the effect site; each plan is a hand-written template whose effect sites are known by construction.",
            "DESIGN.md 6 C11"),
    "C12": ("exploration",
            "TLC-walked token soups (XrSoup) + seeded mutations; TLA+ trace acceptors XrCompile (outcome is a function of the text) and XrRuntime (compile is silent)",
            "Every text (TLC token soups over the grammar alphabet, mutations/splices of shipped scripts and book examples, literal spellings incl. over-long ones, nesting to 64, generated programs) is compiled three times in one process at shuffled positions, operator programs and a sample also as the first compilation of a fresh process; the compile/behaviour events are validated by the TLA+ acceptor XrCompile (same text => same outcome and behaviour; a panic or hang has no action) and the resource traces by XrRuntime (nothing between CompileBegin and CompileEnd).",
            "The text space is sampled; hangs are detected by a 20 s watchdog per compilation.",
            "DESIGN.md 6 C12"),
    "C03": ("model_checking",
            "TLA+ reference semantics (XrEval environments = lexical scoping; XrScope static forward rule) evaluated by TLC; replay",
            "TLC evaluates scope-heavy generated programs (nesting to depth 4, captures at any distance, shadowing chains, escaping closures, defaults with output, recursion), hand-written scope shapes, every order of forward declaration / use / fulfilment (XrScope predicts MissingForwardImplementation), a family of forward uses 1-4 function levels deep with decoys, and all pairs of an identifier-spelling pool; the interpreter must reproduce bindings, results and output.",
            "Known findings: forward-dependent lambdas / aliases can be invoked before fulfilment (compiler tracks forward requirements for names only). Keyword-prefixed identifiers (truex) are rejected by the grammar in expression position and are outside the pool.",
            "DESIGN.md 6 C03"),
    "C04": ("model_checking",
            "TLA+ type algebra (XrTypeAlg: Assignable, CommonType, Match/Subst; enumerations XrTypes, XrTypesCtx, XrTypesRec) enumerated exhaustively by TLC; verdicts and inferred types replayed into the compiler",
            "TLC enumerates every (required, supplied) pair of the type universe, checks the lattice laws of the documented rules on it, and emits verdict and common type; the compiler must accept exactly the assignable pairs in each syntactic position (typed let, argument, field, variant payload, return, annotated element) and infer Sequence<CommonType> for two-element literals. Supplied callables are tried both as lambdas and as values of a declared callable type. XrTypesCtx repeats the enumeration inside a generic function body (opaque type parameters; typed let, argument and return of a nested function, call through a callable parameter, annotated element); XrTypesRec infers the types of constructor applications of regularly / nested / permuted recursive generic compounds and unions and their assignability to declared types; a family of same-named compounds in nested scopes must be kept apart.",
            "Supplied types whose canonical inhabitant does not have exactly that static type (probed through the compiler) are skipped; required types containing unknown are not expressible; callable joins are not compared.",
            "DESIGN.md 6 C04"),
    "C01": ("model_checking",
            "TLA+ shape relation (XrTypeAlg.HasShape) as trace acceptor XrShape over (static type, value) pairs recorded from the interpreter",
            "Every value produced by an accepted program (generated core programs, token-level near-miss mutants, mutated shipped scripts and book examples, every static root-scope signature applied to several inhabitants per parameter and integer edge values, type-system corner programs - partial application, callable-returning adaptors, opaque type parameters, shadowed and recursive compounds - with holes filled from 7 value types; under no limits and tight limits) is recorded with the static type the compiler assigned and TLC checks HasShape(value, type) for each; a panic, crash or hang of an accepted program has no action and is reported.",
            "Values are observed through the verif_dump hook (lazy sequences forced for 12 elements); dynamic overloads and signatures without inhabitants are not swept; the program space is sampled.",
            "DESIGN.md 6 C01"),
    "C05": ("model_checking",
            "TLA+ overload resolution (XrOverload.Resolve + meta-properties) enumerated by TLC; each case replayed in several syntactic variants",
            "TLC enumerates candidate sets from a 16-signature pool x argument tuples, predicts Unique(tag)/AmbiguousOverload/NoOverload and checks on the model invariance under alpha-renaming, non-matching additions and scope level; every case is compiled and run in 3 variants (declaration order, renamed generics/variables, extra non-matching overload, candidates split over enclosing scope) and the tag returned by the body that ran must be the predicted one.",
            "Candidate pool and argument tuples are fixed small universes (sets of <= 2 candidates quick, <= 3 thorough); besides the three syntactic variants every other case is also rendered with its inner candidates two scopes below the outer ones (gap) and inside fn outer<G> with int renamed to the opaque parameter G (rigid); stdlib-name collisions and dynamic lookup are hand-written templates.",
            "DESIGN.md 6 C05"),
    "C15": ("model_checking",
            "TLA+ list semantics of Sequence and Stack (XrSeq, XrStack pool machines) walked by TLC -simulate; behaviours replayed; TLA+ acceptor of representation trees (XrSeqRepr)",
            "TLC random-walks the XrSeq machine: each step applies one sequence operation to earlier bindings (so every composition of lazy representations arises) with indices at the interesting places, and records the result by plain list semantics; the interpreter must reproduce every binding, and all operands are read back at the end (persistence).",
            "Simulation (sampled) rather than exhaustive; infinite sequences compared on a prefix; operations left open by the documentation are not generated; every dumped representation tree (Empty / Array / Range / Map / Zip / Chain / Slice / Count) is accepted by XrSeqRepr (denoted length = reported length at every node, chain midpoints cumulative, slice bounds inside the source); XrStack covers push / tail / head / len / to_array(_reversed) / == / hash / seq + stack / add_rev / to_stack incl. stacks sharing element objects.",
            "DESIGN.md 6 C15"),
    "C16": ("model_checking",
            "TLA+ stream semantics of Generator (XrGen pool machine) walked by TLC -simulate; behaviours replayed, each generator consumed twice; needed-prefix (provenance) model in XrBound replayed against observed source evaluations",
            "TLC random-walks the XrGen machine over generator operations on finite and infinite sources and records every stream; every generator is consumed twice (re-iterability) and finite consumptions of infinite pipelines must terminate. Laziness: for every pipeline (source . adaptor* . sink, exhaustive to 1 / 2 adaptors) over an infinite source whose successor function prints, XrBound computes the number of source elements the demanded elements need; the number actually evaluated must lie between that and that plus 1 per adaptor (k + 1 for windows/chunks of k).",
            "Simulation is sampled; the look-ahead allowance is a chosen constant (the property says 'a constant per adaptor'); zip/flatten/product/with_count/enumerate are covered by the stream semantics but not by the provenance model.",
            "DESIGN.md 6 C16"),
    "C17": ("model_checking",
            "TLA+ finite-map semantics over equivalence classes: XrSetMix (every binary operation between sets of different (hash, equality) kinds), XrMap pool machine (-simulate) and XrMapEx (every linear history of <= 5 set / <= 4 mapping updates, breadth-first by TLC, read back as version tries) + TLA+ acceptor of bucket tables (XrMapRepr)",
            "TLC random-walks histories of mapping and set operations for a (hash, equality) pair drawn per program (identity / congruence mod 2, 3; hash injective / mod 2 / mod 3 / constant) and records the abstract map over equivalence classes; the interpreter must reproduce every version (all read back at the end: persistence) and every bucket table it built is validated by XrMapRepr (length exact, keys in the bucket of their hash, keys pairwise inequivalent).",
            "Keys are ints 0..5 (0..2 / 0..3 in the exhaustive tries), values ints; iteration order is not compared; hashes outside [0, 2^64) are not in this machine; the exhaustive part is complete within its bounds (3 keys, colliding hash, quick; more configurations thorough) and also compares == / hash between equal-size versions.",
            "DESIGN.md 6 C17"),
    "C18": ("model_checking",
            "TLA+ code-point-sequence semantics of str (XrStr pool machine, -simulate) + literal encoder; behaviours replayed; TLA+ acceptor of the dual string representation (XrStrRepr) over substring positions at and beyond the end; TLA+ acceptor of regex search / match answers in code points (XrRegex)",
            "TLC random-walks string operations (len, get, substring, find with start, rfind, contains, starts/ends_with, partition, rpartition, strip family, replace, reverse, mul, lower, upper, cmp, chars, add, split, code_point, eq) over an abstract alphabet of 1-4 byte characters, a combining mark and case-expanding characters and records results by list semantics (positions are code-point positions); the interpreter must agree and the dual representation of every result (byte buffer + character table) must be exact. Literal spellings are generated by encoding a text (quote kind, fences, raw, escapes, formatted) and must denote that text; formatted strings must equal the join of their parts.",
            "Negative substring / find positions, empty needles, the text returned for positions beyond the end (only its well-formedness is decided) and \\u{..} inside formatted strings are left open by the documentation and not generated (negative get indices are pinned by shipped script 089 and are generated).",
            "DESIGN.md 6 C18"),
    "C14": ("model_checking",
            "TLA+ arbitrary-precision oracle (XrBigInt: limb arithmetic + defining relations) as trace acceptor over integer-builtin calls; TLC checks the limb arithmetic itself (MC_XrBigInt)",
            "Every integer builtin result (add, sub, mul, neg, abs, cmp and the six relations, pow, floor division with floored mod, ceil division, bitwise and/or/xor, gcd, lcm, factorial, binomial, digits in 4 bases, to_str/to_int, literal vs to_int) for operand pairs across the 31/63/64/127-bit boundaries and random 1-400-bit values is an event that TLC accepts only if it is the exact result (recomputed in base-10^4 limbs or checked by the defining relation), if the Short/Long representation is canonical, and if values reached along two routes are equal, hash equally and print equally.",
            "int -> float -> int (floor / ceil / trunc) is checked on integers a double holds exactly (powers of two around 2^31 / 2^53 / 2^63 / 2^64 / 2^1023 and multiples); inexact float conversions and `div` are not (no reals in TLC); the whole binomial triangle (n <= 150 quick / 400 thorough) is checked through the step relation and two-part multinomials against binomials; not multinomials of more than three parts and the combinatorial index functions; gcd maximality relies on the interpreter's own gcd of the cofactors.",
            "DESIGN.md 6 C14"),
    "C19": ("model_checking",
            "TLA+ order/text/format semantics (XrOrder, laws checked by TLC) and stable-sort reference (XrSort) replayed; failing-comparator sweeps validated by XrRuntime",
            "TLC enumerates all typed value pairs of a 10-type nested universe with structural eq and lexicographic cmp (laws: equivalence, antisymmetry, transitivity, consistency, prefix rule checked on the model) and all well-formed integer format specifiers of the documented grammar x values; the interpreter's eq/ne/cmp/lt/le/gt/ge/to_str/format/hash must agree (equal => equal hash, hash in [0, 2^64)). Sort and order statistics are compared with the stable reference on inputs up to 200 elements; a comparator that raises a violation at the k-th comparison (every k) or an error on a poison element must give that outcome with accounting balanced (XrRuntime trace validation).",
            "Float formatting is decided for the fixed-point modes on dyadic values (exact decimal expansion; rounding ties left open), not for e/E; Stack/Set/Mapping text, median/rank functions and '^' odd padding are not covered. Equal mappings reached through different histories (XrMapEx) must be == and hash equally. Comparators failing on one ordered pair only are decided by a printing oracle (asked => that error; never asked => the stable permutation); stacks incl. shared element objects by XrStack; str format specifiers (width in characters) by XrOrder.",
            "DESIGN.md 6 C19"),
    "C20": ("model_checking",
            "TLA+ day-step calendar machine with closed forms proved against it by TLC (XrConv) replayed into date/julian_day/weekday/datetime/unix; fraction results as events accepted by the XrBigInt limb-arithmetic acceptor (cross-multiplication, lowest terms, positive denominator); inverse laws for radix text, code points and JSON replayed",
            "TLC walks every day of a +-150,000-day (quick) / +-3,000,100-day (thorough: the whole supported range) window forwards and backwards from 2000-01-01 with the leap-year rules as transitions and checks that the closed-form Julian-day/date/weekday functions agree with the walk in every state; those closed forms predict date(jdn), julian_day(date), weekday for the range ends, every century boundary and random days of +-3,000,000, and the day part of Unix times over +-10^11 s (seconds of the day incl. fractions split by the driver), and the interpreter must agree exactly. Fractions: every construction (int pairs to 2^70, floats by their exact ratio), + - * / and cmp is an event TLC accepts only if it is exact by cross-multiplication in limb arithmetic, in lowest terms with a positive denominator. to_int(text(x, b), b) for all b in 2..36, format b/o/x, to_str, chr/code_point over scalar values incl. surrogate edges (errors), and random JSON documents (serialise -> independent parser -> same document; deserialise(serialise(d)) == d) are replayed inverse laws.",
            "The JSON and radix/code-point clauses are differential inverse-law checks (Python's json is the independent parser), not TLC-decided; the quick calendar walk covers +-150,000 days (the thorough one the whole range); Duration arithmetic and Date/Datetime formatting are not covered.",
            "DESIGN.md 6 C20"),
    "C13": ("model_checking",
            "TLA+ value-shape acceptor (XrShape.AllFinite over IEEE-754 classes, recursively through containers) validating every value exported by generated literal / library-surface / composition programs",
            "Every float inside every exported value is recorded with its IEEE-754 class (zero, subnormal, normal, inf, nan) and TLC accepts the record only if no class is inf or nan anywhere in the value (sequences, tuples/structs, unions, optionals, mappings); a panic or hang is an event without an action. Inputs: literal spellings (overflowing exponents, 300-400-digit mantissas, underscores, default values, JSON text), all ~220 root-scope signatures that mention float/Complex/Duration/Datetime/Fraction/distributions with each parameter swept over 34 float and 20 integer edge values (0, -0, subnormals, +-1, domain edges, exp/gamma/square overflow thresholds, 1e308-scale, integers up to 10^400) and pairs of parameters, every distribution constructor x edge parameters x every method x edge arguments, and random operator/function compositions to depth 4.",
            "Bounded sampling of the double range by edge classes, not exhaustive; lazy sequences are forced for 16 elements; float values that exist only inside closures or never-exported intermediates are not observed.",
            "DESIGN.md 6 C13"),
    "C10": ("model_checking",
            "TLA+ demand model of generator pipelines (XrBound: TLC enumerates source . adaptor* . sink over finite / infinite / never-yielding streams and classifies each demand as value, error or diverge) replayed under configured limits with a watchdog; time-limit clause by XrRuntime trace validation",
            "Every pipeline of 9 sources x up to 2 adaptors (22) x 14 sinks is classified by the model; under search + call + size limits (two scales) every evaluation must stop before the watchdog, a diverging demand by a violation or an error value (values are compared with the model's as a conformance signal: 0 disagreements). The same watchdog sweep substitutes an infinite (count()) or huge (range(10^15)) sequence/generator and huge integers into every parameter of every root-scope signature and runs ~120 adversarial numeric / collection expressions and recursion shapes. Time-limited programs that sleep across the deadline or spin are traced and XrRuntime accepts the trace only if no user call (fresh or tail) begins after a TimeChk that found the deadline passed.",
            "Termination is observed (12 s watchdog for limits of a few thousand steps), not proved; search permits are not instrumented, so proportionality to the search limit is only seen through outcomes at two limit scales; builtins whose parameter types have no canonical inhabitant are not swept.",
            "DESIGN.md 6 C10"),
}

NOT_YET = {}


def main():
    props = [json.loads(l) for l in open(os.path.join(ROOT, "properties.jsonl"))]
    hooks_commits = subprocess.run(["git", "-C", "/repo", "log", "--format=%h %s"], capture_output=True,
                                   text=True).stdout.splitlines()
    hook_shas = [l.split()[0] for l in hooks_commits if l.split(" ", 1)[1].startswith("verif hooks")]
    checks = []
    na = []
    for p in props:
        pid = p["id"]
        if pid in CHECKS:
            cat, tech, text, note, ref = CHECKS[pid]
            checks.append({
                "property_id": pid,
                "quick_cmd": "bin/check %s --tier quick" % pid,
                "thorough_cmd": "bin/check %s --tier thorough" % pid,
                "evidence_file": "/verif/evidence/%s.json" % pid,
                "replay_cmd_template": "bin/check %s --replay {path}" % pid,
                "engine": "tlc+xv",
                "level_claimed": {"category": cat, "text": text, "design_ref": ref},
                "level_note": note,
                "technique": tech,
            })
        else:
            na.append({"property_id": pid,
                       "reason": NOT_YET.get(pid, "check not built yet in this session (build in progress; see DESIGN.md 10); the TLA+ technique applies and the property will be claimed when its check exists")})
    m = {
        "version": 1,
        "setup_cmd": "bin/setup",
        "hooks": {
            "guard": "xray_verif",
            "enable": "RUSTFLAGS --cfg xray_verif via /verif/harness/.cargo/config.toml (harness crate `xv` has a path dependency on /repo)",
            "baseline_off_cmd": "cd /repo && cargo test --workspace --no-fail-fast --offline",
            "source_commits": hook_shas,
            "add_only": True,
        },
        "engines": [
            {"name": "tlc+xv", "path": "/verif/bin/check",
             "serves_properties": sorted(CHECKS),
             "kind_free_text": "TLA+ specifications under /verif/spec checked with TLC; bound to the implementation by (A) replaying TLC-generated cases through the Rust runner /verif/harness (xv) and (B) validating event traces recorded by the cfg(xray_verif) hooks against Trace_* specifications"}
        ],
        "checks": checks,
        "not_applicable": na,
        "notes": "bin/check <ID> [--tier quick|thorough] [--replay path]; exit 0 held / 1 VIOLATION / 2 tool error. VERIF_SEED seeds TLC -seed and the Python drivers. known_findings.json lists genuine defects (fixed: entries suppress nothing).",
    }
    with open(os.path.join(ROOT, "MANIFEST.json"), "w") as f:
        json.dump(m, f, indent=1)
    print("MANIFEST.json:", len(checks), "checks,", len(na), "not_applicable")


if __name__ == "__main__":
    main()
