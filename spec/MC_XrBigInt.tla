----------------------------- MODULE MC_XrBigInt -----------------------------
(* The limb arithmetic of XrBigInt agrees with TLC's native integers wherever both apply. *)
EXTENDS XrBigInt
RECURSIVE ValM(_, _)
ValM(m, i) == IF i > Len(m) THEN 0 ELSE m[i] + B * ValM(m, i + 1)
Val(x) == IF x.neg THEN -ValM(x.mag, 1) ELSE ValM(x.mag, 1)
Range == {-20001, -10000, -9999, -123, -1, 0, 1, 2, 7, 9999, 10000, 10001, 12345, 20000}
ASSUME \A a \in Range : Val(Small(a)) = a
ASSUME \A a \in Range, b \in Range :
    /\ Val(Add(Small(a), Small(b))) = a + b
    /\ Val(Sub(Small(a), Small(b))) = a - b
    /\ Val(Mul(Small(a), Small(b))) = a * b
    /\ Cmp(Small(a), Small(b)) = (IF a < b THEN -1 ELSE IF a > b THEN 1 ELSE 0)
ASSUME \A a \in {-3, -1, 2, 10}, n \in 0..6 : Val(PowN(Small(a), n)) = a ^ n
ASSUME \A a \in {0, 1, 9999, 10000, 123456}, d \in {1, 2, 7, 16, 9999} :
    LET m == Small(a).mag  sd == ShortDiv(m, d, Len(m), 0) IN sd.r = a % d
ASSUME FitsShort(Small(5)) /\ ~FitsShort(P63) /\ FitsShort(Neg(P63)) /\ ~FitsShort(Sub(Neg(P63), Small(1)))
ASSUME \A a \in {-7, 7, 0, 13}, b \in {3, 5} :
    /\ DivModFloorOK(Small(a), Small(b), Small((a - (a % b)) \div b), Small(a % b))
    \* negative divisor: -7 = 2 * (-3) + (-1),  7 = (-3) * (-3) + (-2)
    /\ DivModFloorOK(Small(-7), Small(-3), Small(2), Small(-1))
    /\ DivModFloorOK(Small(7), Small(-3), Small(-3), Small(-2))
    /\ ~DivModFloorOK(Small(7), Small(-3), Small(-2), Small(1))      \* truncated remainder is refused
=============================================================================
