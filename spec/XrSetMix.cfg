SPECIFICATION Spec
CONSTANTS Eqm = 3
INVARIANT Emit
INVARIANT KindOfLeft
CHECK_DEADLOCK FALSE
