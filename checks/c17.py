"""C17 - Mappings and sets are finite maps under any consistent hash.

Decided by XrMap: TLC random-walks histories of mapping operations (set, set_default, lookup,
get/2, get/3, contains, pop, discard, update from pairs / from a mapping, update_counter, len,
clear, ==) and set operations (add, remove, discard, contains, update, | & - ^, ==, <=, <, >=,
is_disjoint, len, clear) for a hash/equality pair drawn per program (identity or congruence
modulo 2/3; hash injective, mod 2, mod 3 or constant) and records the abstract finite map over
equivalence classes; all versions are read back at the end (persistence).  The bucket tables of
every version are validated by the TLA+ acceptor XrMapRepr (length exact, every key in the
bucket of its hash, keys pairwise inequivalent)."""
import json
import re

import coregen
import poolcheck
import vf

LEVEL = "model_checking"


def mk(eqm, hm):
    cls = "x" if eqm == 0 else "(x %% %d)" % eqm
    h = "(x: int) -> {%s %% %d}" % (cls, hm)
    e = "(a: int, b: int) -> {a == b}" if eqm == 0 else "(a: int, b: int) -> {a %% %d == b %% %d}" % (eqm, eqm)
    return h, e


def exhaustive(chk, kind, keys, n, eqm, hm, name):
    """XrMapEx: every linear history of <= n updates, assembled into tries of versions (one `let` per
    version, derived from its parent), every version read back; bucket tables to XrMapRepr."""
    d = vf.workdir("c17-ex-cfg-" + name)
    cfg = d + "/XrMapEx.cfg"
    with open(cfg, "w") as f:
        f.write('SPECIFICATION Spec\nCONSTANTS Kind = "%s"\n Keys = {%s}\n N = %d\n Eqm = %d\n Hm = %d\nINVARIANT Emit\n'
                'PROPERTY OnlyTheKeyChanges\nCHECK_DEADLOCK FALSE\n' % (kind, ", ".join(map(str, keys)), n, eqm, hm))
    r = vf.tlc("XrMapEx", cfg, "c17-ex-" + name, workers=4, timeout=3000)
    if not r.ok:
        raise vf.ToolError("XrMapEx failed:\n" + r.out[-2500:])
    chk.add_tlc(r)
    nodes = {}
    for c in r.cases():
        nodes[tuple((o["op"], o["k"], o["v"]) for o in c["ops"])] = c
    h, e = mk(eqm, hm)
    root = ("let n0: Mapping<int, int> = mapping(%s, %s);\n" if kind == "map" else "let n0 = set(%s, %s);\n") % (h, e)

    def step(parent, o):
        op, k, v = o
        if op in ("set", "set_default"):
            return "%s.%s(%d, %d)" % (parent, op, k, v)
        return "%s.%s(%d)" % (parent, op, k)

    groups = {}
    for key in nodes:
        groups.setdefault(key[:2], []).append(key)
    jobs, jmeta, jrels = [], {}, {}
    for gi, (pre, members) in enumerate(sorted(groups.items())):
        members.sort(key=lambda k: (len(k), k))
        names, lines = {(): "n0"}, [root]
        need = [pre[:i] for i in range(1, len(pre) + 1)] + [m for m in members if len(m) > len(pre)]
        seen = set()
        for key in need:
            if key in seen or key == ():
                continue
            seen.add(key)
            names[key] = "n%d" % len(names)
            lines.append("let %s = %s;\n" % (names[key], step(names[key[:-1]], key[-1])))
        # relations between versions of equal size: == / <= must follow the abstract values, and equal
        # collections hash equally - whatever buckets they happen to share
        bysize = {}
        for key, nm in names.items():
            c = nodes.get(key)
            if c is not None and not c["err"] and len(c["v"]) >= 1:
                bysize.setdefault(len(c["v"]), []).append((key, nm))
        rels = []
        for sz, members2 in sorted(bysize.items()):
            seen_vals = {}
            for key, nm in members2:
                seen_vals.setdefault(json.dumps(nodes[key]["v"]), []).append((key, nm))
            reps = [v[0] for v in seen_vals.values()]
            pairs = [(reps[a], reps[b]) for a in range(len(reps)) for b in range(a + 1, len(reps))][:40]
            pairs += [(v[0], v[-1]) for v in seen_vals.values() if len(v) > 1][:20]      # equal values reached by different histories
            for (ka, na), (kb, nb) in pairs:
                rn = "r%d" % len(rels)
                equal = nodes[ka]["v"] == nodes[kb]["v"]
                lines.append("let %s = (%s == %s, %s);\n" % (rn, na, nb, "%s.hash() == %s.hash()" % (na, nb) if equal else "true"))
                rels.append((rn, ka, kb, equal))
        # the same contents inserted afresh in descending key order (another order inside every shared bucket)
        twins = {}
        for key, nm in list(names.items()):
            c = nodes.get(key)
            if c is None or c["err"] or len(c["v"]) < 2 or json.dumps(c["v"]) in twins:
                continue
            twins[json.dumps(c["v"])] = nm
            items = sorted(c["v"], reverse=True)
            tw = "n0" + "".join((".set(%d, %d)" % (it[0], it[1])) if kind == "map" else (".add(%d)" % it) for it in items)
            rn = "r%d" % len(rels)
            lines.append("let %s = (%s == %s, %s.hash() == (%s).hash());\n" % (rn, nm, tw, nm, tw))
            rels.append((rn, key, key, True))
        jid = "%s-g%d" % (name, gi)
        jobs.append({"id": jid, "src": "".join(lines), "observe": list(names.values()) + [r[0] for r in rels], "limits": {"calls": 2000000}, "timeout_ms": 60000})
        jmeta[jid] = names
        jrels[jid] = rels
    res = vf.run_jobs(jobs, "c17-ex-" + name)
    cls = (lambda x: x) if eqm == 0 else (lambda x: x % eqm)
    tables, checked = [], 0
    for j in jobs:
        o = res[j["id"]]
        oc = vf.job_outcome(o)
        if oc != "ok":
            chk.violation("history trie: %s %s" % (oc, str(o.get("compile", {}).get("msg") or o.get("inst") or o.get("crash"))[:300]),
                          {"kind": "map", "source": j["src"], "observed": oc})
            continue
        for key, nm in jmeta[j["id"]].items():
            c = nodes.get(key)
            if c is None:
                continue
            checked += 1
            chk.count(1)
            dv = o["values"].get(nm) or {}
            if c["err"]:
                good = dv.get("t") == "err"
            elif kind == "set":
                good = dv.get("t") == "set" and sorted(cls(int(x["k"]["v"])) for x in dv["entries"]) == c["v"] and dv["len"] == len(c["v"])
            else:
                good = dv.get("t") == "map" and sorted([cls(int(x["k"]["v"])), int(x["v"]["v"])] for x in dv["entries"]) == [list(p) for p in c["v"]] \
                    and dv["len"] == len(c["v"])
            if good and not c["err"]:
                tables.append({"ev": "Table", "eqm": eqm, "hm": hm, "len": dv["len"], "hs": [int(x["h"]) for x in dv["entries"]],
                               "ks": [int(x["k"]["v"]) for x in dv["entries"]], "bn": [x["n"] for x in dv["buckets"]], "_job": j["id"], "_bind": nm})
            if not good:
                hist = ".".join("%s(%s)" % (op, k if op not in ("set", "set_default") else "%d, %d" % (k, v)) for op, k, v in key)
                chk.violation("%s history %s (eq mod %d, hash mod %d): expected %s, observed %s" %
                              (kind, hist, eqm, hm, "an error value" if c["err"] else json.dumps(c["v"]), json.dumps(dv)[:240]),
                              {"kind": "map", "source": j["src"], "binding": nm, "expected": c, "observed": dv},
                              finding_key="history:%s:%s" % (kind, ".".join(op for op, _, _ in key)))
    nrel = 0
    for j in jobs:
        o = res[j["id"]]
        if vf.job_outcome(o) != "ok":
            continue
        for rn, ka, kb, equal in jrels[j["id"]]:
            nrel += 1
            chk.count(1)
            dv = o["values"].get(rn) or {}
            got = [x.get("v") for x in dv.get("v", [])] if dv.get("t") == "struct" else None
            if got != [equal, True]:
                ha = ".".join("%s(%s)" % (op, k) for op, k, v in ka)
                hb = ".".join("%s(%s)" % (op, k) for op, k, v in kb)
                chk.violation("%s versions %s = %s and %s = %s (eq mod %d, hash mod %d): (==, equal hashes) expected (%s, true), observed %s" %
                              (kind, ha, json.dumps(nodes[ka]["v"]), hb, json.dumps(nodes[kb]["v"]), eqm, hm, str(equal).lower(), json.dumps(dv)[:160]),
                              {"kind": "map", "source": j["src"], "binding": rn, "expected": [equal, True], "observed": dv},
                              finding_key="history-eq:%s" % kind)
    for t in vf.accept_records(chk, "XrMapRepr", tables, "c17-ex-repr-" + name):
        src = [j["src"] for j in jobs if j["id"] == t["_job"]][0]
        chk.violation("bucket table of %s violates the representation invariant: %s" % (t["_bind"], json.dumps({k2: v for k2, v in t.items() if not k2.startswith("_")})),
                      {"kind": "map-repr", "source": src, "binding": t["_bind"], "table": t})
    chk.part("exhaustive_" + name, kind=kind, keys=len(keys), max_history=n, eq_mod=eqm, hash_mod=hm, histories=len(nodes), versions_read_back=checked,
             relations_checked=nrel, tables_validated=len(tables))
    return len(nodes)


def mixed(chk, eqm, const_hash, name):
    """XrSetMix: binary set operations whose operands were built with different (hash, equality) pairs."""
    d = vf.workdir("c17-mix-cfg-" + name)
    cfg = d + "/XrSetMix.cfg"
    with open(cfg, "w") as f:
        f.write("SPECIFICATION Spec\nCONSTANTS Eqm = %d\nINVARIANT Emit\nINVARIANT KindOfLeft\nCHECK_DEADLOCK FALSE\n" % eqm)
    r = vf.tlc("XrSetMix", cfg, "c17-mix-" + name, workers=1, timeout=600)
    if not r.ok:
        raise vf.ToolError("XrSetMix failed:\n" + r.out[-2500:])
    chk.add_tlc(r)
    cases = r.cases()
    hashf = "(x: int) -> {0}" if const_hash else "(x: int) -> {x %% %d}" % eqm
    head = "let ka = set(%s, (p: int, q: int) -> {p %% %d == q %% %d});\nlet kb = set<int>();\n" % (hashf, eqm, eqm)
    sym = {"bit_and": "&", "bit_or": "|", "bit_xor": "^", "sub": "-"}
    np_ = 2 * eqm + 1
    jobs, meta = [], {}
    for b0 in range(0, len(cases), 16):
        chunk = cases[b0:b0 + 16]
        lines = [head]
        for k, c in enumerate(chunk):
            lines.append("let a%d = ka.update(%s);\nlet b%d = kb.update(%s);\n" % (k, json.dumps(c["a"]), k, json.dumps(c["b"])))
            x, y = ("a%d" % k, "b%d" % k) if c["left"] == "A" else ("b%d" % k, "a%d" % k)
            lines.append("let r%d = %s %s %s;\n" % (k, x, sym[c["op"]], y))
            lines.append("let o%d = (r%d.len(), a%d.len(), b%d.len(), [%s], [%s]);\n" % (
                k, k, k, k, ", ".join("r%d.contains(%d)" % (k, p) for p in range(np_)), ", ".join("r%d.add(%d).len()" % (k, p) for p in range(np_))))
        jid = "%s-%d" % (name, b0)
        jobs.append({"id": jid, "src": "".join(lines), "observe": ["o%d" % k for k in range(len(chunk))], "limits": {"calls": 2000000}, "timeout_ms": 60000})
        meta[jid] = chunk
    res = vf.run_jobs(jobs, "c17-mix-" + name)
    for j in jobs:
        o = res[j["id"]]
        if vf.job_outcome(o) != "ok":
            chk.violation("mixed-kind set program: %s %s" % (vf.job_outcome(o), str(o.get("compile", {}).get("msg") or o.get("inst") or o.get("crash"))[:300]),
                          {"kind": "map", "source": j["src"], "observed": vf.job_outcome(o)})
            continue
        for k, c in enumerate(meta[j["id"]]):
            chk.count(1)
            chk.nontrivial([name, c["a"], c["b"], c["op"], c["left"]])
            dv = o["values"].get("o%d" % k) or {}
            try:
                f = dv["v"]
                got = [int(f[0]["v"]), int(f[1]["v"]), int(f[2]["v"]), [x["v"] for x in f[3]["v"]], [int(x["v"]) for x in f[4]["v"]]]
            except Exception:
                got = None
            want = [c["len"], c["alen"], c["blen"], c["has"], c["addlen"]]
            if got != want:
                x, y = ("a", "b") if c["left"] == "A" else ("b", "a")
                chk.violation("a = (eq mod %d).update(%s), b = set<int>().update(%s), r = %s %s %s: (len, a.len, b.len, contains(0..%d), add(p).len) expected %s, observed %s" %
                              (eqm, c["a"], c["b"], x, sym[c["op"]], y, np_ - 1, json.dumps(want), json.dumps(got if got is not None else dv)[:200]),
                              {"kind": "map", "source": j["src"], "binding": "o%d" % k, "expected": want, "observed": dv},
                              finding_key="mixed:%s:%s" % (c["op"], c["left"]))
    chk.part("mixed_" + name, eq_mod=eqm, constant_hash=const_hash, cases=len(cases))


def run(chk, tier, seed, name="c17"):
    n = 2000 if tier == "quick" else 8000
    if tier == "dev":
        n = 600
    r = vf.tlc("XrMap", "XrMap.cfg", name, simulate=n, depth=16, seed=seed, timeout=3000)
    cases = r.cases()
    if not cases or "Error:" in r.out:
        raise vf.ToolError("XrMap failed:\n" + r.out[-2500:])
    chk.add_tlc(r)
    jobs = []
    for i, c in enumerate(cases):
        h, e = mk(c["eqm"], c["hm"])
        lines = []
        for b in c["binds"]:
            t = b["term"]
            if t.get("k") == "raw" and t["src"] == "MK_MAP":
                lines.append("let %s: Mapping<int, int> = mapping(%s, %s);" % (b["n"], h, e))
            elif t.get("k") == "raw" and t["src"] == "MK_SET":
                lines.append("let %s = set(%s, %s);" % (b["n"], h, e))
            else:
                lines.append("let %s = %s;" % (b["n"], coregen.rexpr(t)))
        jobs.append({"id": "m%d" % i, "src": "\n".join(lines) + "\n", "observe": [b["n"] for b in c["binds"]],
                     "limits": {"calls": 500000}, "timeout_ms": 30000, "max_elems": 64})
    res = vf.run_jobs(jobs, name)
    chk.count(len(jobs))
    tables = []
    for j, c in zip(jobs, cases):
        o = res[j["id"]]
        oc = vf.job_outcome(o)
        chk.nontrivial(j["src"])
        if oc != "ok":
            chk.violation("mapping/set program: %s %s" % (oc, str(o.get("compile", {}).get("msg") or o.get("inst"))[:300]),
                          {"kind": "map", "source": j["src"], "observed": oc, "case": c})
            continue
        eqm = c["eqm"]
        cls = (lambda x: x) if eqm == 0 else (lambda x: x % eqm)
        for b in c["binds"]:
            d = o["values"].get(b["n"])
            exp = b["v"]
            good = True
            if exp["t"] == "absmap":
                if d.get("t") != "map":
                    good = False
                else:
                    got = sorted([cls(int(e["k"]["v"])), int(e["v"]["v"])] for e in d["entries"])
                    good = got == [list(p) for p in exp["v"]] and d["len"] == len(exp["v"])
                    tables.append({"ev": "Table", "eqm": eqm, "hm": c["hm"], "len": d["len"],
                                   "hs": [int(e["h"]) for e in d["entries"]], "ks": [int(e["k"]["v"]) for e in d["entries"]],
                                   "bn": [x["n"] for x in d["buckets"]], "_job": j["id"], "_bind": b["n"]})
            elif exp["t"] == "absset":
                if d.get("t") != "set":
                    good = False
                else:
                    got = sorted(cls(int(e["k"]["v"])) for e in d["entries"])
                    good = got == exp["v"] and d["len"] == len(exp["v"])
                    tables.append({"ev": "Table", "eqm": eqm, "hm": c["hm"], "len": d["len"],
                                   "hs": [int(e["h"]) for e in d["entries"]], "ks": [int(e["k"]["v"]) for e in d["entries"]],
                                   "bn": [x["n"] for x in d["buckets"]], "_job": j["id"], "_bind": b["n"]})
            elif exp["t"] in ("absbag", "absvals", "abspairs"):
                # iteration order is unspecified: compared as sorted classes / values / (class, value) pairs
                if d.get("t") != "seq" or d.get("len") is None:
                    good = False
                elif exp["t"] == "absbag":
                    good = sorted(cls(int(x["v"])) for x in d["v"]) == exp["v"]
                elif exp["t"] == "absvals":
                    good = sorted(int(x["v"]) for x in d["v"]) == exp["v"]
                else:
                    good = sorted([cls(int(x["v"][0]["v"])), int(x["v"][1]["v"])] for x in d["v"]) == [list(p) for p in exp["v"]]
            else:
                good = poolcheck.same_val(exp, poolcheck.norm(d))
            if not good:
                chk.violation("`let %s = %s;` (eq mod %d, hash mod %d): expected %s, observed %s" %
                              (b["n"], coregen.rexpr(b["term"]) if b["term"].get("k") != "raw" else b["term"]["src"], eqm, c["hm"],
                               json.dumps(exp)[:160], json.dumps(d)[:220]),
                              {"kind": "map", "source": j["src"], "binding": b["n"], "expected": exp, "observed": d, "case": c})
                break
    # representation invariants, decided by XrMapRepr
    for b in range(0, len(tables), 5000):
        chunk = tables[b:b + 5000]
        while chunk:
            d = vf.workdir("c17-repr")
            path = d + "/tables.ndjson"
            with open(path, "w") as f:
                for t in chunk:
                    f.write(json.dumps({k: v for k, v in t.items() if not k.startswith("_")}) + "\n")
            rr = vf.tlc("XrMapRepr", "XrMapRepr.cfg", "c17-repr-tlc", workers=1, env={"TRACE": path}, dfs=True)
            chk.add_tlc(rr)
            chk.cov["traces_validated_against_impl"] += 1
            if '"TRACE_ACCEPTED"' in rr.out:
                break
            m = re.search(r'<<"TRACE_REJECTED_AT", (\d+),', rr.out)
            if not m:
                raise vf.ToolError("XrMapRepr failed:\n" + rr.out[-2000:])
            k = int(m.group(1)) - 1
            t = chunk[k]
            src = [j["src"] for j in jobs if j["id"] == t["_job"]][0]
            chk.violation("bucket table of %s violates the representation invariant: %s" % (t["_bind"], json.dumps({k2: v for k2, v in t.items() if not k2.startswith("_")})),
                          {"kind": "map-repr", "source": src, "binding": t["_bind"], "table": t})
            chunk = chunk[k + 1:]
    chk.part("histories", programs=len(jobs), tables_validated=len(tables))
    if tier != "dev":
        mixed(chk, 3, False, "mix3")
        mixed(chk, 2, True, "mix2c")
        exhaustive(chk, "set", [0, 1, 2], 5, 0, 2, "set-h2")
        exhaustive(chk, "map", [0, 1, 2], 4, 0, 2, "map-h2")
        if tier == "thorough":
            exhaustive(chk, "set", [0, 1, 2, 3], 5, 0, 2, "set4-h2")
            exhaustive(chk, "set", [0, 1, 2, 3], 5, 2, 1, "set4-e2h1")
            exhaustive(chk, "map", [0, 1, 2], 5, 0, 1, "map-h1")
            exhaustive(chk, "map", [0, 1, 2, 3], 4, 3, 2, "map4-e3h2")
        chk.cov["exhaustive"] = True
    chk.sample({"source": jobs[len(jobs) // 2]["src"][:900], "eq_mod": cases[len(jobs) // 2]["eqm"], "hash_mod": cases[len(jobs) // 2]["hm"]})
    chk.cov["rule"] = ("TLC -simulate walks of XrMap: 14 operations per history over keys 0..5, (hash, eq) drawn per program from "
                       "{identity, mod 2, mod 3} x {injective, mod 2, mod 3, constant}; every version read back at the end; "
                       "non-trivial = distinct rendered program; plus XrMapEx: EVERY linear history of <= 5 set updates (add, discard, "
                       "remove) / <= 4 mapping updates (set, set_default, discard, pop) over 3 keys with a colliding hash, model-checked "
                       "breadth-first by TLC and read back version by version (exhaustive within these bounds); plus XrSetMix: every "
                       "binary set operation (&, |, ^, -) between a set over residue classes and a default set, every pair of subsets, both "
                       "operand orders: the result behaves as a set of the left operand's kind")
    chk.assumptions += ["hashes outside [0, 2^64) are covered by C19/C17 templates only", "iteration order is not compared (entries are compared as sorted class/value pairs)"]


def replay(chk, path):
    rp = json.load(open(path))
    o = vf.run_jobs([{"id": "r", "src": rp["source"], "observe": [rp.get("binding", "m1")], "limits": {"calls": 500000}}], "replay")["r"]
    oc = vf.job_outcome(o)
    chk.count(1)
    chk.nontrivial("replay")
    chk.nontrivial(rp["source"])
    chk.sample({"source": rp["source"][:400], "outcome": oc, "value": o.get("values")})
    if oc != "ok" or ("observed" in rp and o["values"].get(rp["binding"]) == rp["observed"]):
        chk.violation("still deviates", rp)
    return chk.finish()
