SPECIFICATION TSpec
INVARIANT RuntimeInv
POSTCONDITION Accepted
CHECK_DEADLOCK FALSE
