------------------------------- MODULE XrPerm -------------------------------
(***************************************************************************)
(* Permissions (interop/permissions.md): every effectful builtin checks    *)
(* its permission before it touches the injected writer / clock / random   *)
(* source / regex compiler / sleep; a refused permission is the            *)
(* PermissionError violation naming it and nothing is touched.             *)
(*                                                                         *)
(* The machine runs an *effect plan* (the effect sites a program reaches,  *)
(* in evaluation order) through the Perm / Effect actions of XrRuntime,    *)
(* for every permission assignment TLC is asked to enumerate, and emits    *)
(* the predicted outcome and the number of touches per effect kind.        *)
(*   env PLANS = ndjson: {id, sites: [{perm, kind}], assigns: "full"|...}   *)
(***************************************************************************)
EXTENDS XrRuntime, Json, IOUtils, SequencesExt

Plans == ndJsonDeserialize(IOEnv.PLANS)
Kinds == {"write", "clock", "rng", "rng_new", "regex", "sleep"}

VARIABLES pl,      \* index of the plan
          pc,      \* next site of the plan
          touched  \* [Kinds -> Nat] effects that happened
pvars == <<rvars, pl, pc, touched>>

AssignChoices(p) ==
    \* all three settings for the permissions the plan needs, crossed with every setting of one
    \* further permission (the others stay unset = default); "full" plans take all 3^6
    LET need == {p.sites[i].perm : i \in 1..Len(p.sites)}
    IN IF p.assigns = "full" THEN [PermIds -> {"allow", "forbid", "unset"}]
       ELSE {f \in [PermIds -> {"allow", "forbid", "unset"}] :
                Cardinality({q \in PermIds \ need : f[q] # "unset"}) <= 1}

NoLim == [size |-> NoLimit, depth |-> NoLimit, recursion |-> NoLimit, calls |-> NoLimit,
          search |-> NoLimit, time |-> NoLimit]

PInit ==
    /\ Init
    /\ pl \in 1..Len(Plans) /\ pc = 0 /\ touched = [k \in Kinds |-> 0]

Begin ==
    /\ pc = 0 /\ phase = "Fresh"
    /\ \E a \in AssignChoices(Plans[pl]) : InstBegin(0, NoLim, a)
    /\ pc' = 1 /\ UNCHANGED <<pl, touched>>

\* one effect site: the permission check, then (only if it passed) the effect
Check ==
    /\ phase = "Inst" /\ pc >= 1 /\ pc <= Len(Plans[pl].sites) /\ doomed = "none"
    /\ grant[Plans[pl].sites[pc].perm] = 0
    /\ Perm(Plans[pl].sites[pc].perm, Allowed(Plans[pl].sites[pc].perm))
    /\ UNCHANGED <<pl, pc, touched>>

Touch ==
    /\ phase = "Inst" /\ pc >= 1 /\ pc <= Len(Plans[pl].sites) /\ doomed = "none"
    /\ grant[Plans[pl].sites[pc].perm] = 1
    /\ Effect(Plans[pl].sites[pc].kind)
    /\ touched' = [touched EXCEPT ![Plans[pl].sites[pc].kind] = @ + 1]
    /\ pc' = pc + 1 /\ UNCHANGED pl

Done == pc > Len(Plans[pl].sites) \/ doomed # "none"

PNext == Begin \/ Check \/ Touch \/ (pc >= 1 /\ Done /\ UNCHANGED pvars)
PSpec == PInit /\ [][PNext]_pvars

\* A permission set is configured by a history of allow / forbid calls; the setting of a permission is
\* that of the LAST call naming it (its documented default if none does).  For every assignment the
\* model also emits a history that first sets each configured permission the other way round.
IdSeq == SetToSeq(PermIds)
RECURSIVE HistoryFrom(_, _)
HistoryFrom(a, i) ==
    IF i > Len(IdSeq) THEN <<>>
    ELSE LET q == IdSeq[i] IN
         (IF a[q] = "unset" THEN <<>> ELSE <<[id |-> q, allow |-> a[q] # "allow"]>>) \o HistoryFrom(a, i + 1)
History(a) == HistoryFrom(a, 1) \o
              SelectSeq([i \in 1..Len(IdSeq) |-> [id |-> IdSeq[i], allow |-> a[IdSeq[i]] = "allow"]], LAMBDA o : a[o.id] # "unset")
RECURSIVE LastFor(_, _, _)
LastFor(ops, q, i) == IF i = 0 THEN "unset" ELSE IF ops[i].id = q THEN (IF ops[i].allow THEN "allow" ELSE "forbid") ELSE LastFor(ops, q, i - 1)
FinalOf(ops) == [q \in PermIds |-> LastFor(ops, q, Len(ops))]
HistoryMeansLastCall == phase # "Fresh" => FinalOf(History(perm)) = perm

Emit ==
    (pc >= 1 /\ Done) =>
        PrintT(<<"CASE", ToJson([id |-> Plans[pl].id, perms |-> perm, outcome |-> doomed,
                                 touched |-> touched, history |-> History(perm)])>>)

\* the property on the model: nothing is ever touched under a permission that is not allowed,
\* and a refused check is the violation naming that permission with nothing touched after it
NeverTouchedWithoutPermission ==
    \A k \in Kinds : touched[k] > 0 => \E p \in PermsFor(k) : Allowed(p)
RefusalNamesPermission ==
    doomed # "none" => \E p \in PermIds : doomed = PermViolation(p) /\ ~Allowed(p)
=============================================================================
