"""C06 - Errors propagate as values; violations cannot be caught.

Decided by XrEval's strict-call rule (the leftmost error argument is the result; only the
documented short-circuit / error-handling functions drop or inspect one) and its violation
rule (a violation ends the evaluation whatever encloses the tripping call), evaluated by TLC
for (a) error-heavy generated programs, (b) every root-scope signature of the implementation
with an error injected at every argument position, (c) programs whose limit trips inside
if_error / is_error / get_error / Optional-or / then / map callbacks, for every limit value;
and by XrRuntime on the recorded traces (the host receives the first violation raised)."""
import json
import random

import coregen
import corecheck
import surface
import vf
from checks import c07

LEVEL = "model_checking"

# the functions whose book entry says "short-circuiting", and the error inspectors; error
# arguments of these are handled as documented (XrEval.EvCall), not by the strict rule
DOCUMENTED = {"if", "and", "or", "then", "if_error", "is_error", "get_error", "map", "map_or", "get"}
NOLIM = {"calls": -1, "depth": -1, "rec": -1, "search": -1}


def surface_programs(tier):
    """one program per signature: f(args) with error("E<i>") at position i, for every i, and
    pairs of positions (the leftmost must win)"""
    progs = []
    for si, sig in enumerate(surface.static_signatures()):
        name = sig["name"]
        if name.startswith("__") or name in surface.SKIP or name == "error":
            continue
        try:
            pts, _ = surface.instantiate(sig)
            inhs = [surface.inhabitants(p) for p in pts]
        except surface.NoInhabitant:
            continue
        if not inhs:
            continue
        base = [x[0] for x in inhs]
        # the other arguments in several shapes (empty / lazy / absent containers take other paths through a builtin)
        variants = [base]
        for j, xs in enumerate(inhs):
            for alt in xs[1:(4 if tier == "thorough" else 3)]:
                v = list(base)
                v[j] = alt
                variants.append(v)
        short = name in DOCUMENTED
        decls = []
        for vi, args in enumerate(variants):
            positions = [[i] for i in range(len(args))]
            if len(args) >= 2 and vi == 0:
                positions += [[i, j] for i in range(len(args)) for j in range(i + 1, len(args))][:3]
            for pos in positions:
                if short and pos != [0]:
                    continue        # non-first arguments of documented short-circuit functions
                if name in ("is_error", "get_error", "if_error"):
                    continue
                if vi > 0 and all(args[i] == base[i] for i in range(len(args)) if i not in pos):
                    continue        # the varied argument is the one replaced by the error
                a = []
                for i, (src, pt) in enumerate(zip(args, pts)):
                    if i in pos:
                        a.append({"k": "call", "f": "error", "sty": "fn", "cast": surface.render_type(pt),
                                  "args": [{"k": "lit", "ty": "str", "v": "E%d" % i}]})
                    else:
                        a.append({"k": "raw", "src": src})
                decls.append({"k": "let", "n": "e" + "_".join(map(str, pos)) + ("v%d" % vi if vi else ""), "ty": "", "annot": False,
                              "e": {"k": "call", "f": "__native", "rname": name, "args": a, "sty": "fn"}})
        if decls:
            progs.append({"id": "sig%d" % si, "decls": decls, "calls": [], "lim": dict(NOLIM), "sig": sig["text"]})
    return progs


def handler_programs():
    """user calls that trip a limit inside every error-handling / short-circuit construct"""
    V = lambda n: {"k": "var", "n": n}
    I = lambda i: {"k": "lit", "ty": "int", "v": i}
    C = lambda f, args, **kw: dict({"k": "call", "f": f, "args": args, "sty": "fn"}, **kw)
    loop = {"k": "fn", "n": "spin", "ovl": False, "rty": "int",
            "ps": [{"n": "n", "ty": "int", "hasdef": False}], "decls": [],
            "ret": C("if", [C("le", [V("n"), I(0)], sty="op"), I(0),
                            C("add", [I(1), C("spin", [C("sub", [V("n"), I(1)], sty="op")])], sty="op")])}
    pred = {"k": "lam", "ps": [{"n": "q", "ty": "int", "hasdef": False}], "decls": [], "rty": "bool",
            "ret": C("ge", [C("spin", [V("q")]), I(0)], sty="op")}
    mapper = {"k": "lam", "ps": [{"n": "q", "ty": "int", "hasdef": False}], "decls": [], "rty": "int",
              "ret": C("spin", [V("q")])}
    arr = {"k": "arr", "items": [I(1), I(2), I(3)]}
    bodies = [
        C("if_error", [C("spin", [I(4)]), I(0)]),
        C("is_error", [C("spin", [I(4)])]),
        C("get_error", [C("spin", [I(4)])]),
        C("opt_or_val", [C("then", [{"k": "lit", "ty": "bool", "v": True}, C("spin", [I(3)])]), I(5)]),
        C("if_error", [C("if_error", [C("spin", [I(2)]), C("spin", [I(3)])]), C("spin", [I(1)])]),
        C("map_arr", [arr, mapper]),
        C("nth", [arr, I(1), pred]),
        C("take_while", [arr, pred]),
        C("opt_map", [C("some", [I(3)]), mapper]),
        {"k": "arr", "items": [C("if_error", [C("spin", [I(2)]), I(0)]), C("spin", [I(1)])]},
    ]
    progs = []
    for i, b in enumerate(bodies):
        decls = [loop, {"k": "let", "n": "a", "ty": "", "annot": False, "e": b},
                 {"k": "fn", "n": "main", "ovl": False, "rty": "int", "ps": [], "decls": [
                     {"k": "let", "n": "z", "ty": "", "annot": False, "e": b}], "ret": I(1)}]
        progs.append({"id": "h%d" % i, "decls": decls, "calls": [{"op": "run", "fn": "main"}], "lim": dict(NOLIM)})
    return progs


def render_native(p):
    # surface programs call natives under their real name
    def fix(e):
        if isinstance(e, dict):
            if e.get("f") == "__native":
                e = dict(e, f=e["rname"])
            return {k: fix(v) for k, v in e.items()}
        if isinstance(e, list):
            return [fix(x) for x in e]
        return e
    return fix(p)


def default_error_programs():
    """an error passed explicitly for a parameter that has a default is the result of the call, like any other"""
    V = lambda n: {"k": "var", "n": n}
    I = lambda i: {"k": "lit", "ty": "int", "v": i}
    S = lambda s: {"k": "lit", "ty": "str", "v": s}
    C = lambda f, args, **kw: dict({"k": "call", "f": f, "args": args, "sty": "fn"}, **kw)
    err = lambda m: C("error", [S(m)], cast="int")
    P = lambda n, d=None: {"n": n, "ty": "int", "hasdef": d is not None, **({"def": d} if d is not None else {})}
    pick = {"k": "fn", "n": "pick", "ovl": False, "rty": "int", "ps": [P("x"), P("fallback", I(0))], "decls": [],
            "ret": C("if", [{"k": "call", "f": "gt", "args": [V("x"), I(0)], "sty": "op"}, V("x"), V("fallback")])}
    keep = {"k": "fn", "n": "keep", "ovl": False, "rty": "int", "ps": [P("x"), P("y", I(1)), P("z", I(2))], "decls": [],
            "ret": C("if_error", [V("y"), I(-1)])}
    decls = [pick, keep]
    calls = [C("pick", [I(5), err("boom")]), C("pick", [I(5)]), C("pick", [err("first"), err("second")]), C("pick", [I(-5), err("late")]),
             C("keep", [I(7), err("bang")]), C("keep", [I(7), I(3), err("third")]), C("keep", [I(7)]),
             C("if_error", [C("keep", [I(7), err("bang")]), I(-9)])]
    for i, c in enumerate(calls):
        decls.append({"k": "let", "n": "d%d" % i, "ty": "", "annot": False, "e": c})
    return [{"id": "deferr", "decls": decls, "calls": [], "lim": dict(NOLIM)}]


def callback_sweep(chk, tier):
    """Every static signature with a callable parameter gets a callback that recurses past the depth limit
    whenever it is invoked; the recorded trace is validated by XrRuntime: a doom event (a frame at the limit)
    followed by an `ok` outcome - the violation was swallowed somewhere - has no action."""
    prelude = "fn deep(n: int)->int { if(n <= 0, 0, 1 + deep(n - 1)) }\n"
    jobs = []
    for sig in surface.static_signatures():
        name = sig["name"]
        if name.startswith("__") or name in surface.SKIP:
            continue
        try:
            pts, ret = surface.instantiate(sig)
            canon = [surface.inhabitants(p)[0] for p in pts]
        except surface.NoInhabitant:
            continue
        nreq = sum(1 for _, r in sig["params"] if r)
        for i, p in enumerate(pts):
            if p.kind != "fn":
                continue
            try:
                r0 = surface.inhabitants(p.ret)[0]
            except surface.NoInhabitant:
                continue
            ps = ", ".join("a%d: %s" % (k, surface.render_type(a)) for k, a in enumerate(p.args))
            cb = "(%s) -> {if(deep(70) >= 0, %s, %s)}" % (ps, r0, r0)
            k = max(nreq, i + 1)
            args = list(canon[:k])
            args[i] = cb
            call = "%s(%s)" % (name, ", ".join(args))
            force = ".to_array()" if ret.kind == "app" and ret.name in ("Generator", "Sequence") else ""
            jobs.append({"id": "cb%d" % len(jobs), "src": prelude + "let r = %s%s;\n" % (call, force), "observe": ["r"], "limits": {"depth": 40},
                         "perms": {"regex": True}, "trace": True, "timeout_ms": 30000, "max_elems": 8, "_sig": sig["text"]})
    res = vf.run_jobs([{k: v for k, v in j.items() if not k.startswith("_")} for j in jobs], "c06-cb", timeout_ms=30000)
    ran = []
    tripped = 0
    for j in jobs:
        o = res[j["id"]]
        oc = vf.job_outcome(o)
        if oc == "compile_err":
            continue
        chk.count(1)
        chk.nontrivial(j["src"])
        ran.append(j)
        if oc == "inst_MaximumStackDepth":
            tripped += 1
        elif oc in ("crash", "timeout", "missing") or oc.endswith("panic"):
            chk.violation("%s: callback sweep %s" % (j["_sig"], oc), {"kind": "trace", "job": {k: v for k, v in j.items() if not k.startswith("_")}, "spec": "Trace_XrRuntime"},
                          finding_key="cb:%s:%s" % (j["_sig"], oc))
    n = vf.validate_job_traces(chk, [{k: v for k, v in j.items() if not k.startswith("_")} for j in ran], res, "c06-cb", what="callback-violation trace",
                               finding_key=lambda j, idx, ev, reason: "cbtrace:" + j["src"].split("let r = ")[1].split("(")[0])
    chk.part("callbacks", programs=len(ran), violation_reached_host=tripped, traces_accepted=n)


HANDLER_ALLOC_PROGRAMS = [
    ("""let big = "x" * 4000;
let e = error(big);
let g = get_error(e);
let h = if_error(e, "y" * 3000);
let i = is_error(e);
let j = get_error(if_error(e, error("w" * 2000)));
let o = some(big).or(some("v" * 1000));
fn main()->int { let k = get_error(error("z" * 2500)); k.value().len() + g.value().len() + h.len() + j.value().len() }
"""),
    ("""fn fail(n: int)->str { error("f" * n) }
let a = if_error(fail(3000), "m", "n" * 2000);
let b = [1, 2, 3].map((x: int) -> {get_error(fail(x * 1000)).value().len()}).to_array();
let c = is_error(fail(1500)) && is_error(get_error(fail(1800)).value() + "!");
fn main()->int { let d = get_error(fail(2200)).map((t: str) -> {t + t}); d.value().len() + b.sum() }
"""),
]


def handler_size_sweep(chk, tier):
    """the size limit tripping at EVERY allocation of programs that allocate inside the error handlers (get_error copies
    the message, if_error builds its alternative, ...): the host must receive AllocationLimitReached each time"""
    from checks import c09
    BIG = c09.BIG
    jobs = []
    for pi, src in enumerate(HANDLER_ALLOC_PROGRAMS):
        p = {"name": "handlers%d" % pi, "src": src, "limits": {}, "perms": {}}
        base = vf.run_jobs([c09.mkjob(p, BIG, "hb%d" % pi)], "c06-hbase", timeout_ms=120000)["hb%d" % pi]
        if vf.job_outcome(base) != "ok" or "events" not in base:
            chk.violation("handler program %d under no size limit: %s" % (pi, vf.job_outcome(base)), {"kind": "trace", "job": c09.mkjob(p, BIG, "hb")})
            continue
        totals = sorted({e["total"] for e in base["events"] if e["ev"] == "Alloc"})
        user = [t for t in totals if t > totals[len(totals) // 2]] if len(totals) > 40 else totals
        # every large allocation (the message copies and alternatives the handlers build) is a trip point, wherever its
        # running total lies; the highest totals are added
        large = sorted({e["total"] for e in base["events"] if e["ev"] == "Alloc" and e.get("size", 0) >= 900})
        pts = sorted(set(large[:(40 if tier == "quick" else 400)]) | set(user[-(10 if tier == "quick" else 300):]))
        for T in pts:
            jobs.append(c09.mkjob(p, T - 1, "h%d@%d" % (pi, T - 1)))
    res = vf.run_jobs(jobs, "c06-hsweep", timeout_ms=120000)
    chk.count(len(jobs))
    sample = jobs if tier == "thorough" else jobs[::6]
    # traces that go on allocating after their first refused allocation are validated as well, all of them (a handler
    # that swallows the refusal lets the run continue, and a later allocation may still end it with the same violation)
    sampled = {j["id"] for j in sample}
    for j in jobs:
        evs = res[j["id"]].get("events")
        if j["id"] in sampled or not evs:
            continue
        i = c09.first_refusal(evs, j["limits"]["size"])
        if i is not None and any(e["ev"] in ("Alloc", "CanAlloc") for e in evs[i + 1:]):
            sample = sample + [j]
    vf.validate_job_traces(chk, sample, res, "c06-hsweep", "size limit inside an error handler")
    for j in jobs:
        r = res[j["id"]]
        oc = vf.job_outcome(r)
        chk.nontrivial(j["id"])
        if "events" in r and c09.first_refusal(r["events"], j["limits"]["size"]) is not None and not oc.endswith("AllocationLimitReached"):
            chk.violation("an allocation inside an error handler was refused under L=%d but the host got %s" % (j["limits"]["size"], oc),
                          {"kind": "trace", "job": j, "reason": "refusal not reported"}, finding_key="handler-size")
    chk.part("handler_size_sweep", runs=len(jobs))


def run(chk, tier, seed):
    rnd = random.Random(seed)
    # (a) error-heavy programs
    n = 400 if tier == "quick" else 4000
    progs = [coregen.Gen(seed * 31 + i, max_depth=4, n_decls=6, p_err=0.25, p_disp=0.1).program("e%d" % i)
             for i in range(n)]
    # an error argument is the result of the call also on the trampoline path and for defaulted parameters
    progs += c07.error_arg_programs(limits=False) + default_error_programs()
    corecheck.run_core(chk, progs, "c06-errors")

    # (b) the whole surface, an error at every argument position
    sp = surface_programs(tier)
    cases, r = corecheck.tlc_expect(sp, "c06-surface")
    chk.add_tlc(r)
    jobs = []
    for p in sp:
        q = render_native(p)
        jobs.append({"id": p["id"], "src": coregen.render(q), "observe": [d["n"] for d in p["decls"]],
                     "perms": {"regex": True}})
    res = vf.run_jobs(jobs, "c06-surface")
    # a signature whose batch does not compile is re-run binding by binding
    solo, solo_of = [], {}
    for p, j in zip(sp, jobs):
        if vf.job_outcome(res[p["id"]]) != "ok":
            q = render_native(p)
            for d in q["decls"]:
                sid = "%s.%s" % (p["id"], d["n"])
                solo.append({"id": sid, "src": coregen.rdecl(d) + "\n", "observe": [d["n"]], "perms": {"regex": True}})
                solo_of[sid] = (p, d["n"])
    sres = vf.run_jobs(solo, "c06-surface-solo")
    n_calls = 0
    for p, j in zip(sp, jobs):
        c = cases[p["id"]]
        exp = {b["n"]: b["v"] for b in c["binds"]}
        for d in p["decls"]:
            n_calls += 1
            name = d["n"]
            if vf.job_outcome(res[p["id"]]) == "ok":
                obs = res[p["id"]]
            else:
                obs = sres.get("%s.%s" % (p["id"], name))
            oc = vf.job_outcome(obs)
            src = coregen.rdecl([x for x in render_native(p)["decls"] if x["n"] == name][0])
            chk.count(1)
            chk.nontrivial(src)
            if oc == "compile_err":
                continue        # the synthesised call is not accepted (overload ambiguity with the bottom type): not a C06 matter
            if oc != "ok":
                chk.violation("%s: %s" % (src, oc), {"kind": "surface", "source": src, "signature": p["sig"],
                                                     "expected": exp.get(name), "observed": oc,
                                                     "detail": {k: v for k, v in obs.items() if k in ("inst", "crash")}},
                              finding_key="surface:%s:%s" % (p["sig"], name))
                continue
            got = corecheck.norm_dump(obs["values"].get(name))
            if name in exp and not corecheck.same(exp[name], got):
                chk.violation("%s: expected %s, observed %s" % (src, json.dumps(exp[name]), json.dumps(got)[:200]),
                              {"kind": "surface", "source": src, "signature": p["sig"], "expected": exp[name], "observed": got},
                              finding_key="surface:%s:%s" % (p["sig"], name))
    chk.part("surface", signatures=len(sp), calls=n_calls)
    if sp:
        p = sp[len(sp) // 2]
        chk.sample({"signature": p["sig"], "source": coregen.render(render_native(p))[:400],
                    "expected": cases[p["id"]]["binds"][:3]})

    # (c) violations inside handlers, for every limit value
    hp = handler_programs()
    hp += [coregen.Gen(seed * 17 + i, max_depth=3, n_decls=6, native_only=True, p_err=0.1).program("v%d" % i)
           for i in range(60 if tier == "quick" else 600)]
    base, r0 = corecheck.tlc_expect(hp, "c06-hbase")
    chk.add_tlc(r0)
    variants = []
    for p in hp:
        if base[p["id"]]["taint"]:
            continue
        variants += corecheck.limit_variants(p, base[p["id"]], cap=(8 if tier == "quick" else 40), rnd=rnd)
    corecheck.run_core(chk, variants, "c06-violations", trace=True, limits_of=corecheck.xv_limits, validate=(True),
                       nontrivial=lambda p, c: c["viol"] != "none" or any(x.get("viol", "none") != "none" for x in c["runs"]))
    # (d) a violation raised inside a callback of any higher-order builtin reaches the host
    callback_sweep(chk, tier)
    handler_size_sweep(chk, tier)
    chk.cov["rule"] = ("(a) random core programs with error(\"E<k>\") injected at ~25% of expression positions; "
                       "(b) every static root-scope signature with canonical inhabitants and an error at each argument "
                       "position and at pairs; (c) handler templates and random programs under every value of each limit. "
                       "non-trivial = distinct program/call (for (c): a configuration in which a limit trips)")
    chk.assumptions += ["dynamic (factory) overloads and signatures without a canonical inhabitant (Regex, Match, LinearRegression) are not in the surface sweep",
                        "evaluation of arguments to the right of an error argument is left open"]


def replay(chk, path):
    rp = json.load(open(path))
    if rp.get("kind") == "surface":
        name = rp["source"].split(" ")[1]
        res = vf.run_jobs([{"id": "r", "src": rp["source"] + "\n", "observe": [name], "perms": {"regex": True}}], "replay")["r"]
        got = corecheck.norm_dump(res.get("values", {}).get(name)) if vf.job_outcome(res) == "ok" else {"t": vf.job_outcome(res)}
        chk.count(1)
        chk.nontrivial(rp["source"])
        chk.nontrivial("replay")
        chk.sample({"source": rp["source"], "observed": got})
        if not (isinstance(rp.get("expected"), dict) and corecheck.same(rp["expected"], got)):
            chk.violation("surface call still deviates: " + rp["source"], rp)
        return chk.finish()
    if rp.get("kind") == "trace":
        return vf.replay_trace_job(chk, rp)
    return corecheck.replay_core(chk, path)
