SPECIFICATION Spec
POSTCONDITION Accepted
CHECK_DEADLOCK FALSE
