"""C11 - Side effects happen only with permission.

Decided by XrPerm/XrRuntime: each program is a known *effect plan* (the effect sites it reaches,
in evaluation order).  TLC runs every plan through the Perm/Effect actions of XrRuntime for
every enumerated permission assignment (allow / forbid / unset, so the documented defaults are
exercised) and predicts the outcome (PermissionError naming the first refused permission, or
success) and which injected dependencies are touched.  The harness runs the program with
recording doubles for the writer, clock and random source (and hooks at the regex-compile and
sleep sites), compares outcome / touches / output, and the recorded traces are validated by
XrRuntime (an effect only after its own permission check passed; no effect once refused)."""
import json

import corpus
import vf

LEVEL = "model_checking"

P, D, N, R, X, S = "print", "print_debug", "now", "random", "regex", "sleep"
KIND = {P: "write", D: "write", N: "clock", R: "rng", X: "regex", S: "sleep"}


def templates():
    T = []

    def t(name, src, perms):
        T.append({"id": name, "src": src, "sites": [{"perm": p, "kind": KIND[p]} for p in perms]})
    t("display_direct", "let a = display(1);", [P])
    t("display_wrapper", "fn w(x: int)->int { display(x) }\nlet a = w(1);", [P])
    t("display_closure", "let f = (x: int) -> {display(x)};\nlet a = f(2);", [P])
    t("display_map", "let a = [1, 2].map((x: int) -> {display(x)}).to_array();", [P, P])
    t("display_lazy_elem", "let s = [1, 2, 3].map((x: int) -> {display(x)});\nlet a = s.get(1);", [P])
    t("display_default", "fn d(x: int ?= display(5))->int { x }\nlet a = d() + d();", [P])
    t("display_filter", "let a = [1, 2].filter((x: int) -> {display(x) > 0}).to_array();", [P, P])
    t("display_reduce", "let a = [1, 2, 3].reduce((p: int, q: int) -> {display(p + q)});", [P, P])
    t("display_nested_fn", "fn o(x: int)->int { fn i(y: int)->int { display(y) } i(x) + 1 }\nlet a = o(3);", [P])
    t("display_prefix", 'let a = display(1, "v=");', [P])
    t("debug_direct", "let a = debug(1);", [D])
    t("debug_in_lambda", "let f = (x: str) -> {debug(x)};\nlet a = f(\"s\");", [D])
    # every arity and several argument types of the two printing builtins (display is instantiated per type)
    t("debug_label", 'let a = debug(1, "lbl=");', [D])
    t("debug_label_map", 'let a = [1, 2].map((x: int) -> {debug(x, "e=")}).to_array();', [D, D])
    t("debug_label_mixed", 'let a = debug(1, "d=");\nlet b = display(2, "p=");\nlet c = debug("s");\nlet d = debug([1], "q");', [D, P, D, D])
    t("debug_types", 'struct Pt(x: int, y: str)\nlet a = debug(Pt(1, "s"), "pt");\nlet b = debug([1.5, 2.5]);\nlet c = debug(some(3), "o");', [D, D, D])
    t("display_types", 'let a = display("s", ">");\nlet b = display([1, 2]);\nlet c = display(1.5, "f=");\nlet d = display(true);\nlet e = display((1, "x"), "t");', [P, P, P, P, P])
    t("display_method", 'let a = 1.display("m=");\nlet b = 2.debug("n=");\nlet c = "z".debug();', [P, D, D])
    t("debug_default", 'fn d(x: int ?= debug(5, "dflt"))->int { x }\nlet a = d() + d();', [D])
    t("mixed_order", "let a = display(1);\nlet b = debug(2);\nlet c = now();\nlet d = display(3);", [P, D, N, P])
    t("mixed_order2", "let c = now();\nlet r = random();\nlet a = display(1);", [N, R, P])
    t("now_direct", "let a = now();", [N])
    t("now_wrapper", "fn w()->Datetime { now() }\nlet a = w();", [N])
    t("now_lambda_map", "let a = [1, 2].map((x: int) -> {now()}).to_array();", [N, N])
    t("random_float", "let a = random();", [R])
    t("random_dist", "let a = uniform_distribution(1, 6).random();", [R])
    t("random_cont_sample", "let a = normal_distribution(0.0, 1.0).sample(3);", [R])
    t("random_sample", "let a = [1, 2, 3].sample(2);", [R])
    t("random_shuffle", "let a = [1, 2, 3].shuffle();", [R])
    t("random_choices", "let a = [1, 2, 3].random_choices(2);", [R])
    t("random_in_map", "let a = [1, 2].map((x: int) -> {uniform_distribution(1, 6).random()}).to_array();", [R, R])
    t("random_default", "fn d(x: int ?= uniform_distribution(1, 6).random())->int { x }\nlet a = d();", [R])
    # the same builtins on other argument shapes (long sequences take other code paths)
    t("random_sample_large", "let a = range(1000).sample(2);", [R])
    t("random_sample_huge", "let a = range(100000).sample(1);", [R])
    t("random_sample_most", "let a = range(50).sample(49);", [R])
    t("random_shuffle_large", "let a = range(300).shuffle();", [R])
    t("random_choices_large", "let a = range(1000).random_choices(3);", [R])
    t("random_sample_in_map", "let a = [2, 3].map((k: int) -> {range(1000).sample(k).len()}).to_array();", [R, R])
    t("random_disc_sample", "let a = uniform_distribution(1, 6).sample(100);", [R])
    t("random_binomial", "let a = binomial_distribution(4, 0.5).random();", [R])
    t("random_normal", "let a = normal_distribution(0.0, 1.0).random();", [R])
    t("random_custom_dist", "let a = custom_distribution([(1, 0.5), (2, 0.5)]).sample(3);", [R])
    t("regex_direct", 'let a = regex("a+");', [X])
    t("regex_wrapper", 'fn w(s: str)->Regex { regex(s) }\nlet a = w("b");', [X])
    t("sleep_direct", "let a = sleep(seconds(0.0));", [S])
    t("sleep_value", "let a = sleep(seconds(0.0), 5);", [S])
    t("sleep_then_print", "let a = sleep(seconds(0.0), 5);\nlet b = display(a);", [S, P])
    t("print_then_regex", 'let b = display(1);\nlet a = regex("x");', [P, X])
    return T


def xv_perms(assign):
    return {k: (None if v == "unset" else v == "allow") for k, v in assign.items()}


def run(chk, tier, seed):
    T = templates()
    for i, t in enumerate(T):
        t["assigns"] = "full" if (tier == "thorough" and i % 3 == 0) or t["id"] in ("mixed_order",) else "near"
        if tier == "quick" and t["id"] == "mixed_order":
            t["assigns"] = "near"
    d = vf.workdir("c11")
    path = d + "/plans.ndjson"
    with open(path, "w") as f:
        for t in T:
            f.write(json.dumps({"id": t["id"], "sites": t["sites"], "assigns": t["assigns"]}) + "\n")
    r = vf.tlc("XrPerm", "XrPerm.cfg", "c11", env={"PLANS": path}, workers=1, timeout=3000, xmx="6g")
    if not r.ok:
        raise vf.ToolError("XrPerm failed:\n" + r.out[-2500:])
    chk.add_tlc(r)
    cases = r.cases()
    byid = {t["id"]: t for t in T}
    jobs, exp = [], {}
    seen = set()
    for c in cases:
        key = c["id"] + json.dumps(c["perms"], sort_keys=True)
        if key in seen:
            continue
        seen.add(key)
        jid = "j%d" % len(jobs)
        t = byid[c["id"]]
        jobs.append({"id": jid, "src": t["src"] + "\n", "perms": xv_perms(c["perms"]), "trace": True, "observe": []})
        exp[jid] = (c, t)
        if c.get("history"):
            # the same assignment reached through a history of calls (each permission first set the other way)
            hid = "h%d" % len(jobs)
            jobs.append({"id": hid, "src": t["src"] + "\n", "perms": xv_perms(c["perms"]), "perm_ops": [[o["id"], o["allow"]] for o in c["history"]],
                         "trace": True, "observe": []})
            exp[hid] = (c, t)
    res = vf.run_jobs(jobs, "c11")
    chk.count(len(jobs))
    for j in jobs:
        c, t = exp[j["id"]]
        o = res[j["id"]]
        oc = vf.job_outcome(o)
        want = "ok" if c["outcome"] == "none" else "inst_" + c["outcome"]
        eff = o.get("effects", {})
        got_touch = {"write": eff.get("write", 0), "clock": eff.get("clock", 0),
                     "rng": eff.get("rng", 0) + eff.get("rng_new", 0)}
        ev = o.get("events", [])
        got_touch["regex"] = sum(1 for e in ev if e["ev"] == "Effect" and e.get("kind") == "regex")
        got_touch["sleep"] = sum(1 for e in ev if e["ev"] == "Effect" and e.get("kind") == "sleep")
        chk.nontrivial([t["id"], c["perms"]])
        problems = []
        if oc != want:
            problems.append(("outcome", want, oc))
        for k in ("write", "clock", "rng", "regex", "sleep"):
            e = c["touched"].get(k, 0)
            if (e > 0) != (got_touch[k] > 0):
                problems.append(("touches of " + k, e, got_touch[k]))
        lines = o.get("stdout", "").count("\n")
        if lines != c["touched"].get("write", 0):
            problems.append(("output lines", c["touched"].get("write", 0), lines))
        if problems:
            chk.violation("%s under %s: %s expected %s, observed %s" % (t["id"], j["perms"], problems[0][0], problems[0][1], problems[0][2]),
                          {"kind": "perm", "template": t["id"], "source": t["src"], "perms": j["perms"], "sites": t["sites"],
                           "perm_ops": j.get("perm_ops"), "expected": c, "observed": {"outcome": oc, "touched": got_touch, "stdout": o.get("stdout")}})
    vf.validate_job_traces(chk, [j for j in jobs if j["id"].startswith("j")], res, "c11", "permission trace")
    # one compilation, several runtimes (M6): the same compiled program instantiated under an allowing, then a
    # refusing, then again an allowing configuration - each runtime decides by its own permission table
    percase = {}
    for c in cases:
        percase.setdefault(c["id"], []).append(c)
    mj, mexp = [], {}
    for tid_, cs in sorted(percase.items()):
        ok = [c for c in cs if c["outcome"] == "none"]
        bad = [c for c in cs if c["outcome"] != "none"]
        if not ok or not bad:
            continue
        seqs = [[ok[0], bad[0], ok[-1]], [bad[-1], ok[0], bad[0]]]
        for k, seq in enumerate(seqs):
            t = byid[tid_]
            jid = "m%d" % len(mj)
            mj.append({"id": jid, "src": t["src"] + "\n", "perms": xv_perms(seq[0]["perms"]), "observe": [],
                       "then": [{"perms": xv_perms(c["perms"]), "observe": []} for c in seq[1:]]})
            mexp[jid] = (seq, t)
    mres = vf.run_jobs(mj, "c11-rounds")
    chk.count(len(mj))
    for j in mj:
        seq, t = mexp[j["id"]]
        o = mres[j["id"]]
        if "crash" in o or "timeout" in o or not o.get("compile", {}).get("ok"):
            chk.violation("%s over several runtimes: %s" % (t["id"], vf.job_outcome(o)), {"kind": "perm-rounds", "source": t["src"], "observed": vf.job_outcome(o)})
            continue
        rounds = [o] + o.get("rounds", [])
        chk.nontrivial([t["id"], "rounds", [c["perms"] for c in seq]])
        for k, (c, r) in enumerate(zip(seq, rounds)):
            inst = r.get("inst", {})
            got = "ok" if inst.get("ok") else ("inst_" + vf.norm_outcome(inst["violation"]) if "violation" in inst else "inst_panic")
            want = "ok" if c["outcome"] == "none" else "inst_" + c["outcome"]
            eff = r.get("effects", {})
            touch = {"write": eff.get("write", 0), "clock": eff.get("clock", 0), "rng": eff.get("rng", 0) + eff.get("rng_new", 0)}
            prob = None
            if got != want:
                prob = ("outcome", want, got)
            else:
                for kk in ("write", "clock", "rng"):
                    if (c["touched"].get(kk, 0) > 0) != (touch[kk] > 0):
                        prob = ("touches of " + kk, c["touched"].get(kk, 0), touch[kk])
            if prob:
                chk.violation("%s, runtime %d of %d built from one compilation (permissions %s, earlier runtimes %s): %s expected %s, observed %s" %
                              (t["id"], k + 1, len(seq), xv_perms(c["perms"]), [xv_perms(x["perms"]) for x in seq[:k]], prob[0], prob[1], prob[2]),
                              {"kind": "perm-rounds", "template": t["id"], "source": t["src"], "rounds": [xv_perms(x["perms"]) for x in seq], "round": k,
                               "expected": c, "observed": {"outcome": got, "touched": touch}}, finding_key="rounds:%s" % t["id"])
                break
    chk.part("several_runtimes", programs=len(mj))
    # the shipped scripts, under their own permission configuration
    scr = [s for s in corpus.scripts() if not s["cfg"].get("expected_compilation_error")]
    if tier == "quick":
        scr = [s for s in scr if s["perms"] or int(s["num"]) % 9 == seed % 9]
    cj = [{"id": "script" + s["num"], "src": s["src"], "limits": s["limits"], "perms": s["perms"], "trace": True,
           "calls": [{"op": "run", "fn": "main"}], **({"now": s["cfg"]["now"]} if s["cfg"].get("now") is not None else {})}
          for s in scr]
    cres = vf.run_jobs(cj, "c11-corpus", timeout_ms=120000)
    chk.count(len(cj))
    vf.validate_job_traces(chk, cj, cres, "c11-corpus", "shipped script trace")
    chk.part("plans", templates=len(T), configurations=len(jobs), corpus=len(cj))
    ex = jobs[len(jobs) // 2]
    chk.sample({"source": ex["src"], "perms": ex["perms"], "expected": exp[ex["id"]][0]})
    chk.cov["rule"] = ("effect-plan templates (display, debug, now, random, sample, shuffle, random_choices, distribution "
                       "sampling, regex, sleep; direct, wrapper, closure, map/filter/reduce callback, lazy element, default "
                       "parameter, stdlib wrapper, mixed sequences) x permission assignments enumerated by TLC "
                       "(every setting of the needed permissions x every setting of one other; all 3^6 for selected plans); "
                       "non-trivial = distinct (template, assignment)")
    chk.assumptions += ["writer/clock/rng touches are observed by recording doubles; regex and sleep by hooks at the effect site"]


def replay(chk, path):
    rp = json.load(open(path))
    if rp.get("kind") == "trace":
        return vf.replay_trace_job(chk, rp)
    if rp.get("kind") == "perm-rounds":
        rs = rp["rounds"]
        o = vf.run_jobs([{"id": "r", "src": rp["source"] + "\n", "perms": rs[0], "observe": [], "then": [{"perms": x, "observe": []} for x in rs[1:]]}], "replay")["r"]
        r = ([o] + o.get("rounds", []))[rp["round"]]
        inst = r.get("inst", {})
        got = "ok" if inst.get("ok") else ("inst_" + vf.norm_outcome(inst["violation"]) if "violation" in inst else "inst_panic")
        want = "ok" if rp["expected"]["outcome"] == "none" else "inst_" + rp["expected"]["outcome"]
        chk.count(1)
        chk.nontrivial("replay")
        chk.nontrivial(rp["source"])
        chk.sample({"source": rp["source"], "outcome": got})
        if got != want or (r.get("effects", {}).get("write", 0) > 0) != (rp["expected"]["touched"].get("write", 0) > 0):
            chk.violation("still deviates", rp)
        return chk.finish()
    j = {"id": "r", "src": rp["source"] + "\n", "perms": rp["perms"], "trace": True}
    if rp.get("perm_ops"):
        j["perm_ops"] = rp["perm_ops"]
    o = vf.run_jobs([j], "replay")["r"]
    oc = vf.job_outcome(o)
    want = "ok" if rp["expected"]["outcome"] == "none" else "inst_" + rp["expected"]["outcome"]
    chk.count(1)
    chk.nontrivial("replay")
    chk.nontrivial(rp["source"])
    chk.sample({"source": rp["source"], "outcome": oc})
    if oc != want or o.get("stdout", "").count("\n") != rp["expected"]["touched"].get("write", 0):
        chk.violation("still deviates", rp)
    vf.validate_job_traces(chk, [j], {"r": o}, "replay")
    return chk.finish()
