SPECIFICATION Spec
CONSTANT Steps = 14
INVARIANT Emit
INVARIANT ClassesAreCanonical
CHECK_DEADLOCK FALSE
