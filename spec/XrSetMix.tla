------------------------------ MODULE XrSetMix ------------------------------
(***************************************************************************)
(* Sets built with DIFFERENT (hash, equality) pairs meeting in one binary  *)
(* operation (std/set.md: "x & y ... with the same hash and equality       *)
(* functions as x", likewise |, ^, -).                                      *)
(*                                                                         *)
(* Kind "A" sets compare integers modulo Eqm (hash consistent with it),    *)
(* kind "B" sets use the default hash and equality.  Both operands hold    *)
(* canonical representatives 0..Eqm-1 only, so that "present in both" has  *)
(* one reading whichever operand the implementation iterates.  The result  *)
(* is a set of the LEFT operand's kind: what it contains afterwards, and   *)
(* what adding a probe does to its length, follow that kind's equality.    *)
(* Every pair of subsets, every operation and both operand orders are      *)
(* enumerated (the state space is the set of initial states).              *)
(***************************************************************************)
EXTENDS Integers, FiniteSets, TLC, Json, Sequences

CONSTANTS Eqm

Reps == 0..(Eqm - 1)
Probes == 0..(2 * Eqm)
Ops == {"bit_and", "bit_or", "bit_xor", "sub"}

VARIABLES sa, sb, op, left
vars == <<sa, sb, op, left>>

Init == sa \in SUBSET Reps /\ sb \in SUBSET Reps /\ op \in Ops /\ left \in {"A", "B"}
Next == UNCHANGED vars
Spec == Init /\ [][Next]_vars

Items(x, y) == CASE op = "bit_and" -> x \cap y
                 [] op = "bit_or" -> x \cup y
                 [] op = "bit_xor" -> (x \ y) \cup (y \ x)
                 [] op = "sub" -> x \ y
Result == IF left = "A" THEN Items(sa, sb) ELSE Items(sb, sa)
\* membership under the result's own equality
Has(p) == IF left = "A" THEN (p % Eqm) \in Result ELSE p \in Result
SetToSeq(S) == LET RECURSIVE F(_) F(T) == IF T = {} THEN <<>> ELSE LET m == CHOOSE x \in T : \A y \in T : x <= y IN <<m>> \o F(T \ {m}) IN F(S)

Emit == PrintT(<<"CASE", ToJson([a |-> SetToSeq(sa), b |-> SetToSeq(sb), op |-> op, left |-> left, len |-> Cardinality(Result),
                                 alen |-> Cardinality(sa), blen |-> Cardinality(sb),      \* the operands are unchanged
                                 has |-> [i \in 1..(2 * Eqm + 1) |-> Has(i - 1)],
                                 addlen |-> [i \in 1..(2 * Eqm + 1) |-> Cardinality(Result) + (IF Has(i - 1) THEN 0 ELSE 1)]])>>)

\* the laws the documentation implies, checked on the model itself
KindOfLeft == \A p \in Probes : (left = "A" /\ Has(p)) => Has(p + Eqm) \/ p + Eqm \notin Probes
=============================================================================
