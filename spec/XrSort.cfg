INIT Init
NEXT Next
INVARIANT Emit
CHECK_DEADLOCK FALSE
