"""C07 - Tail-call optimisation is semantically transparent.

Decided by XrEval: the reference semantics has an explicit trampoline (Tramp) that is entered
only for a call of the frame's own recursion cell in tail position, where the tail position is
passed on only by the documented carriers (selected branch of if, second argument of and / or /
if_error / Optional or / Optional and).  TLC evaluates every template x iteration count under no
limits, under a small depth limit and under recursion limits around the iteration count, and
predicts value or violation kind; for iteration counts beyond what TLC can unroll (10^3..10^5)
the closed form is used, after TLC has checked it against the machine for every template and
n <= 12 (invariant ClosedFormHolds of XrCore)."""
import json

import coregen
import corecheck
import vf

LEVEL = "model_checking"
NOLIM = {"calls": -1, "depth": -1, "rec": -1, "search": -1}

V = lambda n: {"k": "var", "n": n}
I = lambda i: {"k": "lit", "ty": "int", "v": i}
B = lambda b: {"k": "lit", "ty": "bool", "v": b}
C = lambda f, args, **kw: dict({"k": "call", "f": f, "args": args, "sty": "fn"}, **kw)
OP = lambda f, a, b: C(f, [a, b], sty="op")
P = lambda n, t: {"n": n, "ty": t, "hasdef": False}


def FN(name, ps, rty, ret, decls=None):
    return {"k": "fn", "n": name, "ovl": False, "rty": rty, "ps": ps, "decls": decls or [], "ret": ret}


def templates():
    """(name, tail?, decls, call builder, closed form(n))"""
    dec = OP("sub", V("n"), I(1))
    inc = OP("add", V("acc"), I(1))
    stop = OP("le", V("n"), I(0))
    go = OP("gt", V("n"), I(0))
    step = C("t", [dec, inc])
    ps2 = [P("n", "int"), P("acc", "int")]
    T = []
    # ---- tail position, directly and through documented carriers
    T.append(("if_else", True, [FN("t", ps2, "int", C("if", [stop, V("acc"), step]))], lambda n: C("t", [I(n), I(0)]), lambda n: n))
    T.append(("if_then", True, [FN("t", ps2, "int", C("if", [go, step, V("acc")]))], lambda n: C("t", [I(n), I(0)]), lambda n: n))
    T.append(("if_method", True, [FN("t", ps2, "int", C("if", [stop, V("acc"), step], sty="method"))], lambda n: C("t", [I(n), I(0)]), lambda n: n))
    T.append(("if_nested", True, [FN("t", ps2, "int", C("if", [stop, V("acc"), C("if", [OP("eq", OP("mod", V("n"), I(2)), I(0)), step, step])]))],
              lambda n: C("t", [I(n), I(0)]), lambda n: n))
    T.append(("if_error2", True, [FN("t", ps2, "int", C("if_error", [C("if", [stop, V("acc"), C("error", [{"k": "lit", "ty": "str", "v": "again"}], cast="int")]), step]))],
              lambda n: C("t", [I(n), I(0)]), lambda n: n))
    S_ = lambda t: {"k": "lit", "ty": "str", "v": t}
    T.append(("if_error3", True, [FN("t", ps2, "int", C("if_error", [C("if", [stop, V("acc"), C("error", [S_("more")], cast="int")]), S_("more"), step]))],
              lambda n: C("t", [I(n), I(0)]), lambda n: n))
    T.append(("if_error3_empty_msg", True, [FN("t", ps2, "int", C("if_error", [C("if", [stop, V("acc"), C("error", [S_("more")], cast="int")]), S_(""), step]))],
              lambda n: C("t", [I(n), I(0)]), lambda n: n))
    T.append(("or_bool", True, [FN("t", [P("n", "int")], "bool", OP("or", stop, C("t", [dec])))], lambda n: C("t", [I(n)]), lambda n: True))
    T.append(("and_bool", True, [FN("t", [P("n", "int")], "bool", OP("and", go, C("t", [dec])))], lambda n: C("t", [I(n)]), lambda n: False))
    T.append(("opt_or", True, [FN("t", ps2, "Optional<int>", C("opt_or", [C("then", [stop, V("acc")]), step]))],
              lambda n: C("opt_or_val", [C("t", [I(n), I(0)]), I(-1)]), lambda n: n))
    T.append(("with_local", True, [FN("t", ps2, "int", C("if", [stop, V("acc"), C("t", [V("m"), inc])]),
                                      decls=[{"k": "let", "n": "m", "ty": "int", "annot": False, "e": dec}])],
              lambda n: C("t", [I(n), I(0)]), lambda n: n))
    # ---- not a tail call: must consume depth, and keep its meaning
    T.append(("arg_of_add", False, [FN("t", [P("n", "int")], "int", C("if", [stop, I(0), OP("add", I(1), C("t", [dec]))]))], lambda n: C("t", [I(n)]), lambda n: n))
    T.append(("add_left", False, [FN("t", [P("n", "int")], "int", C("if", [stop, I(0), OP("add", C("t", [dec]), I(1))]))], lambda n: C("t", [I(n)]), lambda n: n))
    T.append(("under_neg", False, [FN("t", [P("n", "int")], "int", C("if", [stop, I(1), C("neg", [C("t", [dec])], sty="op")]))],
              lambda n: C("t", [I(n)]), lambda n: 1 if n % 2 == 0 else -1))
    T.append(("array_item", False, [FN("t", [P("n", "int")], "int", C("if", [stop, I(0), OP("add", C("get", [{"k": "arr", "items": [C("t", [dec])]}, I(0)]), I(1))]))],
              lambda n: C("t", [I(n)]), lambda n: n))
    T.append(("cond_of_if", False, [FN("t", [P("n", "int")], "int", C("if", [stop, I(0), C("if", [OP("ge", C("t", [dec]), I(0)), V("n"), I(-1)])]))],
              lambda n: C("t", [I(n)]), lambda n: n))
    T.append(("first_of_or", False, [FN("t", [P("n", "int")], "bool", C("if", [stop, B(False), OP("or", C("t", [dec]), B(False))]))],
              lambda n: C("t", [I(n)]), lambda n: False))
    # the guarded (first) argument of if_error is inspected afterwards: never a tail position, in either arity
    T.append(("guarded_if_error3", False, [FN("t", [P("n", "int")], "int", C("if", [stop, I(0), C("if_error", [C("t", [dec]), S_("zzz"), I(-1)])]))],
              lambda n: C("t", [I(n)]), lambda n: 0))
    T.append(("guarded_if_error2", False, [FN("t", [P("n", "int")], "int", C("if", [stop, I(0), C("if_error", [C("t", [dec]), I(-1)])]))],
              lambda n: C("t", [I(n)]), lambda n: 0))
    lam = {"k": "lam", "ps": [P("k", "int")], "decls": [], "rty": "int", "ret": C("t", [V("k"), inc])}
    T.append(("in_lambda", False, [FN("t", ps2, "int", C("if", [stop, V("acc"), {"k": "callv", "fe": lam, "args": [dec]}]))],
              lambda n: C("t", [I(n), I(0)]), lambda n: n))
    T.append(("via_alias", False, [FN("t", ps2, "int", C("if", [stop, V("acc"), {"k": "callv", "fe": V("g"), "args": [dec, inc]}]),
                                      decls=[{"k": "let", "n": "g", "ty": "", "annot": False, "e": V("t")}])],
              lambda n: C("t", [I(n), I(0)]), lambda n: n))
    inner = FN("inner", [P("k", "int")], "int", C("t", [V("k"), inc]))
    T.append(("via_inner_fn", False, [FN("t", ps2, "int", C("if", [stop, V("acc"), C("inner", [dec])]), decls=[inner])],
              lambda n: C("t", [I(n), I(0)]), lambda n: n))
    other = FN("u", ps2, "int", OP("add", V("acc"), V("n")))
    T.append(("other_fn", False, [other, FN("t", ps2, "int", C("if", [stop, V("acc"), C("u", [dec, inc])]))],
              lambda n: C("t", [I(n), I(0)]), lambda n: 0 if n <= 0 else n - 1 + 1))
    return T


def error_arg_templates():
    """tail calls (direct and through carriers) and ordinary calls whose argument is an error value at one
    iteration while the callee never reads that parameter: the call must yield the error
    (lang/functions.md) - the trampoline may not bypass the rule.  (name, decls, call builder)"""
    S = lambda s: {"k": "lit", "ty": "str", "v": s}
    dec = OP("sub", V("n"), I(1))
    stop = OP("le", V("n"), I(0))
    boom = C("if", [OP("eq", V("n"), I(2)), C("error", [S("boom")], cast="int"), V("n")])
    ps2 = [P("n", "int"), P("scratch", "int")]
    T = []
    T.append(("err_tail_if", [FN("t", ps2, "int", C("if", [stop, I(7), C("t", [dec, boom])]))], lambda n: C("t", [I(n), I(0)])))
    T.append(("err_tail_or", [FN("t", ps2, "bool", OP("or", stop, C("t", [dec, boom])))], lambda n: C("t", [I(n), I(0)])))
    T.append(("err_tail_if_error", [FN("t", ps2, "int", C("if_error", [C("if", [stop, I(7), C("error", [S("again")], cast="int")]), C("t", [dec, boom])]))],
              lambda n: C("t", [I(n), I(0)])))
    T.append(("err_tail_first_arg", [FN("t", [P("scratch", "int"), P("n", "int")], "int", C("if", [stop, I(7), C("t", [boom, dec])]))], lambda n: C("t", [I(0), I(n)])))
    T.append(("err_nontail", [FN("t", ps2, "int", C("if", [stop, I(7), OP("add", I(0), C("t", [dec, boom]))]))], lambda n: C("t", [I(n), I(0)])))
    T.append(("err_caught_outside", [FN("t", ps2, "int", C("if", [stop, I(7), C("t", [dec, boom])]))], lambda n: C("if_error", [C("t", [I(n), I(0)]), I(-5)])))
    return T


def non_carrier_templates():
    """a self-call that is the argument of a builtin which is NOT a documented carrier of the tail position
    (assert, not, display, is_error; to_str of a str is the identity and does forward the tail position): an ordinary call - it consumes depth, and the builtin still does its work on
    the result (assert turns false into an error, display prints, not negates)"""
    dec = OP("sub", V("n"), I(1))
    stop = OP("le", V("n"), I(0))
    ps1 = [P("n", "int")]
    T = []
    T.append(("under_assert_false", [FN("t", ps1, "bool", C("if", [stop, B(False), C("assert", [C("t", [dec])])]))], lambda n: C("t", [I(n)])))
    T.append(("under_assert_true", [FN("t", ps1, "bool", C("if", [stop, B(True), C("assert", [C("t", [dec])])]))], lambda n: C("t", [I(n)])))
    T.append(("under_assert_method", [FN("t", ps1, "bool", C("if", [stop, B(False), C("assert", [C("t", [dec])], sty="method")]))], lambda n: C("t", [I(n)])))
    T.append(("under_assert_and", [FN("t", ps1, "bool", OP("and", OP("gt", V("n"), I(0)), C("assert", [C("t", [dec])])))], lambda n: C("t", [I(n)])))
    T.append(("under_not", [FN("t", ps1, "bool", C("if", [stop, B(True), C("not", [C("t", [dec])], sty="op")]))], lambda n: C("t", [I(n)])))
    T.append(("under_display", [FN("t", ps1, "int", C("if", [stop, I(0), C("display", [C("t", [dec])])]))], lambda n: C("t", [I(n)])))
    T.append(("under_is_error", [FN("t", ps1, "bool", C("if", [stop, B(True), C("is_error", [C("t", [dec])])]))], lambda n: C("t", [I(n)])))
    return T


def non_carrier_programs():
    progs = []
    for name, decls, call in non_carrier_templates():
        for n in (0, 1, 2, 3, 6):
            for ci, lim in enumerate([{}, {"depth": 4}, {"rec": 0}, {"depth": 3, "rec": 1}]):
                progs.append(prog("%s.n%d.c%d" % (name, n, ci), decls, call(n), lim, "-"))
    return progs


def default_tail_templates():
    """tail self-calls that leave defaulted parameters out (none, some, all of them): still tail calls - no depth is
    consumed, the recursion limit bounds them - and the omitted parameters take their defaults, in order"""
    PD = lambda n, d: {"n": n, "ty": "int", "hasdef": True, "def": I(d)}
    stop = OP("le", V("n"), I(0))
    T = []
    T.append(("def1_omit", [FN("t", [P("n", "int"), PD("step", 1)], "int", C("if", [stop, V("n"), C("t", [OP("sub", V("n"), V("step"))])]))], lambda n: C("t", [I(n)])))
    T.append(("def1_pass", [FN("t", [P("n", "int"), PD("step", 1)], "int", C("if", [stop, V("n"), C("t", [OP("sub", V("n"), V("step")), V("step")])]))], lambda n: C("t", [I(n), I(2)])))
    T.append(("def2_some", [FN("t", [P("n", "int"), PD("step", 1), PD("base", 100)], "int",
                               C("if", [stop, V("base"), C("t", [OP("sub", V("n"), V("step")), V("step")])]))], lambda n: C("t", [I(n), I(2)])))
    T.append(("def2_none", [FN("t", [P("n", "int"), PD("step", 1), PD("base", 100)], "int",
                               C("if", [stop, OP("add", V("base"), V("step")), C("t", [OP("sub", V("n"), I(1))])]))], lambda n: C("t", [I(n), I(5), I(7)])))
    T.append(("def2_all", [FN("t", [P("n", "int"), PD("step", 1), PD("base", 100)], "int",
                              C("if", [stop, OP("add", V("base"), V("step")), C("t", [OP("sub", V("n"), I(1)), OP("add", V("step"), I(1)), V("base")])]))],
              lambda n: C("t", [I(n)])))
    T.append(("def3_mid", [FN("t", [P("n", "int"), PD("a", 3), PD("b", 5), PD("c", 7)], "int",
                              C("if", [stop, OP("add", OP("mul", V("a"), I(100)), OP("add", OP("mul", V("b"), I(10)), V("c"))), C("t", [OP("sub", V("n"), I(1)), V("b")])]))],
              lambda n: C("t", [I(n), I(1), I(2), I(4)])))
    return T


def default_tail_programs():
    progs = []
    for name, decls, call in default_tail_templates():
        for n in (0, 1, 2, 3, 6):
            for ci, lim in enumerate([{}, {"depth": 3}, {"rec": max(0, n - 1)}, {"rec": n}, {"depth": 3, "rec": n + 1}]):
                progs.append(prog("%s.n%d.c%d" % (name, n, ci), decls, call(n), lim, "-"))
    return progs


def error_arg_programs(limits=True):
    progs = []
    for name, decls, call in error_arg_templates():
        for n in (0, 1, 2, 3, 5):
            for ci, lim in enumerate([{}, {"depth": 8}, {"rec": 1}] if limits else [{}]):
                progs.append(prog("%s.n%d.c%d" % (name, n, ci), decls, call(n), lim, "-"))
    return progs


def prog(pid, decls, call, lim, closed):
    ds = list(decls) + [{"k": "let", "n": "res", "ty": "", "annot": False, "e": call}]
    return {"id": pid, "decls": ds, "calls": [], "lim": dict(NOLIM, **lim), "closed": closed}


def run(chk, tier, seed):
    T = templates()
    small = [0, 1, 2, 3, 10] if tier == "quick" else [0, 1, 2, 3, 4, 7, 10, 12]
    progs = []
    for name, tail, decls, call, closed in T:
        for n in small:
            # no limits; depth limit small; recursion limits around n
            confs = [{}, {"depth": 8}, {"depth": 3}]
            for L in sorted({0, 1, n - 1, n, n + 1}):
                if L >= 0:
                    confs.append({"rec": L})
            confs.append({"depth": 4, "rec": max(0, n - 1)})
            for ci, lim in enumerate(confs):
                progs.append(prog("%s.n%d.c%d" % (name, n, ci), decls, call(n), lim, closed(n)))
    progs += error_arg_programs() + non_carrier_programs() + default_tail_programs()
    cases, r = corecheck.run_core(chk, progs, "c07-small", limits_of=corecheck.xv_limits)
    # design check on the model: with no limits the machine (with trampoline) returns the closed form
    for p in progs:
        if p["lim"] == NOLIM and p["closed"] != "-":
            c = cases[p["id"]]
            got = [b["v"] for b in c["binds"] if b["n"] == "res"]
            want = p["closed"]
            ok = got and ((isinstance(want, bool) and got[0] == {"t": "bool", "v": want}) or
                          (not isinstance(want, bool) and got[0] == {"t": "int", "v": want}))
            if not ok:
                raise vf.ToolError("closed form of template %s disagrees with the reference machine: %s vs %s" % (p["id"], got, want))
    # large iteration counts: closed form (validated above against the machine for small n)
    big = [1000, 100000] if tier == "quick" else [1000, 20000, 100000]
    jobs, exp = [], {}
    for name, tail, decls, call, closed in T:
        for n in big:
            confs = [({"depth": 8}, None)]
            if tail:
                confs += [({"depth": 8, "recursion": n}, None), ({"depth": 8, "recursion": n - 1}, "MaximumRecursion"),
                          ({"recursion": 0}, "MaximumRecursion")]
            for ci, (lim, viol) in enumerate(confs):
                if not tail and name != "other_fn":
                    viol = "MaximumStackDepth"     # n > depth limit: never silently treated as a tail call
                p = prog("%s.N%d.c%d" % (name, n, ci), decls, call(n), {}, closed(n))
                jid = p["id"]
                jobs.append({"id": jid, "src": coregen.render(p), "observe": ["res"], "limits": lim, "timeout_ms": 120000})
                exp[jid] = (viol, closed(n), p, lim)
    res = vf.run_jobs(jobs, "c07-big", timeout_ms=120000)
    for j in jobs:
        viol, val, p, lim = exp[j["id"]]
        o = res[j["id"]]
        oc = vf.job_outcome(o)
        chk.count(1)
        chk.nontrivial(j["src"] + json.dumps(lim, sort_keys=True))
        if viol:
            good = oc == "inst_" + viol
            want = viol
        else:
            got = corecheck.norm_dump(o.get("values", {}).get("res")) if oc == "ok" else {"t": oc}
            wantv = {"t": "bool", "v": val} if isinstance(val, bool) else {"t": "int", "v": val}
            good = got == wantv
            want = wantv
        if not good:
            chk.violation("%s under %s: expected %s, observed %s" % (j["id"], lim, want, oc if viol else got),
                          {"kind": "tco-big", "source": j["src"], "limits": lim, "expected": want, "observed": oc,
                           "detail": {k: v for k, v in o.items() if k in ("inst", "values", "crash", "timeout")}})
    chk.part("big", runs=len(jobs))
    chk.cov["rule"] = ("recursive function templates = self-call in tail position directly / through if (then, else, "
                       "method form, nested), if_error, bool or/and, Optional or, after a local let; and in non-tail "
                       "positions (argument of add on either side, under neg, array item, condition of if, first "
                       "argument of or, inside a lambda, via a local alias, via an inner function, call to another "
                       "function; argument of assert / not / display / is_error) x n in {0..12, 10^3, 10^5} x {no limits, depth limits, recursion limits n-1,n,n+1}. "
                       "non-trivial = distinct (template, n, limits)")
    chk.assumptions += ["for n >= 10^3 the expectation is the closed form, checked by TLC against the trampoline machine for n <= 12"]


def replay(chk, path):
    rp = json.load(open(path))
    if rp.get("kind") == "tco-big":
        o = vf.run_jobs([{"id": "r", "src": rp["source"], "observe": ["res"], "limits": rp["limits"], "timeout_ms": 120000}], "replay")["r"]
        oc = vf.job_outcome(o)
        chk.count(1)
        chk.nontrivial("replay")
        chk.nontrivial(rp["source"])
        chk.sample({"source": rp["source"], "outcome": oc})
        exp = rp["expected"]
        good = (oc == "inst_" + exp) if isinstance(exp, str) else (oc == "ok" and corecheck.norm_dump(o["values"].get("res")) == exp)
        if not good:
            chk.violation("still deviates", rp)
        return chk.finish()
    return corecheck.replay_core(chk, path)
