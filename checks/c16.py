"""C16 - Generators denote fixed lazy streams.

Decided by XrGen: TLC random-walks a pool machine over generator operations (to_generator, map,
filter, take, skip, take_while, skip_until, zip, add, aggregate, enumerate, windows, chunks,
group, distinct, with_count, repeat (finite and infinite), len, last, get, reduce) on finite and
infinite sources (count(), successors) and records every stream by list semantics; every
generator is then consumed twice and both consumptions must give the recorded elements; taking
a finite prefix of an infinite pipeline must terminate."""
import poolcheck

LEVEL = "model_checking"


def run(chk, tier, seed):
    n = 800 if tier == "quick" else 10000
    poolcheck.run_pool(chk, "XrGen", "XrGen.cfg", "c16", n, 11, seed, kind="generator",
                       limits={"calls": 200000, "depth": 400})
    chk.cov["rule"] = ("TLC -simulate walks of the XrGen pool machine: 9 operations per program, every generator consumed "
                       "twice (to_array / take(6).to_array()); non-trivial = distinct rendered program")
    chk.assumptions += ["evaluated-prefix bounds are observed as termination of finite consumptions of infinite pipelines, not as exact pull counts"]


def replay(chk, path):
    return poolcheck.replay_pool(chk, path)
