------------------------------- MODULE XrTypes -------------------------------
(***************************************************************************)
(* The enumeration machine over the type algebra XrTypeAlg: every          *)
(* (required, supplied) pair of the universe with its verdict and common   *)
(* type, and the lattice laws as invariants.                               *)
(***************************************************************************)
EXTENDS XrTypeAlg

----------------------------------------------------------------------------
CONSTANT Deep                   \* TRUE: include the second level

Univ == IF Deep THEN Level1 \cup Level2 ELSE Level1
Expressible == {t \in Univ : ~HasUnknown(t)}      \* `unknown` cannot be written in an annotation

VARIABLES req, sup
tvars == <<req, sup>>
Init == req \in Univ /\ sup \in Univ
Next == UNCHANGED tvars

EmitPair ==
    PrintT(<<"CASE", ToJson([req |-> req, sup |-> sup,
                             assign |-> IF req \in Expressible THEN
                                          (IF Assignable(req, sup) THEN "yes" ELSE "no") ELSE "n/a",
                             \* the documentation gives no join for callables: not compared
                             common |-> IF HasFn(req) \/ HasFn(sup) THEN [k |-> "n/a"] ELSE CommonType(req, sup)])>>)

\* lattice laws of the documented rules, on every pair of the universe
Reflexive == Assignable(req, req)
UnknownIsBottom == Assignable(req, Unknown)
CommonCommutes == CommonType(req, sup) = CommonType(sup, req)
CommonIdempotent == CommonType(req, req) = req
CommonIsUpperBound ==
    LET c == CommonType(req, sup) IN c.k # "none" => Assignable(c, req) /\ Assignable(c, sup)
CommonIsLeast ==
    \* any universe type that both are assignable to is above the common type
    LET c == CommonType(req, sup)
    IN (~HasFn(req) /\ ~HasFn(sup)) =>
         \A u \in Univ : (Assignable(u, req) /\ Assignable(u, sup)) => (c.k # "none" /\ Assignable(u, c))
AssignableIsTransitive ==
    \A u \in Level1 : (Assignable(u, req) /\ Assignable(req, sup)) => Assignable(u, sup)
=============================================================================
