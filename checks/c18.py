"""C18 - Strings are code-point sequences; literals mean what they say.

Decided by XrStr (pool machine over strings as sequences of abstract code points of UTF-8 width
1-4, with a combining mark and characters whose case mapping changes the length; operations by
list semantics; positions are code-point positions) walked by TLC -simulate, and by a literal
encoder: for a text and a chosen valid spelling (quote kind, fence depth, raw, escapes,
formatted), the literal must denote exactly that text; a formatted string equals the join of the
to_str / format of its parts."""
import json
import os
import random

import coregen
import poolcheck
import vf

LEVEL = "model_checking"

SYM = {"a": "a", "A": "A", "s": "s", "S": "S", "i": "i", "I": "I", "sp": " ", "e1": "é", "E1": "É",
       "ss": "ß", "Id": "İ", "cd": "̇", "zh": "中", "em": "\U0001F600"}


def s_of(syms):
    return "".join(SYM[x] for x in syms)


def fix_terms(t):
    """symlit nodes -> string literals"""
    if isinstance(t, dict):
        if t.get("k") == "symlit":
            return {"k": "lit", "ty": "str", "v": s_of(t["v"])}
        return {k: fix_terms(v) for k, v in t.items()}
    if isinstance(t, list):
        return [fix_terms(x) for x in t]
    return t


def conv(v):
    t = v.get("t")
    if t == "sym":
        return {"t": "str", "v": s_of(v["v"])}
    if t == "syms":
        return {"t": "seq", "inf": False, "v": [{"t": "str", "v": s_of(x)} for x in v["v"]]}
    if t == "sympair":
        return {"t": "struct", "v": [{"t": "str", "v": s_of(x)} for x in v["v"]]}
    return v


def literal_cases(rnd, n):
    """(source literal, expected text): encode a text in a randomly chosen valid spelling"""
    alphabet = ["a", "Z", " ", "é", "中", "\U0001F600", "́", '"', "'", "\\", "{", "}", "#", "\n", "\t", "0"]
    out = []
    # texts that look like escape sequences, format fields or fences themselves
    tricky = ["\\u{41}", "\\u{1F600}", "\\n", "\\\\n", "\\u", "\\u{zz}", "\\u{", "u{41}", "{0}", "{{0}}", "\\{", "\\'", '\\"', "\\0", "\\t\\r", "#\"#", "'#", "a\\", "\\\\",
              "\\u{41}\\u{42}", "x\\u{e9}y", "\\x41", "%s", "{x}", "{x:>5}", "}{", "\\}"]
    plan = [(t, kd, qq) for t in tricky for kd in ("plain", "raw", "fenced", "rawfenced", "fmt") for qq in ('"', "'")]
    plan += [None] * n
    for item in plan:
        if item is not None:
            text, kind, q = item
        else:
            text = "".join(rnd.choice(alphabet) for _ in range(rnd.randint(0, 6)))
            kind = rnd.choice(["plain", "plain", "raw", "fenced", "rawfenced", "fmt"])
            q = rnd.choice(['"', "'"])
        if kind in ("plain", "fmt"):
            enc = ""
            for ch in text:
                if ch == "\\":
                    enc += "\\\\"
                elif ch == q:
                    enc += "\\" + q
                elif ch == "\n":
                    enc += rnd.choice(["\\n", "\n"])
                elif ch == "\t":
                    enc += rnd.choice(["\\t", "\t"])
                # \\u{..} inside a formatted string collides with the expression braces: left open
                elif kind != "fmt" and ch == "0" and rnd.random() < 0.3:
                    enc += "\\u{30}"
                elif kind != "fmt" and ch == "é" and rnd.random() < 0.5:
                    enc += "\\u{e9}"
                elif kind != "fmt" and ch == "\U0001F600" and rnd.random() < 0.5:
                    enc += "\\u{1F600}"
                elif kind == "fmt" and ch in "{}":
                    enc += ch * 2
                else:
                    enc += ch
            out.append((("f" if kind == "fmt" else "") + q + enc + q, text))
        elif kind == "raw":
            if q in text or "\n" in text and False:
                continue
            if text.endswith("\\") and False:
                continue
            out.append(("r" + q + text + q, text))
        else:
            fence = "#" * rnd.randint(1, 2)
            if (q + fence) in text or (kind == "fenced" and "\\" in text):
                continue
            if kind == "fenced":
                out.append((fence + q + text + q + fence, text))
            else:
                out.append(("r" + fence + q + text + q + fence, text))
    return out


def strings_part(chk, n, seed, name="c18"):
    r = vf.tlc("XrStr", "XrStr.cfg", name, simulate=n, depth=16, seed=seed, timeout=3000)
    cases = r.cases()
    if not cases or "Error:" in r.out:
        raise vf.ToolError("XrStr failed:\n" + r.out[-2500:])
    chk.add_tlc(r)
    jobs = []
    for i, c in enumerate(cases):
        src = "".join("let %s = %s;\n" % (b["n"], coregen.rexpr(fix_terms(b["term"]))) for b in c["binds"])
        jobs.append({"id": "s%d" % i, "src": src, "observe": [b["n"] for b in c["binds"]], "limits": {"calls": 500000}})
    res = vf.run_jobs(jobs, name)
    chk.count(len(jobs))
    recs = []
    for j, c in zip(jobs, cases):
        o = res[j["id"]]
        oc = vf.job_outcome(o)
        chk.nontrivial(j["src"])
        for b in (c["binds"] if oc == "ok" else []):
            d = o["values"].get(b["n"]) or {}
            if d.get("t") == "str":
                recs.append(str_record(d, _job=j["id"], _bind=b["n"]))
        if oc != "ok":
            chk.violation("string program: %s %s" % (oc, str(o.get("compile", {}).get("msg") or o.get("inst"))[:300]),
                          {"kind": "str", "source": j["src"], "observed": oc})
            continue
        for b in c["binds"]:
            d = o["values"].get(b["n"])
            exp = conv(b["v"])
            got = poolcheck.norm(d)
            good = poolcheck.same_val(exp, got)
            # the dual representation: char table present iff non-ASCII, and consistent
            if good and d.get("t") == "str":
                offs, p = [], 0
                for ch in d["v"]:
                    offs.append(p)
                    p += len(ch.encode("utf-8"))
                # the table may be omitted only for all-ASCII text; when present it must be exact
                good = d["len"] == d["chars"] and (d["table"] == offs or (d["table"] == [] and d["bytes"] == d["chars"]))
                if not good:
                    exp = {"t": "str", "v": exp["v"], "note": "representation: len=%s chars=%s bytes=%s table=%s" % (d["len"], d["chars"], d["bytes"], d["table"])}
            if not good:
                chk.violation("`let %s = %s;` expected %s, observed %s" % (b["n"], coregen.rexpr(fix_terms(b["term"])), json.dumps(exp, ensure_ascii=False)[:200],
                                                                       json.dumps(got, ensure_ascii=False)[:200]),
                              {"kind": "str", "source": j["src"], "binding": b["n"], "expected": exp, "observed": got},
                              finding_key="str:" + b["term"].get("f", "lit"))
                break
    # every string value of every walk, through the representation acceptor
    for t in vf.accept_records(chk, "XrStrRepr", recs, name + "-strrepr"):
        src = [j["src"] for j in jobs if j["id"] == t["_job"]][0]
        chk.violation("str value %s is ill-formed: %s" % (t["_bind"], json.dumps({k: v for k, v in t.items() if not k.startswith("_")})),
                      {"kind": "str-repr", "source": src, "binding": t["_bind"], "record": {k: v for k, v in t.items() if not k.startswith("_")}},
                      finding_key="str:repr")
    return jobs


def str_record(d, **tags):
    return dict({"ev": "Str", "w": [len(ch.encode("utf-8")) for ch in d["v"]], "len": d["len"], "bytes": d["bytes"], "table": d["table"]}, **tags)


def boundary_part(chk, tier):
    """positions at and beyond the end (what they yield is left open by std/str.md): whatever comes back, a str value must
    be well-formed - decided by the acceptor XrStrRepr on (character widths, len, bytes, table)."""
    texts = ["abcd\u00e9", "a\U0001F600", "\u20acuro", "\u00e9\u00e9", "ab", "\u4e2d\u00e9x\U0001F600y", "x\u0301\u00df"]
    if tier != "quick":
        texts += ["\U0001F600\U0001F600a", "a\u00e9b\u4e2dc\U0001F600", "\u00df\u00df\u00df\u00df"]
    jobs, metas = [], {}
    for ti, t in enumerate(texts):
        n, nb = len(t), len(t.encode("utf-8"))
        lines, names = ["let t = %s;\n" % json.dumps(t, ensure_ascii=False)], []
        for a in range(0, n + 2):
            for b in range(a, nb + 4):
                nm = "r%d_%d" % (a, b)
                lines.append("let %s = t.substring(%d, %d);\nlet l%s = %s.len();\nlet u%s = (%s + \"\u00e9\").len();\n" % (nm, a, b, nm, nm, nm, nm))
                names += [nm, "l" + nm, "u" + nm]
            lines.append("let q%d = t.substring(%d);\n" % (a, a))
            names.append("q%d" % a)
        jobs.append({"id": "bd%d" % ti, "src": "".join(lines), "observe": names, "limits": {"calls": 500000}})
        metas["bd%d" % ti] = t
    res = vf.run_jobs(jobs, "c18-bound")
    recs = []
    for j in jobs:
        o = res[j["id"]]
        if vf.job_outcome(o) != "ok":
            chk.violation("substring boundary program: %s %s" % (vf.job_outcome(o), str(o.get("compile", {}).get("msg") or o.get("inst") or o.get("crash"))[:300]),
                          {"kind": "str", "source": j["src"], "observed": vf.job_outcome(o)})
            continue
        for nm in j["observe"]:
            d = o["values"].get(nm) or {}
            chk.count(1)
            if d.get("t") == "str":
                recs.append(str_record(d, _job=j["id"], _bind=nm))
                ln, un = o["values"].get("l" + nm, {}), o["values"].get("u" + nm, {})
                if nm.startswith("r") and (str(ln.get("v")) != str(len(d["v"])) or str(un.get("v")) != str(len(d["v"]) + 1)):
                    chk.violation("%s = %r.%s is %r but its len() is %s and the len() of it + \"\u00e9\" is %s" %
                                  (nm, metas[j["id"]], "substring(%s)" % nm[1:].replace("_", ", "), d["v"], ln.get("v"), un.get("v")),
                                  {"kind": "str", "source": j["src"], "binding": "l" + nm, "expected": {"t": "int", "v": str(len(d["v"]))}, "observed": ln},
                                  finding_key="str:substring-boundary")
    chk.nontrivial("boundary")
    for t in vf.accept_records(chk, "XrStrRepr", recs, "c18-strrepr"):
        src = [j["src"] for j in jobs if j["id"] == t["_job"]][0]
        chk.violation("str value %s of %r is ill-formed: %s" % (t["_bind"], metas[t["_job"]], json.dumps({k: v for k, v in t.items() if not k.startswith("_")})),
                      {"kind": "str-repr", "source": src, "binding": t["_bind"], "record": {k: v for k, v in t.items() if not k.startswith("_")}},
                      finding_key="str:repr")
    chk.part("boundaries", texts=len(texts), values_validated=len(recs))


# --------------------------------------------------------------------------------------------
# regular expressions: positions are code-point positions (acceptor XrRegex)

RX_ALPHA = ["a", "b", "é", "中", "\U0001F600"]          # 1, 1, 2, 3, 4 bytes


def rx_gen(rnd, depth, gctr):
    k = rnd.random()
    if depth <= 0 or k < 0.3:
        return {"t": "any"} if rnd.random() < 0.15 else {"t": "sym", "c": rnd.randrange(len(RX_ALPHA))}
    if k < 0.55:
        return {"t": "cat", "a": rx_gen(rnd, depth - 1, gctr), "b": rx_gen(rnd, depth - 1, gctr)}
    if k < 0.7:
        return {"t": "alt", "a": rx_gen(rnd, depth - 1, gctr), "b": rx_gen(rnd, depth - 1, gctr)}
    if k < 0.9:
        return {"t": rnd.choice(["star", "plus", "opt"]), "a": rx_gen(rnd, depth - 1, gctr)}
    gctr[0] += 1
    kk = gctr[0]
    return {"t": "grp", "k": kk, "a": rx_gen(rnd, depth - 1, gctr)}


def rx_text(p):
    t = p["t"]
    if t == "sym":
        return RX_ALPHA[p["c"]]
    if t == "any":
        return "."
    if t == "cat":
        return rx_text(p["a"]) + rx_text(p["b"])
    if t == "alt":
        return "(?:%s|%s)" % (rx_text(p["a"]), rx_text(p["b"]))
    if t == "grp":
        return "(%s)" % rx_text(p["a"])
    return "(?:%s)%s" % (rx_text(p["a"]), {"star": "*", "plus": "+", "opt": "?"}[t])


def rx_ngroups(p):
    return (1 if p["t"] == "grp" else 0) + sum(rx_ngroups(p[f]) for f in ("a", "b") if f in p)


def rx_record(v, m):
    rec = {"ev": "Rx", "p": m["p"], "s": m["s"], "i": m["i"], "j": m["j"], "found": bool(v["f"].get("v")), "st": 0, "en": 0, "txt": [], "groups": []}
    if rec["found"]:
        spans = v["g"]["v"]["v"]
        t0 = v["t"]["v"]["v"]["v"]
        rec["st"], rec["en"] = int(spans[0]["v"]["v"][0]["v"]), int(spans[0]["v"]["v"][1]["v"])
        rec["txt"] = [RX_ALPHA.index(ch) for ch in t0]
        for k in range(1, len(spans)):
            sp = spans[k]["v"]
            rec["groups"].append({"k": k, "has": sp is not None, "st": int(sp["v"][0]["v"]) if sp else 0, "en": int(sp["v"][1]["v"]) if sp else 0})
        if len(spans) != rx_ngroups(m["p"]) + 1:
            raise ValueError("group count %d, pattern has %d" % (len(spans) - 1, rx_ngroups(m["p"])))
    return rec


def regex_part(chk, n, seed):
    """search / match over texts mixing 1-4 byte characters: every answer of the interpreter (found or not, group spans,
    the text of group 0) is one record decided by the acceptor XrRegex (leftmost start, a word of the pattern, spans and
    text in code points)."""
    rnd = random.Random(seed * 7919 + 18)
    jobs, metas = [], {}
    for c in range(n):
        gctr = [0]
        # groups are numbered in the order their "(" appears: generate, then renumber in pre-order
        p = rx_gen(rnd, rnd.choice([1, 2, 2, 3]), gctr)
        ctr = [0]

        def renum(q):
            if q["t"] == "grp":
                ctr[0] += 1
                q["k"] = ctr[0]
            for f in ("a", "b"):
                if f in q:
                    renum(q[f])
        renum(p)
        s = [rnd.randrange(len(RX_ALPHA)) for _ in range(rnd.choice([0, 1, 2, 3, 4, 5, 6, 8]))]
        txt = "".join(RX_ALPHA[k] for k in s)
        i = rnd.choice([0, 0, 1, 2, len(s), max(0, len(s) - 1)])
        form = rnd.choice(["search2", "search1", "search3", "match"])
        if form == "search1":
            call, i, j = "r.search(s)", 0, len(s)
        elif form == "search2":
            call, j = "r.search(s, %d)" % i, len(s)
        elif form == "search3":
            j = rnd.choice([i, i + 1, len(s), len(s) + 3, len(txt.encode("utf-8")) + 1])
            call = rnd.choice(["r.search(s, %d, %d)", "r.search(s, %d, some(%d))"]) % (i, j)
        else:
            call, j = "r.match(s, %d)" % i, i
        src = ("let r = regex(%s);\nlet s = %s;\nlet m = %s;\nlet f = m.has_value();\n"
               "let g = m.map((m: Match)->{m::_groups});\nlet t = m.map((m: Match)->{m[0]});\n"
               % (json.dumps(rx_text(p), ensure_ascii=False), json.dumps(txt, ensure_ascii=False), call))
        jid = "rx%d" % c
        jobs.append({"id": jid, "src": src, "observe": ["f", "g", "t"], "limits": {"calls": 100000, "search": 100000}, "perms": {"regex": True}})
        metas[jid] = {"p": p, "s": s, "i": i, "j": j, "ngroups": ctr[0]}
    res = vf.run_jobs(jobs, "c18-regex")
    recs = []
    for jb in jobs:
        o, m = res[jb["id"]], metas[jb["id"]]
        chk.count(1)
        oc = vf.job_outcome(o)
        if oc != "ok":
            chk.violation("regex program: %s %s" % (oc, str(o.get("compile", {}).get("msg") or o.get("inst") or o.get("crash"))[:300]),
                          {"kind": "regex", "source": jb["src"], "observed": oc}, finding_key="regex:" + oc)
            continue
        v = o["values"]
        try:
            rec = rx_record(v, m)
        except (KeyError, TypeError, ValueError, IndexError) as ex:
            chk.violation("regex answer cannot be read (%s): %s" % (ex, json.dumps(v, ensure_ascii=False)[:300]),
                          {"kind": "regex", "source": jb["src"], "observed": v}, finding_key="regex:shape")
            continue
        rec["_job"] = jb["id"]
        if rec["found"]:
            chk.nontrivial(jb["src"])
        recs.append(rec)
    for t in vf.accept_records(chk, "XrRegex", recs, "c18-regex"):
        src = [j["src"] for j in jobs if j["id"] == t["_job"]][0]
        chk.violation("regex answer is not the leftmost match in code points: found=%s span=(%s, %s) text=%r for %s" %
                      (t["found"], t["st"], t["en"], "".join(RX_ALPHA[k] for k in t["txt"]), src.replace("\n", " ")[:200]),
                      {"kind": "regex", "source": src, "record": {k: v for k, v in t.items() if not k.startswith("_")}}, finding_key="regex:answer")
    chk.part("regex", programs=len(jobs), found=sum(1 for r in recs if r["found"]))


def run(chk, tier, seed):
    rnd = random.Random(seed)
    if os.environ.get("VERIF_ONLY") == "regex":          # development aid: one part alone
        regex_part(chk, 600 if tier == "quick" else 6000, seed)
        return
    jobs = strings_part(chk, 2500 if tier == "quick" else 10000, seed)
    boundary_part(chk, tier)
    regex_part(chk, 600 if tier == "quick" else 6000, seed)
    # literals
    lits = literal_cases(rnd, 400 if tier == "quick" else 5000)
    lj = []
    B = 50
    for b in range(0, len(lits), B):
        chunk = lits[b:b + B]
        lj.append({"id": "l%d" % b, "src": "".join("let v%d = %s;\n" % (k, l) for k, (l, _) in enumerate(chunk)),
                   "observe": ["v%d" % k for k in range(len(chunk))], "_chunk": chunk})
    lres = vf.run_jobs([{k: v for k, v in j.items() if k != "_chunk"} for j in lj], "c18-lit")
    solo = []
    for j in lj:
        if vf.job_outcome(lres[j["id"]]) != "ok":
            for k, (l, t) in enumerate(j["_chunk"]):
                solo.append({"id": "%s_%d" % (j["id"], k), "src": "let v0 = %s;\n" % l, "observe": ["v0"], "_chunk": [(l, t)]})
    lres.update(vf.run_jobs([{k: v for k, v in j.items() if k != "_chunk"} for j in solo], "c18-lit-solo"))
    for j in lj + solo:
        o = lres[j["id"]]
        if vf.job_outcome(o) != "ok" and len(j["_chunk"]) > 1:
            continue
        for k, (l, t) in enumerate(j["_chunk"]):
            chk.count(1)
            chk.nontrivial(l)
            got = o.get("values", {}).get("v%d" % k, {}) if vf.job_outcome(o) == "ok" else {"t": vf.job_outcome(o), "v": str(o.get("compile", {}).get("msg"))[:200]}
            if got.get("t") != "str" or got.get("v") != t:
                chk.violation("literal %r should denote %r, observed %r" % (l, t, got.get("v")),
                              {"kind": "literal", "source": "let v0 = %s;\n" % l, "expected": t, "observed": got})
    # formatted strings equal the join of their parts
    fj = {"id": "fmt", "src": 'let x = 42;\nlet s = "hé";\nlet b = true;\n'
          'let f0 = f"a{x}b";\nlet e0 = "a" + x.to_str() + "b";\n'
          'let f1 = f"{s}{s}";\nlet e1 = s + s;\n'
          'let f2 = f"{x:>5}|{x:<4}|{x:^6}|{x:+}|{x:05}";\nlet e2 = [format(x, ">5"), format(x, "<4"), format(x, "^6"), format(x, "+"), format(x, "05")].join("|");\n'
          'let f3 = f"{{}}{b}";\nlet e3 = "{}" + b.to_str();\n'
          'let f4 = f"{x + 1}-{[1, 2].len()}";\nlet e4 = (x + 1).to_str() + "-" + [1, 2].len().to_str();\n',
          "observe": ["f0", "e0", "f1", "e1", "f2", "e2", "f3", "e3", "f4", "e4"]}
    fo = vf.run_jobs([fj], "c18-fmt")["fmt"]
    chk.count(5)
    if vf.job_outcome(fo) != "ok":
        chk.violation("formatted-string program: " + vf.job_outcome(fo) + str(fo.get("compile", {}).get("msg"))[:200], {"kind": "fmt", "source": fj["src"]})
    else:
        for k in range(5):
            if fo["values"]["f%d" % k].get("v") != fo["values"]["e%d" % k].get("v"):
                chk.violation("formatted string f%d = %r differs from the join of its parts %r" % (k, fo["values"]["f%d" % k].get("v"), fo["values"]["e%d" % k].get("v")),
                              {"kind": "fmt", "source": fj["src"], "binding": "f%d" % k})
    chk.part("strings", programs=len(jobs), literals=len(lits))
    chk.sample({"source": jobs[len(jobs) // 2]["src"][:700]})
    chk.cov["rule"] = ("TLC -simulate walks of XrStr (14 operations per program over a 14-symbol alphabet of 1-4 byte characters, "
                       "combining marks and case-expanding characters) + literal spellings generated by encoding a text "
                       "(quote kind, fences, raw, escapes, formatted) + formatted-string/join identities; non-trivial = distinct program / literal")
    chk.assumptions += ["negative substring / find positions, empty needles and positions beyond the end are left open by std/str.md and not generated"]


def replay(chk, path):
    rp = json.load(open(path))
    names = [rp["binding"]] if "binding" in rp else ["v0"]
    o = vf.run_jobs([{"id": "r", "src": rp["source"], "observe": names}], "replay")["r"]
    oc = vf.job_outcome(o)
    chk.count(1)
    chk.nontrivial("replay")
    chk.nontrivial(rp["source"])
    chk.sample({"source": rp["source"][:300], "outcome": oc})
    if rp.get("kind") == "regex":
        o = vf.run_jobs([{"id": "r", "src": rp["source"], "observe": ["f", "g", "t"], "perms": {"regex": True}, "limits": {"calls": 100000, "search": 100000}}], "replay")["r"]
        if vf.job_outcome(o) != "ok" or "record" not in rp:
            if vf.job_outcome(o) != "ok":
                chk.violation("still " + vf.job_outcome(o), rp)
            return chk.finish()
        try:
            rec = rx_record(o["values"], rp["record"])
        except (KeyError, TypeError, ValueError, IndexError):
            chk.violation("still unreadable", rp)
            return chk.finish()
        if vf.accept_records(chk, "XrRegex", [rec], "c18-replay-regex"):
            chk.violation("still not the leftmost code-point match", rp)
        return chk.finish()
    if rp.get("kind") == "str-repr" and oc == "ok":
        d = o["values"].get(names[0]) or {}
        if d.get("t") == "str" and vf.accept_records(chk, "XrStrRepr", [str_record(d)], "c18-replay-repr"):
            chk.violation("still ill-formed", rp)
        return chk.finish()
    got = poolcheck.norm(o.get("values", {}).get(names[0])) if oc == "ok" else None
    exp = rp.get("expected")
    if oc != "ok" or (isinstance(exp, dict) and not poolcheck.same_val(exp, got)) or (isinstance(exp, str) and got.get("v") != exp):
        chk.violation("still deviates", rp)
    return chk.finish()
