"""C02 - Core evaluation follows the documented semantics.

Decided by: XrEval/XrCore (reference semantics, TLC evaluates every generated program and
predicts the value of every top-level binding, every host-call result and every output line),
XrSyntax (TLC enumerates all operator chains of 2 and 3 binary operators and predicts the value
of the documented grouping).  The harness renders the ASTs (random call spelling per call
site: f(a,b) / a.f(b) / a op b / a[b]) and compares binding by binding, line by line."""
import json
import os
import random

import coregen
import corecheck
import vf
from checks import c07

LEVEL = "model_checking"


def overload_programs(seed):
    """user overloads of operator / index / method names take effect through every spelling"""
    V = lambda n: {"k": "var", "n": n}
    S = lambda s: {"k": "lit", "ty": "str", "v": s}
    I = lambda i: {"k": "lit", "ty": "int", "v": i}
    progs = []
    specs = [("sub", "-"), ("mul", "*"), ("mod", "%"), ("lt", "<"), ("bit_or", "|"), ("pow", "**")]
    for k, (name, _sym) in enumerate(specs):
        body = {"k": "call", "f": "add", "args": [{"k": "call", "f": "add", "args": [V("a"), S("<" + name + ">")], "sty": "op"}, V("b")], "sty": "op"}
        decls = [{"k": "fn", "n": name, "ovl": True, "sig": ["str", "str"], "rty": "str",
                  "ps": [{"n": "a", "ty": "str", "hasdef": False}, {"n": "b", "ty": "str", "hasdef": False}],
                  "decls": [], "ret": body}]
        for j, sty in enumerate(["fn", "method", "op"]):
            decls.append({"k": "let", "n": "s%d" % j, "ty": "str", "annot": False,
                          "e": {"k": "call", "f": name, "args": [S("x"), S("y")], "sty": sty, "sig": ["str", "str"]}})
        # the builtin int overload is still the one chosen for ints
        if name in ("sub", "mul", "mod", "lt", "pow"):
            decls.append({"k": "let", "n": "i0", "ty": "", "annot": False,
                          "e": {"k": "call", "f": name, "args": [I(7), I(2)], "sty": "op", "sig": ["int", "int"]}})
        progs.append({"id": "ovl%d" % k, "decls": decls, "calls": [], "lim": {"calls": -1, "depth": -1, "rec": -1, "search": -1}})
    # index sugar on a user type
    decls = [{"k": "struct", "n": "Box", "fields": [("m0", "int"), ("m1", "int")]},
             {"k": "fn", "n": "get", "ovl": True, "sig": ["struct", "int"], "rty": "int",
              "ps": [{"n": "p", "ty": "Box", "hasdef": False}, {"n": "i", "ty": "int", "hasdef": False}],
              "decls": [], "ret": {"k": "call", "f": "if", "sty": "fn", "args": [
                  {"k": "call", "f": "eq", "sty": "op", "args": [V("i"), I(0)]},
                  {"k": "member", "e": V("p"), "idx": 0, "name": "m0"},
                  {"k": "member", "e": V("p"), "idx": 1, "name": "m1"}]}},
             {"k": "let", "n": "b", "ty": "", "annot": False, "e": {"k": "cons", "name": "Box", "items": [I(10), I(20)]}}]
    for j, sty in enumerate(["fn", "method", "index"]):
        decls.append({"k": "let", "n": "g%d" % j, "ty": "", "annot": False,
                      "e": {"k": "call", "f": "get", "args": [V("b"), I(j % 2)], "sty": sty, "sig": ["struct", "int"]}})
    decls.append({"k": "let", "n": "h", "ty": "", "annot": False,
                  "e": {"k": "call", "f": "get", "args": [{"k": "arr", "items": [I(5), I(6)]}, I(1)], "sty": "index", "sig": ["seq", "int"]}})
    progs.append({"id": "ovlget", "decls": decls, "calls": [], "lim": {"calls": -1, "depth": -1, "rec": -1, "search": -1}})
    return progs


def optable_programs():
    """every strict integer / boolean / string operator on a grid of operands of both signs (and zero)"""
    I = lambda i: {"k": "lit", "ty": "int", "v": i}
    Bv = lambda b: {"k": "lit", "ty": "bool", "v": b}
    S = lambda s: {"k": "lit", "ty": "str", "v": s}
    grid = [-7, -3, -1, 0, 1, 2, 3, 7]
    exprs = []
    for f in ("add", "sub", "mul", "mod", "eq", "ne", "lt", "le", "gt", "ge", "cmp"):
        for a in grid:
            for b in grid:
                exprs.append({"k": "call", "f": f, "args": [I(a), I(b)], "sty": "op" if f in coregen.OPS else "fn", "sig": ["int", "int"]})
    for a in (-3, -1, 0, 1, 2, 10):
        for b in (-1, 0, 1, 2, 3):
            exprs.append({"k": "call", "f": "pow", "args": [I(a), I(b)], "sty": "op", "sig": ["int", "int"]})
    for f in ("neg", "abs", "sign"):
        for a in grid:
            exprs.append({"k": "call", "f": f, "args": [I(a)], "sty": "fn", "sig": ["int"]})
    for a in (True, False):
        exprs.append({"k": "call", "f": "not", "args": [Bv(a)], "sty": "op", "sig": ["bool"]})
        exprs.append({"k": "call", "f": "indicator", "args": [Bv(a)], "sty": "fn", "sig": ["bool"]})
        for b in (True, False):
            for f in ("and", "or", "eq"):
                exprs.append({"k": "call", "f": f, "args": [Bv(a), Bv(b)], "sty": "op" if f != "eq" else "op", "sig": ["bool", "bool"]})
    for a in ("", "a", "ab"):
        exprs.append({"k": "call", "f": "len", "args": [S(a)], "sty": "fn", "sig": ["str"]})
        for b in ("", "a", "b"):
            exprs.append({"k": "call", "f": "add", "args": [S(a), S(b)], "sty": "op", "sig": ["str", "str"]})
            exprs.append({"k": "call", "f": "eq", "args": [S(a), S(b)], "sty": "op", "sig": ["str", "str"]})
    progs = []
    for b in range(0, len(exprs), 50):
        decls = [{"k": "let", "n": "o%d" % i, "ty": "", "annot": False, "e": e} for i, e in enumerate(exprs[b:b + 50])]
        progs.append({"id": "optable%d" % b, "decls": decls, "calls": [], "lim": {"calls": -1, "depth": -1, "rec": -1, "search": -1}})
    return progs


def shortcircuit_programs():
    """each documented short-circuit function: the unselected argument is display-wrapped"""
    B = lambda b: {"k": "lit", "ty": "bool", "v": b}
    I = lambda i: {"k": "lit", "ty": "int", "v": i}
    D = lambda e: {"k": "call", "f": "display", "args": [e], "sty": "fn"}
    C = lambda f, args, **kw: dict({"k": "call", "f": f, "args": args, "sty": "fn"}, **kw)
    none_i = C("none", [], cast="Optional<int>")
    some = lambda e: C("some", [e])
    err = lambda t: C("error", [{"k": "lit", "ty": "str", "v": "boom"}], cast=t)
    decls = []
    k = [0]

    def let(e):
        k[0] += 1
        decls.append({"k": "let", "n": "s%d" % k[0], "ty": "", "annot": False, "e": e})
    for c in (True, False):
        let(C("if", [D(B(c)), D(I(1)), D(I(2))]))
        let(C("and", [D(B(c)), D(B(True))]))
        let(C("or", [D(B(c)), D(B(False))]))
        let(C("then", [D(B(c)), D(I(3))]))
    for x in (some(I(4)), none_i):
        let(C("opt_or", [x, some(D(I(5)))]))
        let(C("opt_or_val", [x, D(I(6))]))
        let(C("opt_and", [x, some(D(I(7)))]))
    for x in (I(8), err("int")):
        let(C("if_error", [x, D(I(9))]))
        let(C("is_error", [x]))
        let(C("get_error", [x]))
    # strict functions evaluate every argument exactly once, left to right
    let(C("add", [D(I(1)), D(I(2))], sty="op"))
    let({"k": "arr", "items": [D(I(3)), D(I(4)), D(I(5))]})
    let({"k": "tup", "items": [D(I(6)), D(B(True))]})
    let(C("sub", [D(I(7)), C("mul", [D(I(8)), D(I(9))], sty="op")], sty="op"))
    return [{"id": "shortcircuit", "decls": decls, "calls": [], "lim": {"calls": -1, "depth": -1, "rec": -1, "search": -1}}]


def precedence(chk, tier):
    r = vf.tlc("XrSyntax", "XrSyntax.cfg", "c02-syn", workers=1)
    if not r.ok:
        raise vf.ToolError("XrSyntax failed:\n" + r.out[-2000:])
    chk.add_tlc(r)
    cases = r.cases()
    if tier == "quick":
        cases = [c for i, c in enumerate(cases) if len(c["ops"]) == 2 or i % 4 == chk.seed % 4]

    def lit(l, neg):
        if l["ty"] == "int":
            return ("-" if neg else "") + str(l["v"])
        return ("!" if neg else "") + ("true" if l["v"] else "false")

    def text(c):
        parts = [lit(c["leaves"][0], c["neg"])]
        for o, l in zip(c["ops"], c["leaves"][1:]):
            parts += [o, lit(l, False)]
        return " ".join(parts)
    jobs, meta = [], {}
    B = 60
    for b in range(0, len(cases), B):
        chunk = cases[b:b + B]
        src = "".join("let c%d = %s;\n" % (i, text(c)) for i, c in enumerate(chunk))
        jid = "prec%d" % b
        jobs.append({"id": jid, "src": src, "observe": ["c%d" % i for i in range(len(chunk))]})
        meta[jid] = chunk
    res = vf.run_jobs(jobs, "c02-prec")
    # a batch that does not compile is re-run one chain at a time
    solo = []
    for j in jobs:
        if vf.job_outcome(res[j["id"]]) != "ok":
            for i, c in enumerate(meta[j["id"]]):
                sid = "%s_%d" % (j["id"], i)
                solo.append({"id": sid, "src": "let c0 = %s;\n" % text(c), "observe": ["c0"]})
                meta[sid] = [c]
    res.update(vf.run_jobs(solo, "c02-prec-solo"))
    done = set()
    for j in jobs + solo:
        oc = vf.job_outcome(res[j["id"]])
        if oc != "ok" and len(meta[j["id"]]) > 1:
            continue
        for i, c in enumerate(meta[j["id"]]):
            t = text(c)
            if t in done:
                continue
            done.add(t)
            chk.count(1)
            chk.nontrivial(t)
            if oc != "ok":
                chk.violation("operator chain `%s` is well-typed under the documented grouping but: %s" % (t, oc),
                              {"kind": "precedence", "chain": t, "expected": c["expect"],
                               "observed": {k: v for k, v in res[j["id"]].items() if k in ("compile", "inst")}})
                continue
            got = corecheck.norm_dump(res[j["id"]]["values"].get("c%d" % i))
            if not corecheck.same(c["expect"], got):
                chk.violation("operator chain `%s`: documented grouping gives %s, observed %s" %
                              (t, json.dumps(c["expect"]), json.dumps(got)),
                              {"kind": "precedence", "chain": t, "expected": c["expect"], "observed": got})
    chk.part("precedence", chains=len(done))
    chk.sample({"chain": text(cases[len(cases) // 3]), "expected": cases[len(cases) // 3]["expect"]})


# --------------------------------------------------------------------------------------------
# float operators on values where the arithmetic is exact (acceptor XrFloatExact)

def _dy(n, k):
    while k > 0 and n % 2 == 0:
        n, k = n // 2, k - 1
    return {"n": n, "k": k}


def _flit(d):
    t = repr(d["n"] / (2 ** d["k"]))
    if "e" in t or "inf" in t:
        raise ValueError(t)
    return "(%s)" % t if t.startswith("-") else t


def _fobs(d):
    """dump of a float / int / error -> the acceptor's result record"""
    import struct
    if d is None or d.get("t") == "err":
        return {"err": True, "big": False, "n": 0, "k": 0}
    if d.get("t") == "int":
        v = int(d["v"])
        return {"err": False, "big": abs(v) >= 2 ** 30, "n": v if abs(v) < 2 ** 30 else 0, "k": 0}
    x = struct.unpack("<d", struct.pack("<Q", int(d["bits"])))[0]
    num, den = x.as_integer_ratio()
    k = den.bit_length() - 1
    if abs(num) >= 2 ** 30 or k > 200:
        return {"err": False, "big": True, "n": 0, "k": 0}
    return {"err": False, "big": False, "n": num, "k": k}


def float_cases(seed, n):
    rnd = random.Random(seed * 31337 + 2)
    small = lambda: _dy(rnd.randint(-31, 31), rnd.randint(0, 4))
    mid = lambda: _dy(rnd.randint(-4000, 4000), rnd.randint(0, 6))
    sq = lambda: _dy(rnd.randint(0, 40) ** 2, 2 * rnd.randint(0, 3))
    cases = []
    for i in range(n):
        op = rnd.choice(["add", "sub", "mul", "pow", "pow", "pow", "powi", "sqrt", "floor", "ceil", "neg", "abs"])
        b = {"n": 0, "k": 0}
        if op in ("add", "sub", "mul"):
            a, b = mid(), mid()
            src = "%s %s %s" % (_flit(a), {"add": "+", "sub": "-", "mul": "*"}[op], _flit(b))
        elif op == "pow":
            kind = rnd.randrange(5)
            if kind == 0:
                a, b = small(), _dy(rnd.randint(0, 6), 0)
            elif kind == 1:
                a, b = _dy(0, 0), rnd.choice([_dy(1, 1), _dy(1, 2), _dy(3, 2), _dy(3, 1), _dy(2, 0), _dy(127, 7), _dy(1, 0)])
            elif kind == 2:
                a, b = sq(), _dy(1, 1)
            elif kind == 3:
                a, b = _dy(rnd.randint(1, 31), rnd.randint(0, 3)), rnd.choice([_dy(1, 1), _dy(1, 2), _dy(3, 2), _dy(5, 1)])
            else:
                a, b = small(), rnd.choice([_dy(0, 0), _dy(-1, 0), _dy(-1, 1), _dy(1, 1)])
            src = "%s ** %s" % (_flit(a), _flit(b))
        elif op == "powi":
            a, b = small(), _dy(rnd.randint(-1, 6), 0)
            src = "%s ** %s" % (_flit(a), "(%d)" % b["n"] if b["n"] < 0 else str(b["n"]))
        elif op == "sqrt":
            a = rnd.choice([sq, sq, small])()
            src = "sqrt(%s)" % _flit(a)
        else:
            a = mid()
            src = {"floor": "floor(%s)", "ceil": "ceil(%s)", "neg": "-%s", "abs": "abs(%s)"}[op] % _flit(a)
        cases.append({"op": op, "a": a, "b": b, "src": src})
    return cases


def floats_part(chk, tier, seed):
    cases = float_cases(seed, 1500 if tier == "quick" else 15000)
    jobs, B = [], 100
    for b0 in range(0, len(cases), B):
        chunk = cases[b0:b0 + B]
        jobs.append({"id": "fx%d" % b0, "src": "".join("let x%d = %s;\n" % (i, c["src"]) for i, c in enumerate(chunk)),
                     "observe": ["x%d" % i for i in range(len(chunk))], "_chunk": chunk})
    res = vf.run_jobs([{k: v for k, v in j.items() if k != "_chunk"} for j in jobs], "c02-floats")
    recs = []
    for j in jobs:
        o = res[j["id"]]
        if vf.job_outcome(o) != "ok":
            chk.violation("float operator program: %s %s" % (vf.job_outcome(o), str(o.get("compile", {}).get("msg") or o.get("inst") or o.get("crash"))[:300]),
                          {"kind": "float", "source": j["src"], "observed": vf.job_outcome(o)})
            continue
        for i, c in enumerate(j["_chunk"]):
            chk.count(1)
            chk.nontrivial(c["src"])
            recs.append({"ev": "Fx", "op": c["op"], "a": c["a"], "b": c["b"], "r": _fobs(o["values"].get("x%d" % i)), "_src": c["src"],
                         "_got": o["values"].get("x%d" % i)})
    for t in vf.accept_records(chk, "XrFloatExact", recs, "c02-floats"):
        chk.violation("float operator: `%s` gives %s, which is not the exact result" % (t["_src"], json.dumps({k: t["_got"].get(k) for k in ("t", "v", "m")} if t["_got"] else None)),
                      {"kind": "float", "source": "let x0 = %s;\n" % t["_src"], "record": {k: v for k, v in t.items() if not k.startswith("_")}},
                      finding_key="float:" + t["op"])
    chk.part("floats", cases=len(cases), validated=len(recs))


def run(chk, tier, seed):
    if os.environ.get("VERIF_ONLY") == "floats":          # development aid: one part alone
        floats_part(chk, tier, seed)
        return
    precedence(chk, tier)
    floats_part(chk, tier, seed)
    n1, n2 = (500, 60) if tier == "quick" else (5000, 600)
    progs = []
    for i in range(n1):
        progs.append(coregen.Gen(seed * 7919 + i, max_depth=3, n_decls=6, p_disp=0.2).program("a%d" % i))
    for i in range(n2):
        progs.append(coregen.Gen(seed * 104729 + i, max_depth=6 if tier == "quick" else 7,
                                 n_decls=14 if tier == "quick" else 30, p_err=0.04, p_disp=0.1).program("b%d" % i))
    progs += overload_programs(seed) + shortcircuit_programs() + optable_programs() + c07.error_arg_programs(limits=False)
    for b in range(0, len(progs), 1500):
        corecheck.run_core(chk, progs[b:b + 1500], "c02-%d" % b)
    chk.cov["rule"] = ("typed random programs of the core fragment (literals, operators/method/index sugar, let, "
                       "struct/union/tuple/sequence/optional, if/and/or/then, errors, user functions with defaults, "
                       "lambdas, closures, recursion, display) evaluated by XrEval under TLC; all operator chains of "
                       "2-3 binary operators; user overloads of operator names; documented short-circuit set. "
                       "non-trivial = distinct rendered program (or chain) whose run is not tainted by model bounds")
    chk.assumptions += ["integers beyond +-1e8 and builtin error texts are outside the model (tainted / wildcard)",
                        "whether arguments right of an error argument are evaluated is left open (natives stop at the first error)"]


def replay(chk, path):
    rp = json.load(open(path))
    if rp.get("kind") == "precedence":
        res = vf.run_jobs([{"id": "r", "src": "let c0 = %s;\n" % rp["chain"], "observe": ["c0"]}], "replay")["r"]
        got = corecheck.norm_dump(res.get("values", {}).get("c0"))
        chk.count(1)
        chk.nontrivial(rp["chain"])
        chk.nontrivial("replay")
        chk.sample({"chain": rp["chain"], "observed": got})
        if not corecheck.same(rp["expected"], got):
            chk.violation("operator chain `%s` still deviates" % rp["chain"], rp)
        return chk.finish()
    if rp.get("kind") == "float":
        o = vf.run_jobs([{"id": "r", "src": rp["source"], "observe": ["x0"]}], "replay")["r"]
        chk.count(1)
        chk.nontrivial("replay")
        chk.nontrivial(rp["source"])
        if vf.job_outcome(o) != "ok" or "record" not in rp:
            if vf.job_outcome(o) != "ok":
                chk.violation("still " + vf.job_outcome(o), rp)
            return chk.finish()
        rec = dict(rp["record"], r=_fobs(o["values"].get("x0")))
        if vf.accept_records(chk, "XrFloatExact", [rec], "c02-replay-floats"):
            chk.violation("still not the exact result", rp)
        return chk.finish()
    return corecheck.replay_core(chk, path)
