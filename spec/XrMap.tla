-------------------------------- MODULE XrMap --------------------------------
(***************************************************************************)
(* M5 (mappings and sets): a Mapping / Set built with ANY hash function    *)
(* and equality that agree behaves as a finite map / set over the          *)
(* equivalence classes of that equality (std/mapping.md, std/set.md),      *)
(* whatever the collisions, insertion order or internal layout.  Every     *)
(* update returns a new collection; all earlier versions stay unchanged.   *)
(*                                                                         *)
(* A program picks one (hash, equality) pair:                              *)
(*   eqm   equality = congruence modulo eqm (eqm = 0: identity)            *)
(*   hm    hash(x) = class(x) % hm   (hm = 1: constant hash, all collide;  *)
(*         large hm: injective on classes)                                 *)
(* then grows a pool of versions; abstract state = function from classes   *)
(* to values (mapping) or set of classes (set).  Walked with -simulate.    *)
(***************************************************************************)
EXTENDS XrEval, Json, SequencesExt, FiniteSetsExt

CONSTANT Steps
Keys == 0..5

VARIABLES pool, step, r, eqm, hm
mvars == <<pool, step, r, eqm, hm>>

Class(x) == IF eqm = 0 THEN x ELSE x % eqm
Ch(S, x) == SetToSortSeq(S, LAMBDA a, b : a < b)[(x % Cardinality(S)) + 1]
Name(i) == "m" \o ToString(i)
V(i) == [k |-> "var", n |-> pool[i].n]
Lit(x) == [k |-> "lit", ty |-> "int", v |-> x]
Call(f, as) == [k |-> "call", f |-> f, args |-> as, sty |-> "method"]
Raw(s) == [k |-> "raw", src |-> s]
Op2(f, a, b) == [k |-> "call", f |-> f, args |-> <<a, b>>, sty |-> "op"]

Ents(kind) == {i \in 1..Len(pool) : pool[i].k = kind /\ ~pool[i].err}
New(kind, v, term) == [n |-> Name(Len(pool) + 1), k |-> kind, err |-> FALSE, v |-> v, term |-> term]
NewErr(kind, term) == [n |-> Name(Len(pool) + 1), k |-> kind, err |-> TRUE, v |-> <<>>, term |-> term]

\* clear() returns Mapping<K, ?>: no value type, hence no derived hash
IdxOf(nm) == CHOOSE j \in 1..Len(pool) : pool[j].n = nm
RECURSIVE IsClear(_)
IsClear(i) ==
    LET t == pool[i].term
    IN IF t.k # "call" THEN FALSE
       ELSE IF t.f = "clear" THEN TRUE
       ELSE IF t.f = "set" THEN FALSE          \* set binds the value type again
       ELSE \E a \in 1..Len(t.args) :
               t.args[a].k = "var" /\ pool[IdxOf(t.args[a].n)].k = "map" /\ IsClear(IdxOf(t.args[a].n))
\* abstract mapping: function from classes to int values
MSet(m, k, v) == [c \in DOMAIN m \cup {Class(k)} |-> IF c = Class(k) THEN v ELSE m[c]]
MDel(m, k) == [c \in DOMAIN m \ {Class(k)} |-> m[c]]
RECURSIVE MUpdate(_, _, _), MCount(_, _, _), SAddAll(_, _, _)
MUpdate(m, kvs, i) == IF i > Len(kvs) THEN m ELSE MUpdate(MSet(m, kvs[i][1], kvs[i][2]), kvs, i + 1)
MCount(m, ks, i) == IF i > Len(ks) THEN m
                    ELSE MCount(MSet(m, ks[i], (IF Class(ks[i]) \in DOMAIN m THEN m[Class(ks[i])] ELSE 0) + 1), ks, i + 1)
RECURSIVE MFromKeys(_, _, _)
\* update_from_keys: on_vacant = 100, on_occupied = v + 1, key by key
MFromKeys(m, ks, i) == IF i > Len(ks) THEN m
                       ELSE MFromKeys(MSet(m, ks[i], IF Class(ks[i]) \in DOMAIN m THEN m[Class(ks[i])] + 1 ELSE 100), ks, i + 1)
SAddAll(s, ks, i) == IF i > Len(ks) THEN s ELSE SAddAll(s \cup {Class(ks[i])}, ks, i + 1)
EmptyMap == [c \in {} |-> 0]

KeyList(rr, n) == [j \in 1..n |-> Ch(Keys, rr[3 + j])]
ArrOf(xs) == [k |-> "arr", items |-> [j \in 1..Len(xs) |-> Lit(xs[j])]]
PairArr(ks, base) == [k |-> "arr", items |-> [j \in 1..Len(ks) |-> [k |-> "tup", items |-> <<Lit(ks[j]), Lit(base + j)>>]]]

MapOp(rr) ==
    LET S == Ents("map")
    IN IF S = {} THEN New("map", EmptyMap, Raw("MK_MAP"))
    ELSE
    LET i == Ch(S, rr[1]) m == pool[i].v  o == Ch(1..20, rr[2])  k == Ch(Keys, rr[3])  x == Ch(10..99, rr[4])
        present == Class(k) \in DOMAIN m
    IN CASE o = 1 -> New("map", MSet(m, k, x), Call("set", <<V(i), Lit(k), Lit(x)>>))
         [] o = 2 -> New("map", IF present THEN m ELSE MSet(m, k, x), Call("set_default", <<V(i), Lit(k), Lit(x)>>))
         [] o = 3 -> New("val", IF present THEN SomeV(IntV(m[Class(k)])) ELSE NoneV, Call("lookup", <<V(i), Lit(k)>>))
         [] o = 4 -> IF present THEN New("val", IntV(m[Class(k)]), Call("get", <<V(i), Lit(k)>>))
                     ELSE NewErr("val", Call("get", <<V(i), Lit(k)>>))
         [] o = 5 -> New("val", IntV(IF present THEN m[Class(k)] ELSE x), Call("get", <<V(i), Lit(k), Lit(x)>>))
         [] o = 6 -> New("val", BoolV(present), Call("contains", <<V(i), Lit(k)>>))
         [] o = 7 -> IF present THEN New("map", MDel(m, k), Call("pop", <<V(i), Lit(k)>>))
                     ELSE NewErr("map", Call("pop", <<V(i), Lit(k)>>))
         [] o = 8 -> New("map", IF present THEN MDel(m, k) ELSE m, Call("discard", <<V(i), Lit(k)>>))
         [] o = 9 -> LET n == Ch(0..3, rr[3]) ks == KeyList(rr, n)
                     IN New("map", MUpdate(m, [j \in 1..n |-> <<ks[j], x + j>>], 1),
                            Call("update", <<V(i), Call("to_generator", <<PairArr(ks, x)>>)>>))
         [] o = 10 -> LET j == Ch(S, rr[3])
                      IN New("map", [c \in DOMAIN m \cup DOMAIN pool[j].v |-> IF c \in DOMAIN pool[j].v THEN pool[j].v[c] ELSE m[c]],
                             Call("update", <<V(i), V(j)>>))
         [] o = 11 -> LET n == Ch(0..4, rr[3]) ks == KeyList(rr, n)
                      IN New("map", MCount(m, ks, 1), Call("update_counter", <<V(i), Call("to_generator", <<ArrOf(ks)>>)>>))
         [] o = 12 -> New("val", IntV(Cardinality(DOMAIN m)), Call("len", <<V(i)>>))
         [] o = 13 -> New("map", EmptyMap, Call("clear", <<V(i)>>))
         \* ---- second batch (std/mapping.md) ----
         [] o = 14 -> New("bag", SetToSortSeq(DOMAIN m, LAMBDA a, b : a < b), Call("to_array", <<Call("keys", <<V(i)>>)>>))
         [] o = 15 -> LET ks == SetToSortSeq(DOMAIN m, LAMBDA a, b : a < b)
                      IN New("vals", SortSeq([j \in 1..Len(ks) |-> m[ks[j]]], LAMBDA a, b : a < b), Call("to_array", <<Call("values", <<V(i)>>)>>))
         [] o = 16 -> New("map", [c \in DOMAIN m |-> m[c] + 1], Call("map_values", <<V(i), Raw("(v: int) -> {v + 1}")>>))
         [] o = 17 -> LET n == Ch(0..4, rr[3]) ks == KeyList(rr, n)
                      IN New("map", MFromKeys(m, ks, 1),
                             Call("update_from_keys", <<V(i), ArrOf(ks), Raw("(k: int) -> {100}"), Raw("(k: int, v: int) -> {v + 1}")>>))
         [] o = 18 -> New("pairs", LET ks == SetToSortSeq(DOMAIN m, LAMBDA a, b : a < b) IN [j \in 1..Len(ks) |-> <<ks[j], m[ks[j]]>>],
                          Call("to_array", <<Call("to_generator", <<V(i)>>)>>))
         \* equal mappings hash equally (whatever their histories and layouts)
         [] o = 19 -> LET j == Ch(S, rr[3])
                      IN IF DOMAIN m = DOMAIN pool[j].v /\ (\A c \in DOMAIN m : m[c] = pool[j].v[c]) /\ ~IsClear(i) /\ ~IsClear(j)
                           THEN New("val", BoolV(TRUE), Op2("eq", Call("hash", <<V(i)>>), Call("hash", <<V(j)>>)))
                           ELSE New("val", IntV(Cardinality(DOMAIN m)), Call("len", <<V(i)>>))
         [] OTHER -> LET j == Ch(S, rr[3])
                     IN New("val", BoolV(DOMAIN m = DOMAIN pool[j].v /\ \A c \in DOMAIN m : m[c] = pool[j].v[c]), Op2("eq", V(i), V(j)))

SetOp(rr) ==
    LET S == Ents("set")
    IN IF S = {} THEN New("set", {}, Raw("MK_SET"))
    ELSE
    LET i == Ch(S, rr[1]) s == pool[i].v  o == Ch(1..21, rr[2])  k == Ch(Keys, rr[3])  j == Ch(S, rr[4])  t == pool[j].v
        present == Class(k) \in s
    IN CASE o = 1 -> New("set", s \cup {Class(k)}, Call("add", <<V(i), Lit(k)>>))
         [] o = 2 -> IF present THEN New("set", s \ {Class(k)}, Call("remove", <<V(i), Lit(k)>>))
                     ELSE NewErr("set", Call("remove", <<V(i), Lit(k)>>))
         [] o = 3 -> New("set", s \ {Class(k)}, Call("discard", <<V(i), Lit(k)>>))
         [] o = 4 -> New("val", BoolV(present), Call("contains", <<V(i), Lit(k)>>))
         [] o = 5 -> LET n == Ch(0..4, rr[3]) ks == KeyList(rr, n)
                     IN New("set", SAddAll(s, ks, 1), Call("update", <<V(i), ArrOf(ks)>>))
         [] o = 6 -> New("set", s \cup t, Op2("bit_or", V(i), V(j)))
         [] o = 7 -> New("set", s \cap t, Op2("bit_and", V(i), V(j)))
         [] o = 8 -> New("set", s \ t, Op2("sub", V(i), V(j)))
         [] o = 9 -> New("set", (s \ t) \cup (t \ s), Op2("bit_xor", V(i), V(j)))
         [] o = 10 -> New("val", BoolV(s = t), Op2("eq", V(i), V(j)))
         [] o = 11 -> New("val", BoolV(s \subseteq t), Op2("le", V(i), V(j)))
         [] o = 12 -> New("val", BoolV(s \subseteq t /\ s # t), Op2("lt", V(i), V(j)))
         [] o = 13 -> New("val", BoolV(t \subseteq s), Op2("ge", V(i), V(j)))
         [] o = 14 -> New("val", BoolV(s \cap t = {}), Call("is_disjoint", <<V(i), V(j)>>))
         [] o = 15 -> New("val", IntV(Cardinality(s)), Call("len", <<V(i)>>))
         [] o = 16 -> New("set", {}, Call("clear", <<V(i)>>))
         [] o = 17 -> New("val", BoolV(t \subseteq s /\ s # t), Op2("gt", V(i), V(j)))
         [] o = 18 -> New("bag", SetToSortSeq(s, LAMBDA a, b : a < b), Call("to_array", <<V(i)>>))
         [] o = 19 -> LET n == Ch(0..4, rr[3]) ks == KeyList(rr, n)
                      IN New("set", SAddAll(s, ks, 1), Call("update", <<V(i), Call("to_generator", <<ArrOf(ks)>>)>>))
         [] o = 20 -> IF s = t THEN New("val", BoolV(TRUE), Op2("eq", Call("hash", <<V(i)>>), Call("hash", <<V(j)>>)))
                      ELSE New("val", IntV(Cardinality(s)), Call("len", <<V(i)>>))
         [] OTHER -> New("set", s \cup {Class(k)}, Call("add", <<V(i), Lit(k)>>))

Init == /\ pool = <<>> /\ step = 0 /\ r = <<>>
        /\ eqm = RandomElement({0, 0, 2, 3})
        /\ hm = RandomElement({1, 2, 3, 1000})
Next == /\ step < Steps
        /\ r' = [j \in 1..8 |-> RandomElement(0..5039)]
        /\ pool' = Append(pool, IF r'[8] % 2 = 0 THEN MapOp(r') ELSE SetOp(r'))
        /\ step' = step + 1
        /\ UNCHANGED <<eqm, hm>>
Spec == Init /\ [][Next]_mvars

ProjE(e) ==
    IF e.err THEN [t |-> "err", m |-> "?"]
    ELSE IF e.k = "map" THEN LET ks == SetToSortSeq(DOMAIN e.v, LAMBDA a, b : a < b)
                             IN [t |-> "absmap", v |-> [j \in 1..Len(ks) |-> <<ks[j], e.v[ks[j]]>>]]
    ELSE IF e.k = "set" THEN [t |-> "absset", v |-> SetToSortSeq(e.v, LAMBDA a, b : a < b)]
    ELSE IF e.k = "bag" THEN [t |-> "absbag", v |-> e.v]        \* classes, sorted
    ELSE IF e.k = "vals" THEN [t |-> "absvals", v |-> e.v]      \* values, sorted
    ELSE IF e.k = "pairs" THEN [t |-> "abspairs", v |-> e.v]    \* (class, value), sorted by class
    ELSE Proj(e.v)

Emit == (step = Steps) =>
    PrintT(<<"CASE", ToJson([eqm |-> eqm, hm |-> hm,
                             binds |-> [i \in 1..Len(pool) |-> [n |-> pool[i].n, term |-> pool[i].term, v |-> ProjE(pool[i])]]])>>)

\* design: the abstract operations are class-respecting (a key and any equivalent key agree)
ClassesAreCanonical ==
    \A i \in 1..Len(pool) : (pool[i].k = "map" /\ ~pool[i].err) => \A c \in DOMAIN pool[i].v : Class(c) = c
=============================================================================
