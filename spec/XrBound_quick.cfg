INIT Init
NEXT Next
CONSTANT MaxAdaptors = 1
INVARIANT Emit
INVARIANT FiniteNeverDiverges
INVARIANT ProvAligned
CHECK_DEADLOCK FALSE
