INIT Init
NEXT Next
CONSTANT MaxAdaptors = 2
INVARIANT Emit
INVARIANT FiniteNeverDiverges
CHECK_DEADLOCK FALSE
