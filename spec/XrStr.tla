-------------------------------- MODULE XrStr --------------------------------
(***************************************************************************)
(* M5 (strings): a str is a sequence of Unicode scalar values; length,     *)
(* indexing, slicing, searching, splitting, partitioning, stripping,       *)
(* replacing, reversing, repetition, case mapping and comparison operate   *)
(* on code points (std/str.md).  Strings are sequences over an abstract    *)
(* alphabet whose symbols differ in UTF-8 width (1-4 bytes), include a     *)
(* combining mark, and include characters whose case mapping changes the   *)
(* length; the harness maps symbols to real characters.  Pool machine      *)
(* walked with -simulate, as XrSeq.                                        *)
(***************************************************************************)
EXTENDS XrEval, Json, SequencesExt

CONSTANT Steps

\* symbol -> code point (width: a..z/space 1 byte; e1 E1 ss 2 bytes; Id cd 2 bytes; zh 3; em 4)
Code == [a |-> 97, A |-> 65, s |-> 115, S |-> 83, i |-> 105, I |-> 73, sp |-> 32,
         e1 |-> 233, E1 |-> 201, ss |-> 223, Id |-> 304, cd |-> 775, zh |-> 20013, em |-> 128512]
Alphabet == <<"a", "A", "s", "S", "i", "I", "sp", "e1", "E1", "ss", "Id", "cd", "zh", "em">>
UpperOf(c) == CASE c = "a" -> <<"A">> [] c = "s" -> <<"S">> [] c = "i" -> <<"I">> [] c = "e1" -> <<"E1">>
                [] c = "ss" -> <<"S", "S">> [] OTHER -> <<c>>
LowerOf(c) == CASE c = "A" -> <<"a">> [] c = "S" -> <<"s">> [] c = "I" -> <<"i">> [] c = "E1" -> <<"e1">>
                [] c = "Id" -> <<"i", "cd">> [] OTHER -> <<c>>
IsSpace(c) == c = "sp"

RECURSIVE MapCase(_, _, _), FindFrom(_, _, _), FindLastFrom(_, _, _), ReplAll(_, _, _, _), SplitAll(_, _, _),
          Repeat(_, _), CmpSeq(_, _, _), LStripN(_, _), RStripN(_, _)
MapCase(xs, i, up) == IF i > Len(xs) THEN <<>>
                      ELSE (IF up THEN UpperOf(xs[i]) ELSE LowerOf(xs[i])) \o MapCase(xs, i + 1, up)
MatchAt(h, n, i) == i + Len(n) - 1 <= Len(h) /\ SubSeq(h, i, i + Len(n) - 1) = n      \* i is 1-based
\* first 1-based position >= i where n occurs in h, 0 if none
FindFrom(h, n, i) == IF i + Len(n) - 1 > Len(h) THEN 0 ELSE IF MatchAt(h, n, i) THEN i ELSE FindFrom(h, n, i + 1)
FindLastFrom(h, n, i) == IF i < 1 THEN 0 ELSE IF MatchAt(h, n, i) THEN i ELSE FindLastFrom(h, n, i - 1)
ReplAll(h, n, rep, i) ==
    IF i > Len(h) THEN <<>>
    ELSE IF MatchAt(h, n, i) THEN rep \o ReplAll(h, n, rep, i + Len(n))
    ELSE <<h[i]>> \o ReplAll(h, n, rep, i + 1)
\* pieces between non-overlapping occurrences of sep, left to right
SplitAll(h, sep, start) ==
    LET p == FindFrom(h, sep, start)
    IN IF p = 0 THEN <<SubSeq(h, start, Len(h))>>
       ELSE <<SubSeq(h, start, p - 1)>> \o SplitAll(h, sep, p + Len(sep))
Repeat(xs, n) == IF n <= 0 THEN <<>> ELSE xs \o Repeat(xs, n - 1)
CmpSeq(xs, ys, i) ==
    IF i > Len(xs) /\ i > Len(ys) THEN 0
    ELSE IF i > Len(xs) THEN -1 ELSE IF i > Len(ys) THEN 1
    ELSE IF Code[xs[i]] < Code[ys[i]] THEN -1 ELSE IF Code[xs[i]] > Code[ys[i]] THEN 1
    ELSE CmpSeq(xs, ys, i + 1)
RECURSIVE ReplN(_, _, _, _, _), Inter(_, _, _), LStripP(_, _), RStripP(_, _)
\* the first k occurrences replaced, left to right, non-overlapping
ReplN(h, n, rep, i, k) ==
    IF i > Len(h) THEN <<>>
    ELSE IF k > 0 /\ MatchAt(h, n, i) THEN rep \o ReplN(h, n, rep, i + Len(n), k - 1)
    ELSE <<h[i]>> \o ReplN(h, n, rep, i + 1, k)
\* join of one-character strings with a separator
Inter(h, sep, i) == IF i > Len(h) THEN <<>>
                    ELSE <<h[i]>> \o (IF i < Len(h) THEN sep ELSE <<>>) \o Inter(h, sep, i + 1)
StripSet == {"a", "sp"}        \* the predicate (c: str) -> {c == "a" || c == " "}
LStripP(xs, i) == IF i > Len(xs) \/ xs[i] \notin StripSet THEN i - 1 ELSE LStripP(xs, i + 1)
RStripP(xs, i) == IF i < 1 \/ xs[i] \notin StripSet THEN Len(xs) - i ELSE RStripP(xs, i - 1)
LStripN(xs, i) == IF i > Len(xs) \/ ~IsSpace(xs[i]) THEN i - 1 ELSE LStripN(xs, i + 1)
RStripN(xs, i) == IF i < 1 \/ ~IsSpace(xs[i]) THEN Len(xs) - i ELSE RStripN(xs, i - 1)

VARIABLES pool, step, r
tvars == <<pool, step, r>>

Ch(S, x) == SetToSortSeq(S, LAMBDA a, b : a < b)[(x % Cardinality(S)) + 1]
Strs == {i \in 1..Len(pool) : pool[i].k = "str" /\ ~pool[i].err}
Name(i) == "t" \o ToString(i)
V(i) == [k |-> "var", n |-> pool[i].n]
Lit(x) == [k |-> "lit", ty |-> "int", v |-> x]
SLit(xs) == [k |-> "symlit", v |-> xs]            \* rendered by the harness as a string literal
Call(f, as) == [k |-> "call", f |-> f, args |-> as, sty |-> "method"]
New(kind, v, term) == [n |-> Name(Len(pool) + 1), k |-> kind, err |-> FALSE, v |-> v, term |-> term]
NewErr(kind, term) == [n |-> Name(Len(pool) + 1), k |-> kind, err |-> TRUE, v |-> <<>>, term |-> term]
StripLam == [k |-> "raw", src |-> "(c: str) -> {c == \"a\" || c == \" \"}"]
RandStr(rr, off, maxlen) == LET n == rr[off] % (maxlen + 1) IN [j \in 1..n |-> Alphabet[(rr[off + j] % Len(Alphabet)) + 1]]

Source(rr) == LET xs == RandStr(rr, 2, 5) IN New("str", xs, SLit(xs))

\* a needle: usually cut out of the haystack itself so that it occurs
Needle(h, rr) ==
    IF Len(h) = 0 \/ rr[6] % 4 = 0 THEN LET x == RandStr(rr, 6, 2) IN IF x = <<>> THEN <<"a">> ELSE x
    ELSE LET a == (rr[6] % Len(h)) + 1  b == IF a + (rr[7] % 2) > Len(h) THEN Len(h) ELSE a + (rr[7] % 2)
         IN SubSeq(h, a, b)

Op(rr) ==
    LET S == Strs
    IN IF S = {} THEN Source(rr)
    ELSE
    LET i == Ch(S, rr[1])  h == pool[i].v  n == Len(h)  o == Ch(1..38, rr[2])
        nd == Needle(h, rr)
    IN
    CASE o = 1 -> New("int", IntV(n), Call("len", <<V(i)>>))
      \* negative indices count from the end (shipped script 089), in characters like everything else
      [] o = 2 -> LET k == Ch((-n - 1)..(n + 1), rr[3])  j == IF k < 0 THEN n + k ELSE k
                  IN IF j < 0 \/ j >= n THEN NewErr("str", Call("get", <<V(i), Lit(k)>>))
                     ELSE New("str", <<h[j + 1]>>, Call("get", <<V(i), Lit(k)>>))
      [] o = 3 -> LET a == Ch(0..n, rr[3]) b == Ch(a..n, rr[4])
                  IN New("str", SubSeq(h, a + 1, b), Call("substring", <<V(i), Lit(a), Lit(b)>>))
      [] o = 4 -> LET a == Ch(0..n, rr[3]) IN New("str", SubSeq(h, a + 1, n), Call("substring", <<V(i), Lit(a)>>))
      [] o = 5 -> LET p == FindFrom(h, nd, 1)
                  IN New("opt", IF p = 0 THEN NoneV ELSE SomeV(IntV(p - 1)), Call("find", <<V(i), SLit(nd)>>))
      [] o = 6 -> LET st == Ch(0..n, rr[3]) p == FindFrom(h, nd, st + 1)
                  IN New("opt", IF p = 0 THEN NoneV ELSE SomeV(IntV(p - 1)), Call("find", <<V(i), SLit(nd), Lit(st)>>))
      [] o = 7 -> LET p == FindLastFrom(h, nd, n)
                  IN New("opt", IF p = 0 THEN NoneV ELSE SomeV(IntV(p - 1)), Call("rfind", <<V(i), SLit(nd)>>))
      [] o = 8 -> New("bool", BoolV(FindFrom(h, nd, 1) # 0), Call("contains", <<V(i), SLit(nd)>>))
      [] o = 9 -> New("bool", BoolV(MatchAt(h, nd, 1)), Call("starts_with", <<V(i), SLit(nd)>>))
      [] o = 10 -> New("bool", BoolV(Len(nd) <= n /\ SubSeq(h, n - Len(nd) + 1, n) = nd), Call("ends_with", <<V(i), SLit(nd)>>))
      [] o = 11 -> LET p == FindFrom(h, nd, 1)
                   IN New("pair", IF p = 0 THEN <<h, <<>>>> ELSE <<SubSeq(h, 1, p - 1), SubSeq(h, p + Len(nd), n)>>,
                          Call("partition", <<V(i), SLit(nd)>>))
      [] o = 12 -> LET p == FindLastFrom(h, nd, n)
                   IN New("pair", IF p = 0 THEN <<<<>>, h>> ELSE <<SubSeq(h, 1, p - 1), SubSeq(h, p + Len(nd), n)>>,
                          Call("rpartition", <<V(i), SLit(nd)>>))
      [] o = 13 -> LET a == LStripN(h, 1)  mid == SubSeq(h, a + 1, n)
                   IN New("str", SubSeq(mid, 1, Len(mid) - RStripN(mid, Len(mid))), Call("strip", <<V(i)>>))
      [] o = 14 -> New("str", SubSeq(h, LStripN(h, 1) + 1, n), Call("lstrip", <<V(i)>>))
      [] o = 15 -> New("str", SubSeq(h, 1, n - RStripN(h, n)), Call("rstrip", <<V(i)>>))
      [] o = 16 -> LET rep == RandStr(rr, 4, 2) IN New("str", ReplAll(h, nd, rep, 1), Call("replace", <<V(i), SLit(nd), SLit(rep)>>))
      [] o = 17 -> New("str", Reverse(h), Call("reverse", <<V(i)>>))
      [] o = 18 -> LET k == Ch(0..3, rr[3]) IN IF n * k > 12 THEN Source(rr) ELSE New("str", Repeat(h, k), [k |-> "call", f |-> "mul", sty |-> "op", args |-> <<V(i), Lit(k)>>])
      [] o = 19 -> New("str", MapCase(h, 1, FALSE), Call("lower", <<V(i)>>))
      [] o = 20 -> New("str", MapCase(h, 1, TRUE), Call("upper", <<V(i)>>))
      [] o = 21 -> LET j == Ch(S, rr[3]) IN New("int", IntV(CmpSeq(h, pool[j].v, 1)), Call("cmp", <<V(i), V(j)>>))
      [] o = 22 -> New("strs", [j \in 1..n |-> <<h[j]>>], Call("chars", <<V(i)>>))
      [] o = 23 -> LET j == Ch(S, rr[3]) IN IF n + Len(pool[j].v) > 12 THEN Source(rr)
                   ELSE New("str", h \o pool[j].v, [k |-> "call", f |-> "add", sty |-> "op", args |-> <<V(i), V(j)>>])
      [] o = 24 -> New("strs", SplitAll(h, nd, 1), Call("to_array", <<Call("split", <<V(i), SLit(nd)>>)>>))
      [] o = 25 -> IF n = 1 THEN New("int", IntV(Code[h[1]]), Call("code_point", <<V(i)>>))
                   ELSE NewErr("int", Call("code_point", <<V(i)>>))
      [] o = 26 -> LET j == Ch(S, rr[3]) IN New("bool", BoolV(h = pool[j].v), [k |-> "call", f |-> "eq", sty |-> "op", args |-> <<V(i), V(j)>>])
      \* ---- second batch (std/str.md) ----
      [] o = 27 -> LET st == Ch(0..n, rr[3])
                   IN New("bool", BoolV(FindFrom(h, nd, st + 1) # 0), Call("contains", <<V(i), SLit(nd), Lit(st)>>))
      [] o = 28 -> LET sep == RandStr(rr, 4, 2)
                   IN IF n * (1 + Len(sep)) > 14 THEN Source(rr)
                      ELSE New("str", Inter(h, sep, 1), Call("join", <<Call("chars", <<V(i)>>), SLit(sep)>>))
      [] o = 29 -> New("str", IF MatchAt(h, nd, 1) THEN SubSeq(h, Len(nd) + 1, n) ELSE h, Call("remove_prefix", <<V(i), SLit(nd)>>))
      [] o = 30 -> New("str", IF Len(nd) <= n /\ SubSeq(h, n - Len(nd) + 1, n) = nd THEN SubSeq(h, 1, n - Len(nd)) ELSE h,
                       Call("remove_suffix", <<V(i), SLit(nd)>>))
      [] o = 31 -> LET rep == RandStr(rr, 4, 2) k == Ch(0..2, rr[3])
                   IN New("str", ReplN(h, nd, rep, 1, k), Call("replace", <<V(i), SLit(nd), SLit(rep), Lit(k)>>))
      [] o = 32 -> LET a == LStripP(h, 1)  mid == SubSeq(h, a + 1, n)
                   IN New("str", SubSeq(mid, 1, Len(mid) - RStripP(mid, Len(mid))), Call("strip", <<V(i), StripLam>>))
      [] o = 33 -> New("str", SubSeq(h, LStripP(h, 1) + 1, n), Call("lstrip", <<V(i), StripLam>>))
      [] o = 34 -> New("str", SubSeq(h, 1, n - RStripP(h, n)), Call("rstrip", <<V(i), StripLam>>))
      [] o = 35 /\ n >= 1 -> New("bool", BoolV(\A j \in 1..n : IsSpace(h[j])), Call("is_whitespace", <<V(i)>>))
      \* splitting and joining with the same separator gives the string back
      [] o = 36 -> New("str", h, Call("join", <<Call("split", <<V(i), SLit(nd)>>), SLit(nd)>>))
      [] o = 37 -> LET j == Ch(S, rr[3]) IN New("bool", BoolV(CmpSeq(h, pool[j].v, 1) < 0), [k |-> "call", f |-> "lt", sty |-> "op", args |-> <<V(i), V(j)>>])
      [] o = 38 -> LET j == Ch(S, rr[3]) IN New("bool", BoolV(CmpSeq(h, pool[j].v, 1) >= 0), [k |-> "call", f |-> "ge", sty |-> "op", args |-> <<V(i), V(j)>>])
      [] OTHER -> Source(rr)

Init == pool = <<>> /\ step = 0 /\ r = <<>>
Next == /\ step < Steps
        /\ r' = [j \in 1..10 |-> RandomElement(0..5039)]
        /\ pool' = Append(pool, IF step < 3 THEN Source(r') ELSE Op(r'))
        /\ step' = step + 1
Spec == Init /\ [][Next]_tvars

ProjE(e) ==
    IF e.err THEN [t |-> "err", m |-> "?"]
    ELSE CASE e.k = "str" -> [t |-> "sym", v |-> e.v]
           [] e.k = "strs" -> [t |-> "syms", v |-> e.v]
           [] e.k = "pair" -> [t |-> "sympair", v |-> e.v]
           [] OTHER -> Proj(e.v)

Emit == (step = Steps) =>
    PrintT(<<"CASE", ToJson([binds |-> [i \in 1..Len(pool) |-> [n |-> pool[i].n, term |-> pool[i].term, v |-> ProjE(pool[i])]]])>>)

\* design laws on the generated strings
CaseMapIdempotent ==
    \A i \in 1..Len(pool) : (pool[i].k = "str" /\ ~pool[i].err) =>
        MapCase(MapCase(pool[i].v, 1, FALSE), 1, FALSE) = MapCase(pool[i].v, 1, FALSE)
SplitJoinInverse ==
    \A i \in 1..Len(pool) : (pool[i].k = "str" /\ ~pool[i].err /\ Len(pool[i].v) > 0) =>
        LET sep == <<pool[i].v[1]>>  parts == SplitAll(pool[i].v, sep, 1)
        IN Len(parts) >= 2
=============================================================================
