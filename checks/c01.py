"""C01 - Accepted programs never go wrong (type soundness).

Decided by XrTypeAlg.HasShape through the trace acceptor XrShape: every value produced by an
accepted program (every top-level binding, every exported zero-argument function result) is
recorded with the static type the compiler itself assigned, and TLC checks that the value has
the shape of the type (floats must be finite); a panic, crash or hang has no action.  Inputs:
generated core programs and token-level near-miss mutants of them, every static root-scope
signature applied to several canonical inhabitants per parameter, mutations of the shipped
scripts and book examples - each under no limits and under tight limits."""
import json
import random
import re

import coregen
import corpus
import surface
import vf
from checks import c12

LEVEL = "model_checking"

LIMITS = [{}, {"calls": 40, "depth": 10}, {"size": 90000, "search": 6, "recursion": 6}]
GENERIC = re.compile(r"^[A-Z][A-Z0-9]?$")


def shape_type(t):
    k = t.kind
    if k == "unknown":
        return {"k": "unknown"}
    if k == "name":
        if t.name in ("int", "str", "bool", "float"):
            return {"k": t.name}
        if GENERIC.match(t.name):
            return {"k": "var", "n": t.name}
        return {"k": "comp", "name": t.name, "args": []}
    if k == "tuple":
        return {"k": "tup", "items": [shape_type(a) for a in t.args]}
    if k == "fn":
        return {"k": "fn", "ps": [shape_type(a) for a in t.args], "r": shape_type(t.ret)}
    if k == "app":
        m = {"Sequence": "seq", "Optional": "opt", "Generator": "gen", "Stack": "stack", "Set": "set"}
        if t.name in m and len(t.args) == 1:
            return {"k": m[t.name], "a": shape_type(t.args[0])}
        if t.name == "Mapping" and len(t.args) == 2:
            return {"k": "map", "a": shape_type(t.args[0]), "b": shape_type(t.args[1])}
        if not t.args:
            return {"k": "native"}
        return {"k": "comp", "name": t.name, "args": [shape_type(a) for a in t.args]}
    return {"k": "other"}


def shape_value(d):
    if d is None:
        return {"t": "missing"}
    t = d.get("t")
    if t in ("int", "bool", "str", "fn", "gen", "native"):
        return {"t": t}
    if t == "float":
        exp, bits = d.get("exp"), int(d.get("bits", "0"))
        mant = bits & ((1 << 52) - 1)
        cls = ("inf" if mant == 0 else "nan") if exp == 2047 else ("zero" if mant == 0 else "subnormal") if exp == 0 else "normal"
        return {"t": "float", "finite": exp != 2047, "class": cls}
    if t in ("seq", "stack"):
        return {"t": t, "v": [shape_value(x) for x in d["v"]]}
    if t == "struct":
        return {"t": "struct", "v": [shape_value(x) for x in d["v"]]}
    if t == "set":
        return {"t": "set", "v": [shape_value(e["k"]) for e in d["entries"]]}
    if t == "map":
        return {"t": "map", "v": [[shape_value(e["k"]), shape_value(e["v"])] for e in d["entries"]]}
    if t == "opt":
        return {"t": "opt", "has": d["v"] is not None, "v": shape_value(d["v"]) if d["v"] is not None else {"t": "nil"}}
    if t == "union":
        return {"t": "union", "v": shape_value(d["v"])}
    if t in ("err", "violation"):
        return {"t": t}
    return {"t": str(t)}


LETNAME = re.compile(r"(?m)^\s*let\s+([A-Za-z_][A-Za-z_0-9]*)")
FNZERO = re.compile(r"(?m)^\s*fn\s+([A-Za-z_][A-Za-z_0-9]*)\s*\(\s*\)")


def job_for(jid, src, limits, perms=None):
    names = list(dict.fromkeys(LETNAME.findall(src)))[:40]
    fns = list(dict.fromkeys(FNZERO.findall(src)))[:4]
    return {"id": jid, "src": src, "observe": names, "types": names, "limits": limits, "perms": perms or {},
            "calls": [{"op": "run", "fn": f} for f in fns], "timeout_ms": 30000, "max_elems": 12}


def surface_jobs(tier):
    jobs = []
    k = 0
    for sig in surface.static_signatures():
        name = sig["name"]
        if name.startswith("__") or name in surface.SKIP:
            continue
        try:
            pts, _ = surface.instantiate(sig)
            inh = [surface.inhabitants(p) for p in pts]
        except surface.NoInhabitant:
            continue
        variants = [[x[0] for x in inh]]
        for i, xs in enumerate(inh):
            for alt in xs[1:(6 if tier == "thorough" else 3)]:
                v = [x[0] for x in inh]
                v[i] = alt
                variants.append(v)
        # integer edge values for int parameters
        for i, p in enumerate(pts):
            if p.kind == "name" and p.name == "int":
                for alt in ["(-1)", "0", "(10 ** 15)", "10", "(2 ** 64)", "(-(2 ** 63))"][: (6 if tier == "thorough" else 3)]:
                    v = [x[0] for x in inh]
                    v[i] = alt
                    variants.append(v)
        # format specifiers for the format family
        if name == "format" and len(pts) == 2 and pts[1].kind == "name" and pts[1].name == "str":
            for spec in ['"10"', '".3"', '"+,.2f"', '"x"', '".1000000000"', '"1000000000000"', '"*^9"', '"e"', '"%"']:
                variants.append([inh[0][0], spec])
        jobs.append((sig["text"], name, variants))
        k += 1
    return jobs


def generic_programs(tier, rnd):
    """a generic parameter bound by two arguments, the result declared at every type of a small universe:
    whatever the compiler accepts must produce a value of the declared type"""
    types = ["int", "str", "Sequence<int>", "Sequence<str>", "Optional<int>", "Optional<str>", "Sequence<Sequence<int>>", "Sequence<Sequence<str>>",
             "(int, str)", "Sequence<Optional<int>>"]
    vals = ["1", '"a"', "[]", "[1]", '["a"]', "none()", "some(1)", 'some("a")', "[[]]", "[[1]]", '[["a"]]', "some(none())", "[none()]", "[some(1)]", '(1, "a")']
    pre = "fn first<T>(a: T, b: T)->T { a }\nfn second<T>(a: T, b: T)->T { b }\nfn third<T>(a: T, b: T, c: T)->T { c }\n"
    out = []
    for d in types:
        for x in vals:
            for y in vals:
                out.append(pre + "let v: %s = second(%s, %s);\n" % (d, x, y))
                if tier == "thorough":
                    out.append(pre + "let v: %s = first(%s, %s);\n" % (d, x, y))
                    out.append(pre + "let v: %s = third(%s, %s, %s);\n" % (d, x, y, x))
                    out.append(pre + "let v: %s = [%s] + [%s];\n" % (d, x, y))
    if tier == "quick":
        out = rnd.sample(out, 700)
    return out


NEAR_MISS = [
    # a definition that differs from the forward declaration (return type, optional flag) does not fulfil it
    'forward fn label(i: int)->int;\nfn twice(i: int)->int { label(i) * 2 }\nfn label(i: int)->str { "n" + i.to_str() }\nlet r = twice(3);\n',
    'forward fn label(i: int)->int;\nfn twice(i: int)->int { label(i) * 2 }\nfn label(i: int)->str { "n" + i.to_str() }\nfn main()->int { twice(3) }\n',
    'fn outer()->int {\n forward fn pick(i: int)->int;\n fn use(i: int)->int { pick(i) + 1 }\n fn pick(i: int, j: int ?= 2)->(int, int) { (i, j) }\n use(1)\n}\nlet r = outer();\n',
    'forward fn mk(i: int)->Sequence<int>;\nfn total(i: int)->int { mk(i).sum() }\nfn mk(i: int)->Sequence<str> { ["a"] }\nlet r = total(3);\n',
    'forward fn mk(i: int)->Optional<int>;\nfn total(i: int)->int { mk(i).value() + 1 }\nfn mk(i: int)->Optional<str> { some("a") }\nlet r = total(3);\n',
]


def corner_programs():
    """Corners of the type system where a value could reach code compiled for another type: every program is
    either rejected or runs without the interpreter failing, and its values have the shape of their static types.
    Holes are filled with values of several types, so most fillings are ill-typed near-misses."""
    V = ["1", '"x"', "true", "[1]", '["x"]', "some(1)", '(1, "x")']
    out = []
    USE = {"1": " + 1", '"x"': ' + "!"', "true": " && true", "[1]": "[0] + 1", '["x"]': '[0] + "!"', "some(1)": ".value() + 1", '(1, "x")': "::item0 + 1"}
    # partial application (a dynamic function factory) over generic and non-generic functions
    for a in V:
        for b in V:
            for u in (USE[a], USE[b]):
                out.append("fn pair<T>(a: T, b: T)->Sequence<T> { [a, b] }\nlet p = partial(pair, %s);\nlet s = p(%s);\nlet r = s[0]%s;\n" % (a, b, u))
                out.append("fn keep<T, U>(a: T, b: U)->T { a }\nlet p = partial(keep, %s);\nlet s = p(%s);\nlet r = s%s;\n" % (a, b, u))
                out.append("fn snd<T>(a: int, b: T)->T { b }\nlet p = partial(snd, 1);\nlet s = p(%s);\nlet r = s%s;\n" % (b, u))
            out.append("fn two(a: int, b: str)->str { b + a.to_str() }\nlet p = partial(two, %s);\nlet r = p(%s) + \"!\";\n" % (a, b))
            out.append("fn two(a: int, b: str)->str { b + a.to_str() }\nlet p = partial(two, %s, %s);\nlet r = p() + \"!\";\n" % (a, b))
    # adaptors that return callables: the result type must be fully resolved
    for a in V:
        for b in V:
            out.append("let k = (i: int) -> {i %% 3};\nlet e = k.to_eq();\nlet r = e(%s, %s);\n" % (a, b))
            out.append("let k = (i: str) -> {i.len()};\nlet c = k.to_cmp();\nlet r = c(%s, %s) + 1;\n" % (a, b))
            out.append("fn mk<T>(x: T)->(T)->(T) { (y: T) -> {x} }\nlet f = mk(%s);\nlet r = f(%s)%s;\n" % (a, b, USE[a]))
            out.append("fn mk<T>(x: T)->()->(Sequence<T>) { () -> {[x]} }\nlet f = mk(%s);\nlet r = f()[0]%s;\n" % (a, USE[b]))
    # the type parameters of an enclosing generic function are opaque in its body
    for a in V:
        for b in V:
            out.append("fn outer<T>(t: T, c: (T)->(T))->T { c(%s) }\nlet s = outer(%s, (x: %s) -> {x});\nlet r = s%s;\n" %
                       (a, b, {"1": "int", '"x"': "str", "true": "bool", "[1]": "Sequence<int>", '["x"]': "Sequence<str>", "some(1)": "Optional<int>", '(1, "x")': "(int, str)"}[b], USE[b]))
            out.append("fn outer<T>(t: T)->int {\n    fn inner(p: T)->T { t }\n    let q = inner(%s)%s;\n    0\n}\nlet r = outer(%s);\n" % (a, USE[a], b))
            out.append("fn outer<T>(t: T)->Optional<int> { let v: Optional<int> = some(t); v }\nlet r = outer(%s).value() + 1;\n" % b)
            out.append("fn outer<T>(t: T)->Sequence<int> { let v: Sequence<int> = [t]; v }\nlet r = outer(%s)[0] + 1;\n" % b)
            out.append("fn outer<T>(t: T)->T { fn zero()->T { %s } zero() }\nlet s = outer(%s);\nlet r = s%s;\n" % (a, b, USE[b]))
    # two declarations of one name are two types
    for od, ov, idecl, iv, use in (("struct P(x: int)", "P(1)", "struct P(x: str)", 'P("a")', "::x + 1"),
                                   ("struct P(x: int, y: int)", "P(1, 2)", "struct P(y: str, x: str)", 'P("a", "b")', "::x + 1"),
                                   ("union P(a: int, b: str)", "P::a(1)", "union P(a: str, b: int)", 'P::a("s")', "!:a + 1"),
                                   ("struct P<T>(x: T)", "P(1)", "struct P<T>(x: Sequence<T>)", "P([1])", "::x + 1")):
        pty = "P<int>" if "<T>" in od else "P"
        for body in ("takes_outer(inner_val)", "[outer_val, inner_val][1]%s" % use, "[inner_val, outer_val][0]%s" % use, "apply_outer(takes_outer, inner_val)",
                     "pick(outer_val, inner_val)%s" % use, "pick(inner_val, outer_val)%s" % use, "[some(outer_val), some(inner_val)][1].value()%s" % use,
                     "if(true, inner_val, outer_val)%s" % use, "if(false, outer_val, inner_val)%s" % use, "(outer_val, inner_val)::item1%s" % use):
            out.append("%s\nfn takes_outer(p: %s)->int { p%s }\nfn apply_outer(f: (%s)->(int), p: %s)->int { f(p) }\nfn pick<T>(a: T, b: T)->T { b }\n"
                       "let outer_val = %s;\nfn ctx()->int {\n    %s\n    let inner_val = %s;\n    %s\n}\nlet r = ctx();\n" % (od, pty, use, pty, pty, ov, idecl, iv, body))
    # functions that differ in their return type only; heterogeneous equality callbacks; recursive generic compounds
    for a in V:
        out.append("fn f(x: int)->int { x }\nfn g(x: int)->%s { %s }\nlet fs = [f, g];\nlet r = fs[1](1) + 1;\n" %
                   ({"1": "int", '"x"': "str", "true": "bool", "[1]": "Sequence<int>", '["x"]': "Sequence<str>", "some(1)": "Optional<int>", '(1, "x")': "(int, str)"}[a], a))
        out.append("let r = contains([1, 2].to_generator(), %s, (a: int, b: str) -> {a + 1 == 2 && b == \"1\"});\n" % a)
        out.append("let r = count([1, 2, 1], %s, (a: int, b: str) -> {a + 1 == 2 && b == \"1\"});\n" % a)
        out.append("struct Nest<T>(v: T, deeper: Optional<Nest<Sequence<T>>>)\nlet n = Nest(1, some(Nest(%s, none())));\nlet r = n::deeper.value()::v[0] + 1;\n" % a)
        out.append("struct Nest<T>(v: T, deeper: Optional<Nest<Sequence<T>>>)\nlet n = Nest(%s, some(Nest([%s], none())));\nlet r = n::deeper.value()::v[0]%s;\n" % (a, a, USE[a]))
        out.append("struct Alt<T, U>(v: T, flip: Optional<Alt<U, T>>)\nlet n = Alt(1, some(Alt(%s, none())));\nlet r = n::flip.value()::v%s;\n" % (a, USE[a]))
        out.append("union Res<T, E>(ok: T, err: E)\nlet q: Res<int, str> = Res::ok(%s);\nlet r = q?:ok.value() + 1;\n" % a)
        out.append("union Res<T, E>(ok: T, err: E)\nlet q: Res<int, str> = Res::err(%s);\nlet r = q?:err.value() + \"!\";\n" % a)
    # dynamic functions over generic compounds: the field types of the result must be those of the argument's instantiation,
    # also when the value then meets a generic function whose own type parameter has the same name as the compound's
    for gn in ("T", "U"):
        for a in V:
            for b in V:
                for flow in ("pick(%s, m::item0)%s" % (b, USE[b]), "if(false, %s, m::item0)%s" % (b, USE[b]), "[%s, m::item0][1]%s" % (b, USE[b]),
                             "if_error(m::item0, %s)%s" % (b, USE[b]), "m::item0%s" % USE[b]):
                    out.append("struct P<%s>(x: %s, n: int)\nfn pick<T>(a: T, b: T)->T { b }\nlet p = P(%s, 1);\nlet m = p.members();\nlet r = %s;\n" % (gn, gn, a, flow))
                out.append("struct P<%s>(x: %s, n: int)\nlet r = P(%s, 1) == P(%s, 1);\nlet h = hash(P(%s, 1));\n" % (gn, gn, a, b, a))
    # dynamic (derived) functions applied to operands of different element types: the factory must establish that the
    # element-level function exists for exactly these types, or reject
    W = ["1", '"x"', "true", "[1]", '["x"]', "[[1]]", "some(1)", 'some("x")', '(1, "x")', '("x", 1)', "[(1, 2)]", "[some(1)]"]
    for a in W:
        for b in W:
            if a == b:
                continue
            for tmpl in ("let r = cmp(%s, %s);", "let r = %s < %s;", "let r = %s >= %s;", "let r = %s == %s;", "let r = %s != %s;", "let r = max(%s, %s);",
                         "let r = [%s].contains(%s);", "let r = [%s, %s].sort();", "let r = hash((%s, %s));", "let r = to_str((%s, [%s]));",
                         "let r = set().add(%s).add(%s).len();", "let r = mapping().set(%s, 1).lookup(%s);"):
                out.append(tmpl % (a, b) + "\n")
    return out


def run(chk, tier, seed):
    rnd = random.Random(seed)
    jobs = []
    # 1. generated programs and near-miss mutants
    n = 200 if tier == "quick" else 2500
    texts = []
    for i in range(n):
        texts.append(coregen.render(coregen.Gen(seed * 37 + i, max_depth=3, n_decls=6, p_err=0.05).program("x")))
    base_texts = list(texts)
    for i in range(n * 2):
        texts.append(c12.mutate(rnd, rnd.choice(base_texts), base_texts))
    # 2. mutations of shipped scripts and book examples
    corp = [s["src"] for s in corpus.scripts()] + [b["src"] for b in corpus.book_blocks()]
    for i in range(300 if tier == "quick" else 4000):
        texts.append(c12.mutate(rnd, rnd.choice(corp), corp))
    texts += [s["src"] for s in corpus.scripts() if not s["cfg"].get("expected_violation")][:: (4 if tier == "quick" else 1)]
    texts += generic_programs(tier, rnd) + NEAR_MISS
    corners = corner_programs()
    texts += corners if tier == "thorough" else corners[seed % 3::3]
    texts = list(dict.fromkeys(texts))
    for i, t in enumerate(texts):
        jobs.append(job_for("t%d" % i, t, LIMITS[i % len(LIMITS)], {"regex": True}))
    # 3. the library surface: one binding per call, individually compiled on failure
    sj = surface_jobs(tier)
    surf_meta = {}
    for si, (sig, name, variants) in enumerate(sj):
        src = "".join("let s%d = %s(%s);\n" % (vi, name, ", ".join(v)) for vi, v in enumerate(variants))
        jid = "sig%d" % si
        jobs.append(job_for(jid, src, {"calls": 5000, "depth": 60, "search": 2000, "size": 200000000}, {"regex": True}))
        surf_meta[jid] = (sig, name, variants)
    res = vf.run_jobs(jobs, "c01", timeout_ms=30000)
    # surface batches that do not compile / die are split into single calls
    solo = []
    for jid, (sig, name, variants) in surf_meta.items():
        if vf.job_outcome(res[jid]) != "ok":
            for vi, v in enumerate(variants):
                sid = "%s_%d" % (jid, vi)
                solo.append(job_for(sid, "let s0 = %s(%s);\n" % (name, ", ".join(v)), {"calls": 5000, "depth": 60, "search": 2000, "size": 200000000}, {"regex": True}))
    res.update(vf.run_jobs(solo, "c01-solo", timeout_ms=30000))
    alljobs = [j for j in jobs if not (j["id"] in surf_meta and vf.job_outcome(res[j["id"]]) != "ok")] + solo
    chk.count(len(alljobs))
    events, owner = [], []
    accepted = 0
    for j in alljobs:
        o = res[j["id"]]
        oc = vf.job_outcome(o)
        if oc == "compile_err":
            continue
        accepted += 1
        chk.nontrivial(j["src"] + json.dumps(j["limits"], sort_keys=True))
        if oc in ("crash", "timeout", "missing") or oc.endswith("panic"):
            detail = {k: v for k, v in o.items() if k in ("compile", "inst", "calls", "crash", "timeout")}
            msg = json.dumps(detail)[:300]
            loc = re.search(r"@ (/repo/src/[^\"]+)", msg) or re.search(r"@ [^\"]*/([^/\"]+-[0-9][0-9.]*/src/[^\"]+)", msg)
            chk.violation("accepted program %s: %s" % (oc, msg),
                          {"kind": "soundness", "source": j["src"], "limits": j["limits"], "observed": oc, "detail": detail},
                          finding_key="panic:" + (loc.group(1) if loc else oc))
            continue
        types = o.get("types", {})
        for name in j["observe"]:
            if name not in o.get("values", {}) or not types.get(name):
                continue
            d = o["values"][name]
            if "lookup_err" in d:
                continue
            if "dump_panic" in d:
                chk.violation("dumping %s panicked: %s" % (name, d["dump_panic"][:200]),
                              {"kind": "soundness", "source": j["src"], "limits": j["limits"], "observed": "dump_panic", "detail": d},
                              finding_key="panic:dump:" + d["dump_panic"].split("@")[-1].strip())
                continue
            try:
                t = shape_type(surface.parse_type(types[name]))
            except ValueError:
                continue
            events.append({"ev": "Value", "t": t, "v": shape_value(d)})
            owner.append((j, name, types[name], d))
    # XrShape decides
    pos = 0
    B = 4000
    for b in range(0, len(events), B):
        chunk = events[b:b + B]
        while chunk:
            d = vf.workdir("c01-shape")
            path = d + "/values.ndjson"
            with open(path, "w") as f:
                for e in chunk:
                    f.write(json.dumps(e) + "\n")
            r = vf.tlc("XrShape", "XrShape.cfg", "c01-shape-tlc", workers=1, env={"TRACE": path}, dfs=True, xmx="4g")
            chk.add_tlc(r)
            chk.cov["traces_validated_against_impl"] += 1
            if '"TRACE_ACCEPTED"' in r.out:
                break
            m = re.search(r'<<"TRACE_REJECTED_AT", (\d+),', r.out)
            if not m:
                raise vf.ToolError("XrShape failed:\n" + r.out[-2000:])
            k = int(m.group(1)) - 1
            j, name, ty, dump = owner[b + (len(events[b:b + B]) - len(chunk)) + k]
            chk.violation("value of `%s` does not have the shape of its static type %s: %s" % (name, ty, json.dumps(dump)[:200]),
                          {"kind": "shape", "source": j["src"], "limits": j["limits"], "binding": name, "type": ty, "value": dump},
                          finding_key="shape:%s:%s" % (ty, json.dumps(shape_value(dump))[:80]))
            chunk = chunk[k + 1:]
    chk.part("inputs", programs=len(texts), surface_signatures=len(sj), jobs=len(alljobs), accepted=accepted, values_checked=len(events))
    if owner:
        j, name, ty, dump = owner[len(owner) // 2]
        chk.sample({"binding": name, "static_type": ty, "value": dump, "source": j["src"][:300]})
    chk.cov["rule"] = ("generated core programs + 2 token-level mutants each + mutations of shipped scripts/book examples + "
                       "every static root-scope signature x canonical inhabitants (variants per parameter, integer edges), "
                       "cycled over 3 limit configurations; type-system corner programs (partial application, callable-returning "
                       "adaptors, opaque type parameters of enclosing functions, shadowed compounds, recursive generic compounds) with "
                       "holes filled from 7 value types; non-trivial = distinct accepted (program, limits)")
    chk.assumptions += ["values are observed through the verif_dump hook; lazy sequences are forced for their first 12 elements",
                        "signatures without canonical inhabitants (Regex, Match, LinearRegression) and dynamic overloads are not swept"]


def replay(chk, path):
    rp = json.load(open(path))
    j = job_for("r", rp["source"], rp.get("limits") or {}, {"regex": True})
    o = vf.run_jobs([j], "replay", timeout_ms=30000)["r"]
    oc = vf.job_outcome(o)
    chk.count(1)
    chk.nontrivial("replay")
    chk.nontrivial(rp["source"])
    chk.sample({"source": rp["source"][:300], "outcome": oc})
    if oc in ("crash", "timeout") or oc.endswith("panic"):
        chk.violation("still fails: " + oc, rp)
    return chk.finish()
