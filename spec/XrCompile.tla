----------------------------- MODULE XrCompile -----------------------------
(***************************************************************************)
(* Compilation as a function of the source text (interop/compilation.md):  *)
(* feeding a text terminates with success or a rendered error, and the     *)
(* outcome - acceptance, error class and message, and the behaviour of the *)
(* compiled program - depends on the text alone.  The acceptor consumes    *)
(* one "Compile" (and, for accepted texts, "Behave") event per compilation *)
(* performed by the harness, in the order they happened in the process,    *)
(* and rejects the first one that contradicts an earlier one; a panic or   *)
(* a hang is an event without an action.                                   *)
(*   env TRACE = ndjson of {ev, text, res}                                 *)
(***************************************************************************)
EXTENDS Integers, Sequences, TLC, Json, IOUtils

Rec == ndJsonDeserialize(IOEnv.TRACE)

VARIABLES l, outcome, behaviour
cvars == <<l, outcome, behaviour>>

Get(f, k) == IF k \in DOMAIN f THEN f[k] ELSE -1
Put(f, k, v) == [x \in DOMAIN f \cup {k} |-> IF x = k THEN v ELSE f[x]]

Compile(t, r) ==
    /\ Get(outcome, t) \in {-1, r}              \* same text => same outcome
    /\ outcome' = Put(outcome, t, r)
    /\ UNCHANGED behaviour
Behave(t, b) ==
    /\ t \in DOMAIN outcome                      \* only compiled texts run
    /\ Get(behaviour, t) \in {-1, b}            \* same text => same behaviour
    /\ behaviour' = Put(behaviour, t, b)
    /\ UNCHANGED outcome

Is(e) == l <= Len(Rec) /\ Rec[l].ev = e /\ l' = l + 1
CInit == l = 1 /\ outcome = [x \in {} |-> 0] /\ behaviour = [x \in {} |-> 0]
CNext == \/ Is("Compile") /\ Compile(Rec[l].text, Rec[l].res)
         \/ Is("Behave") /\ Behave(Rec[l].text, Rec[l].res)
CSpec == CInit /\ [][CNext]_cvars

Accepted ==
    LET d == TLCGet("stats").diameter
    IN IF d - 1 = Len(Rec) THEN PrintT(<<"TRACE_ACCEPTED", Len(Rec)>>)
       ELSE PrintT(<<"TRACE_REJECTED_AT", d, ToJson(Rec[d])>>) /\ FALSE
=============================================================================
