------------------------------- MODULE XrEval -------------------------------
(***************************************************************************)
(* M3 of DESIGN.md: executable reference semantics of the xray core        *)
(* language, as documented in the book (lang/functions.md,                 *)
(* runtime_errors.md, std/*.md), including the resource counters of        *)
(* interop/limits.md (user calls, stack depth, tail recursion).            *)
(*                                                                         *)
(* A program is a sequence of declarations; the state of a run is          *)
(*   env   lexical environment (name -> value, name -> user overloads)     *)
(*   st    [out, calls, depth, viol, taint, fuel, lim]                     *)
(* and one declaration is one transition (XrCore.tla drives it).           *)
(*                                                                         *)
(* Values are tagged records.  Where the documentation is silent the       *)
(* semantics says "unknown" instead of guessing: error texts produced by   *)
(* builtins are "?" (any text), integers beyond +-10^8 are Big (TLC has    *)
(* 32-bit integers) and taint the run, so that nothing unspecified is ever *)
(* compared with the implementation.                                       *)
(***************************************************************************)
EXTENDS Integers, Sequences, FiniteSets, TLC

NoLimit == -1
Lim == 100000000

IntV(n)     == [t |-> "int", v |-> n]
BoolV(b)    == [t |-> "bool", v |-> b]
StrV(s)     == [t |-> "str", v |-> s]
SeqV(xs)    == [t |-> "seq", v |-> xs]
NoneV       == [t |-> "opt", has |-> FALSE]
SomeV(x)    == [t |-> "opt", has |-> TRUE, v |-> x]
StructV(xs) == [t |-> "struct", v |-> xs]
UnionV(i, x) == [t |-> "union", i |-> i, v |-> x]
ErrV(m)     == [t |-> "err", m |-> m]       \* m = "?" : the text is not specified
BigV        == [t |-> "big"]                 \* outside the model's arithmetic: unknown
TailV(args) == [t |-> "tailcall", args |-> args]
Nil         == [t |-> "nil"]

IsErr(v) == v.t = "err"
IsBig(v) == v.t = "big"

Abs(n) == IF n < 0 THEN -n ELSE n
MkInt(n) == IF n >= -Lim /\ n <= Lim THEN IntV(n) ELSE BigV
SafeMul(a, b) == IF a = 0 \/ b = 0 THEN IntV(0)
                 ELSE IF Abs(a) <= 46340 /\ Abs(b) <= 46340 THEN MkInt(a * b) ELSE BigV

RECURSIVE Pow(_, _)
Pow(a, b) == IF b = 0 THEN IntV(1)
             ELSE LET r == Pow(a, b - 1)
                  IN IF IsBig(r) THEN BigV ELSE SafeMul(r.v, a)

\* floored modulo: the result has the sign of the divisor (std/int.md)
FloorMod(a, b) == LET m == a % Abs(b)       \* TLC: % with positive divisor is floored
                  IN IF b > 0 THEN m ELSE IF m = 0 THEN 0 ELSE m - Abs(b)

Digit(d) == CASE d = 0 -> "0" [] d = 1 -> "1" [] d = 2 -> "2" [] d = 3 -> "3" [] d = 4 -> "4"
              [] d = 5 -> "5" [] d = 6 -> "6" [] d = 7 -> "7" [] d = 8 -> "8" [] d = 9 -> "9"
RECURSIVE NatStr(_)
NatStr(n) == IF n < 10 THEN Digit(n) ELSE NatStr(n \div 10) \o Digit(n % 10)
IntStr(n) == IF n < 0 THEN "-" \o NatStr(-n) ELSE NatStr(n)

RECURSIVE RepStr(_, _)
RepStr(s, n) == IF n <= 0 THEN "" ELSE s \o RepStr(s, n - 1)

Cmp3(a, b) == IF a < b THEN -1 ELSE IF a > b THEN 1 ELSE 0

----------------------------------------------------------------------------
(* structural equality / order / text of values (std: derived eq, cmp, to_str) *)

RECURSIVE VEq(_, _), VEqSeq(_, _)
VEqSeq(xs, ys) == Len(xs) = Len(ys) /\ \A i \in 1..Len(xs) : VEq(xs[i], ys[i])
VEq(a, b) ==
    IF a.t # b.t THEN FALSE
    ELSE CASE a.t \in {"int", "bool", "str"} -> a.v = b.v
           [] a.t \in {"seq", "struct"} -> VEqSeq(a.v, b.v)
           [] a.t = "opt" -> IF a.has /\ b.has THEN VEq(a.v, b.v) ELSE a.has = b.has
           [] a.t = "union" -> a.i = b.i /\ VEq(a.v, b.v)
           [] OTHER -> FALSE

\* derived order (std: cmp of tuples and sequences is lexicographic, a proper prefix is smaller; false < true; the
\* relations lt / le / gt / ge follow from cmp).  2 = not decided here (strings that differ: TLC cannot order them)
RECURSIVE ECmp(_, _), ECmpSeq(_, _, _)
ECmpSeq(xs, ys, i) ==
    IF i > Len(xs) /\ i > Len(ys) THEN 0
    ELSE IF i > Len(xs) THEN -1 ELSE IF i > Len(ys) THEN 1
    ELSE LET c == ECmp(xs[i], ys[i]) IN IF c # 0 THEN c ELSE ECmpSeq(xs, ys, i + 1)
ECmp(a, b) ==
    IF a.t # b.t THEN 2
    ELSE CASE a.t = "int" -> Cmp3(a.v, b.v)
           [] a.t = "bool" -> IF a.v = b.v THEN 0 ELSE IF b.v THEN -1 ELSE 1
           [] a.t = "str" -> IF a.v = b.v THEN 0 ELSE 2
           [] a.t \in {"seq", "struct"} -> ECmpSeq(a.v, b.v, 1)
           [] OTHER -> 2
RECURSIVE HasSeq(_)
HasSeq(v) == v.t = "seq" \/ (v.t = "struct" /\ \E i \in 1..Len(v.v) : HasSeq(v.v[i]))
Rel(f, a, b) == LET c == ECmp(a, b)
                IN IF c = 2 THEN BigV
                   ELSE CASE f = "lt" -> BoolV(c < 0) [] f = "le" -> BoolV(c <= 0) [] f = "gt" -> BoolV(c > 0)
                          [] f = "ge" -> BoolV(c >= 0) [] f = "cmp" -> IntV(c)

\* to_str: exact for int/bool/str; "[a, b]" for sequences, "(a, b)" for tuples (std docs:
\* items separated by commas inside brackets)
RECURSIVE VStr(_), JoinStr(_, _)
JoinStr(xs, i) == IF i > Len(xs) THEN ""
                  ELSE VStr(xs[i]) \o (IF i < Len(xs) THEN ", " ELSE "") \o JoinStr(xs, i + 1)
VStr(a) == CASE a.t = "int" -> IntStr(a.v)
             [] a.t = "bool" -> IF a.v THEN "true" ELSE "false"
             [] a.t = "str" -> a.v
             [] a.t = "seq" -> "[" \o JoinStr(a.v, 1) \o "]"
             [] a.t = "struct" -> "(" \o JoinStr(a.v, 1) \o ")"
             [] OTHER -> "?"

----------------------------------------------------------------------------
(* evaluation state *)

St0(limits) == [out |-> <<>>, calls |-> 0, depth |-> 0, maxdepth |-> 0, maxrec |-> 0,
                maxsearch |-> 0, viol |-> "none", taint |-> FALSE, fuel |-> 4000, lim |-> limits,
                fwd |-> [x \in {} |-> Nil]]      \* forward declarations fulfilled so far: id -> closure
Unlimited == [calls |-> NoLimit, depth |-> NoLimit, rec |-> NoLimit, search |-> NoLimit]

Viol(st, k) == IF st.viol = "none" THEN [st EXCEPT !.viol = k] ELSE st
Taint(st) == [st EXCEPT !.taint = TRUE]
Dead(st) == st.viol # "none" \/ st.taint
R(v, st) == [r |-> v, st |-> st]

Bind(env, n, v) == [x \in DOMAIN env \cup {n} |-> IF x = n THEN v ELSE env[x]]

\* builtins whose book entry says "short-circuiting", plus the error inspectors
Special == {"if", "and", "or", "if_error", "is_error", "get_error", "then", "opt_or",
            "opt_or_val", "opt_and", "opt_map", "map_or", "display"}

\* strict builtins of the core fragment: meaning on non-error argument values
Prim(f, a) ==
    CASE f = "add"     -> IF a[1].t = "int" THEN MkInt(a[1].v + a[2].v)
                          ELSE IF a[1].t = "str" THEN StrV(a[1].v \o a[2].v)
                          ELSE SeqV(a[1].v \o a[2].v)
      [] f = "sub"     -> MkInt(a[1].v - a[2].v)
      [] f = "mul"     -> IF a[1].t = "int" THEN SafeMul(a[1].v, a[2].v)
                          ELSE IF a[2].v < 0 THEN ErrV("?") ELSE StrV(RepStr(a[1].v, a[2].v))
      [] f = "pow"     -> IF a[2].v < 0 \/ (a[1].v = 0 /\ a[2].v = 0) THEN ErrV("?")
                          ELSE IF a[2].v > 40 /\ Abs(a[1].v) > 1 THEN BigV ELSE Pow(a[1].v, a[2].v)
      [] f = "mod"     -> IF a[2].v = 0 THEN ErrV("?") ELSE IntV(FloorMod(a[1].v, a[2].v))
      [] f = "neg"     -> IntV(-a[1].v)
      [] f = "abs"     -> IntV(Abs(a[1].v))
      [] f = "sign"    -> IntV(Cmp3(a[1].v, 0))
      [] f = "bit_and_b" -> BoolV(a[1].v /\ a[2].v)
      [] f = "eq"      -> BoolV(VEq(a[1], a[2]))
      [] f = "ne"      -> BoolV(~VEq(a[1], a[2]))
      [] f \in {"lt", "le", "gt", "ge", "cmp"} -> Rel(f, a[1], a[2])
      [] f = "not"     -> BoolV(~a[1].v)
      [] f = "to_str"  -> StrV(VStr(a[1]))
      [] f = "len"     -> IntV(Len(a[1].v))
      [] f = "get"     -> LET n == Len(a[1].v) i == a[2].v
                              j == IF i < 0 THEN n + i ELSE i
                          IN IF j < 0 \/ j >= n THEN ErrV("?") ELSE a[1].v[j + 1]
      [] f = "push"    -> SeqV(Append(a[1].v, a[2]))
      [] f = "rpush"   -> SeqV(<<a[2]>> \o a[1].v)
      [] f = "some"    -> SomeV(a[1])
      [] f = "none"    -> NoneV
      [] f = "has_value" -> BoolV(a[1].has)
      [] f = "value"   -> IF a[1].has THEN a[1].v ELSE ErrV("?")
      [] f = "error"   -> ErrV(a[1].v)
      [] f = "assert"  -> IF a[1].v THEN BoolV(TRUE) ELSE ErrV("?")
      [] f = "indicator" -> IntV(IF a[1].v THEN 1 ELSE 0)
      [] OTHER         -> BigV

RECURSIVE Ev(_, _, _, _), EvSeq(_, _, _, _), EvCall(_, _, _, _), Apply(_, _, _), Tramp(_, _, _, _),
          Search(_, _, _, _, _, _),
          EvDecls(_, _, _), EvBody(_, _, _, _), MapApply(_, _, _, _), LeftErr(_), AnyBig(_), TaintIfEffects(_, _, _, _)

LeftErr(vals) == IF vals = <<>> THEN Nil
                 ELSE IF IsErr(Head(vals)) THEN Head(vals) ELSE LeftErr(Tail(vals))
AnyBig(vals) == \E i \in 1..Len(vals) : IsBig(vals[i])

\* evaluate expressions left to right, exactly once each; collects values (errors included)
EvSeq(es, env, st, acc) ==
    IF es = <<>> \/ Dead(st) THEN R(acc, st)
    ELSE LET r == Ev(Head(es), env, st, FALSE)
         IN EvSeq(Tail(es), env, r.st, Append(acc, r.r))

\* The book promises that every argument is evaluated; every native stops at the first error
\* argument instead.  Whether the arguments to the right of an error argument are evaluated is
\* therefore left open here: if evaluating them would be observable, the run is tainted.
TaintIfEffects(es, env, st, i) ==
    IF i > Len(es) THEN st
    ELSE LET r == Ev(es[i], env, st, FALSE)
         IN IF r.st.out # st.out \/ r.st.calls # st.calls \/ r.st.viol # st.viol
              THEN Taint(st) ELSE TaintIfEffects(es, env, st, i + 1)

\* user function application (runtime_scope.rs: eval_func_with_values).  Counts the call,
\* then runs the trampoline.
Apply(clo, args, st) ==
    IF Dead(st) THEN R(Nil, st)
    ELSE IF st.fuel = 0 THEN R(Nil, Taint(st))
    ELSE LET st1 == [st EXCEPT !.calls = @ + 1, !.fuel = @ - 1]
         IN IF st1.lim.calls # NoLimit /\ st1.calls >= st1.lim.calls
              THEN R(Nil, Viol(st1, "MaximumUDCall"))
              ELSE Tramp(clo, args, 0, st1)

\* one frame per trampoline iteration, all at the same height
Tramp(clo, args, rec, st) ==
    IF st.fuel = 0 THEN R(Nil, Taint(st))
    ELSE
    LET h == st.depth + 1
    IN IF st.lim.depth # NoLimit /\ h >= st.lim.depth THEN R(Nil, Viol(st, "MaximumStackDepth"))
       ELSE
       LET np == Len(clo.ps)
           full == [i \in 1..np |-> IF i <= Len(args) THEN args[i] ELSE clo.defs[i]]
           names == {clo.ps[i].n : i \in 1..np}
           \* captured functions are ordinary values: only the frame's own recursion cell
           \* (bound below) can start a tail call
           Strip(v) == IF v.t = "clo" THEN [v EXCEPT !.rec = FALSE] ELSE v
           env0 == [x \in DOMAIN clo.env \cup names |->
                        IF x \in names THEN full[CHOOSE i \in 1..np : clo.ps[i].n = x]
                        ELSE Strip(clo.env[x])]
           env1 == IF clo.self = "" THEN env0 ELSE Bind(env0, clo.self, [clo EXCEPT !.rec = TRUE])
           stIn == [st EXCEPT !.depth = h, !.fuel = @ - 1,
                              !.maxdepth = IF h > @ THEN h ELSE @]
           r == EvBody(clo.decls, clo.ret, env1, stIn)
           stOut == [r.st EXCEPT !.depth = st.depth]
       IN IF Dead(r.st) THEN R(Nil, stOut)
          ELSE IF r.r.t = "tailcall"
                 THEN IF st.lim.rec # NoLimit /\ rec + 1 > st.lim.rec
                        THEN R(Nil, Viol(stOut, "MaximumRecursion"))
                        ELSE \* a tail call is a user function call: it is counted like one
                             LET stC == [stOut EXCEPT !.calls = @ + 1]
                             IN IF stC.lim.calls # NoLimit /\ stC.calls >= stC.lim.calls
                                  THEN R(Nil, Viol(stC, "MaximumUDCall"))
                                  ELSE Tramp(clo, r.r.args, rec + 1,
                                             [stC EXCEPT !.maxrec = IF rec + 1 > @ THEN rec + 1 ELSE @])
                 ELSE R(r.r, stOut)

\* body of a function: local declarations, then the result expression in tail position
EvBody(decls, ret, env, st) ==
    LET d == EvDecls(decls, env, st)
    IN IF Dead(d.st) THEN R(Nil, d.st) ELSE Ev(ret, d.env, d.st, TRUE)

MkClo(ps, defs, decls, ret, env, self) ==
    [t |-> "clo", ps |-> ps, defs |-> defs, decls |-> decls, ret |-> ret, env |-> env,
     self |-> self, rec |-> FALSE]

\* default values are evaluated once, when the function is created, in the defining scope
RECURSIVE EvDefaults(_, _, _, _, _)
EvDefaults(ps, i, env, st, acc) ==
    IF i > Len(ps) \/ Dead(st) THEN R(acc, st)
    ELSE IF ps[i].hasdef
           THEN LET r == Ev(ps[i].def, env, st, FALSE)
                IN EvDefaults(ps, i + 1, env, r.st, Append(acc, r.r))
           ELSE EvDefaults(ps, i + 1, env, st, Append(acc, Nil))

\* declarations, one at a time, threading environment and state
EvDecls(decls, env, st) ==
    IF decls = <<>> \/ Dead(st) THEN [env |-> env, st |-> st]
    ELSE LET d == Head(decls)
         IN IF d.k = "let"
              THEN LET r == Ev(d.e, env, st, FALSE)
                   IN EvDecls(Tail(decls), Bind(env, d.n, r.r), r.st)
            ELSE IF d.k = "fwd"
              THEN \* forward fn: the name denotes a cell that a later declaration of the same
                   \* name and signature fills
                   EvDecls(Tail(decls), Bind(env, d.n, [t |-> "fwd", id |-> d.id, sig |-> d.sigtxt]), st)
            ELSE IF d.k = "fn" /\ d.n \in DOMAIN env /\ env[d.n].t = "fwd"
                    /\ env[d.n].id \notin DOMAIN st.fwd /\ env[d.n].sig = d.sigtxt
              THEN LET ds == EvDefaults(d.ps, 1, env, st, <<>>)
                       clo == MkClo(d.ps, ds.r, d.decls, d.ret, env, d.n)
                       id == env[d.n].id
                   IN EvDecls(Tail(decls), env,
                              [ds.st EXCEPT !.fwd = [x \in DOMAIN @ \cup {id} |-> IF x = id THEN clo ELSE @[x]]])
            ELSE IF d.k = "fn"
              THEN LET ds == EvDefaults(d.ps, 1, env, st, <<>>)
                       clo == MkClo(d.ps, ds.r, d.decls, d.ret, env, IF d.ovl THEN "" ELSE d.n)
                       prev == IF d.n \in DOMAIN env /\ env[d.n].t = "ovl" THEN env[d.n].alts ELSE <<>>
                       v == IF d.ovl THEN [t |-> "ovl", alts |-> Append(prev, [sig |-> d.sig, clo |-> clo])]
                            ELSE clo
                   IN EvDecls(Tail(decls), Bind(env, d.n, v), ds.st)
            ELSE EvDecls(Tail(decls), env, st)      \* struct / union / type: no runtime effect

\* f applied to each element, in order (used for map + to_array, all, any, ...)
\* An error from the callback ends the traversal with that error; whether the remaining
\* elements are still visited is not documented, so such runs are tainted.
MapApply(clo, xs, st, acc) ==
    IF xs = <<>> \/ Dead(st) THEN R(acc, st)
    ELSE LET r == Apply(clo, <<Head(xs)>>, st)
         IN IF ~Dead(r.st) /\ IsErr(r.r) /\ Len(xs) > 1 THEN R(Append(acc, r.r), Taint(r.st))
            ELSE MapApply(clo, Tail(xs), r.st, Append(acc, r.r))

\* searching builtins (nth, take_while, skip_until): every element examined draws one search
\* permit; examining more than lim.search elements is the MaximumSearch violation.
\* mode "nth": left = matches still to skip; returns Optional.  "tw"/"su": returns the cut index.
Search(mode, clo, xs, i, left, st) ==
    IF Dead(st) THEN R(Nil, st)
    ELSE IF i > Len(xs)
      THEN R(IF mode = "nth" THEN NoneV ELSE IntV(Len(xs)), st)
    ELSE IF st.lim.search # NoLimit /\ i > st.lim.search
      THEN R(Nil, Viol(st, "MaximumSearch"))
    ELSE LET st1 == [st EXCEPT !.maxsearch = IF i > @ THEN i ELSE @]
             p == Apply(clo, <<xs[i]>>, st1)
         IN IF Dead(p.st) THEN R(Nil, p.st)
            ELSE IF IsErr(p.r) THEN p
            ELSE IF mode = "nth"
              THEN IF p.r.v THEN IF left = 0 THEN R(SomeV(xs[i]), p.st)
                                 ELSE Search(mode, clo, xs, i + 1, left - 1, p.st)
                   ELSE Search(mode, clo, xs, i + 1, left, p.st)
            ELSE IF mode = "tw"
              THEN IF p.r.v THEN Search(mode, clo, xs, i + 1, left, p.st) ELSE R(IntV(i - 1), p.st)
            ELSE IF p.r.v THEN R(IntV(i - 1), p.st) ELSE Search(mode, clo, xs, i + 1, left, p.st)

EvCall(e, env, st, tail) ==
    LET f == e.f  args == e.args
    IN
    \* ---- documented short-circuit functions --------------------------------------------
    IF f = "if" THEN
        LET c == Ev(args[1], env, st, FALSE)
        IN IF Dead(c.st) THEN R(Nil, c.st)
           ELSE IF IsErr(c.r) THEN R(c.r, c.st)
           ELSE IF IsBig(c.r) THEN R(Nil, Taint(c.st))
           ELSE Ev(args[IF c.r.v THEN 2 ELSE 3], env, c.st, tail)
    ELSE IF f \in {"and", "or"} THEN
        LET c == Ev(args[1], env, st, FALSE)
        IN IF Dead(c.st) THEN R(Nil, c.st)
           ELSE IF IsErr(c.r) THEN R(c.r, c.st)
           ELSE IF IsBig(c.r) THEN R(Nil, Taint(c.st))
           ELSE IF (f = "and") = c.r.v THEN Ev(args[2], env, c.st, tail) ELSE R(c.r, c.st)
    ELSE IF f = "then" THEN
        LET c == Ev(args[1], env, st, FALSE)
        IN IF Dead(c.st) THEN R(Nil, c.st)
           ELSE IF IsErr(c.r) THEN R(c.r, c.st)
           ELSE IF IsBig(c.r) THEN R(Nil, Taint(c.st))
           ELSE IF c.r.v THEN LET v == Ev(args[2], env, c.st, FALSE)
                              IN IF Dead(v.st) \/ IsErr(v.r) THEN v ELSE R(SomeV(v.r), v.st)
                ELSE R(NoneV, c.st)
    ELSE IF f = "if_error" /\ Len(args) = 3 THEN
        \* if_error(x, msg, alt): alt (lazily, in tail position) when x is an error whose text contains msg.
        \* TLC has no substring test: "contains" is decided only for msg equal to the text, the empty
        \* msg, and the marker "@never" that no generated error text contains; otherwise the run is tainted.
        LET c == Ev(args[1], env, st, FALSE)
        IN IF Dead(c.st) THEN R(Nil, c.st)
           ELSE IF ~IsErr(c.r) THEN R(c.r, c.st)
           ELSE LET m == Ev(args[2], env, c.st, FALSE)
                IN IF Dead(m.st) THEN R(Nil, m.st)
                   ELSE IF IsErr(m.r) THEN R(m.r, m.st)
                   ELSE IF c.r.m = "?" \/ m.r.t # "str" THEN R(Nil, Taint(m.st))
                   ELSE IF m.r.v = c.r.m \/ m.r.v = "" THEN Ev(args[3], env, m.st, tail)
                   ELSE IF m.r.v = "@never" THEN R(c.r, m.st)
                   ELSE R(Nil, Taint(m.st))
    ELSE IF f = "if_error" THEN
        LET c == Ev(args[1], env, st, FALSE)
        IN IF Dead(c.st) THEN R(Nil, c.st)
           ELSE IF IsErr(c.r) THEN Ev(args[2], env, c.st, tail) ELSE R(c.r, c.st)
    ELSE IF f = "is_error" THEN
        LET c == Ev(args[1], env, st, FALSE)
        IN IF Dead(c.st) THEN R(Nil, c.st) ELSE R(BoolV(IsErr(c.r)), c.st)
    ELSE IF f = "get_error" THEN
        LET c == Ev(args[1], env, st, FALSE)
        IN IF Dead(c.st) THEN R(Nil, c.st)
           ELSE R(IF IsErr(c.r) THEN SomeV(StrV(c.r.m)) ELSE NoneV, c.st)
    ELSE IF f \in {"opt_or", "opt_or_val", "opt_and"} THEN
        LET c == Ev(args[1], env, st, FALSE)
        IN IF Dead(c.st) THEN R(Nil, c.st)
           ELSE IF IsErr(c.r) THEN R(c.r, c.st)
           ELSE IF f = "opt_and"
                  THEN IF c.r.has THEN Ev(args[2], env, c.st, tail) ELSE R(NoneV, c.st)
                ELSE IF c.r.has THEN R(IF f = "opt_or" THEN c.r ELSE c.r.v, c.st)
                     ELSE Ev(args[2], env, c.st, tail)
    ELSE IF f = "display" THEN
        \* prints to_str(x) and a newline, returns x
        LET c == Ev(args[1], env, st, FALSE)
        IN IF Dead(c.st) THEN R(Nil, c.st)
           ELSE IF IsErr(c.r) THEN R(c.r, c.st)
           ELSE IF IsBig(c.r) THEN R(Nil, Taint(c.st))
           ELSE R(c.r, [c.st EXCEPT !.out = Append(@, VStr(c.r))])
    \* ---- everything else is strict: all arguments, left to right, exactly once -----------
    ELSE
        LET a == EvSeq(args, env, st, <<>>)
        IN IF Dead(a.st) THEN R(Nil, a.st)
           ELSE
           LET err == LeftErr(a.r)
               \* position of the leftmost error
               k == IF err.t = "nil" THEN 0 ELSE CHOOSE i \in 1..Len(a.r) : IsErr(a.r[i]) /\ \A j \in 1..(i-1) : ~IsErr(a.r[j])
           IN IF err.t # "nil"
                THEN \* the call yields the leftmost error; arguments to its right: see TaintIfEffects
                     LET stL == EvSeq(SubSeq(args, 1, k), env, st, <<>>).st
                     IN R(err, TaintIfEffects(args, env, stL, k + 1))
              ELSE IF AnyBig(a.r) \/ (\E i \in 1..Len(a.r) : a.r[i].t = "opaque") THEN R(Nil, Taint(a.st))
              ELSE IF f \in DOMAIN env /\ env[f].t = "ovl"
                THEN \* user overloads of this name: selected by the static argument types
                     LET cands == {i \in 1..Len(env[f].alts) : env[f].alts[i].sig = e.sig}
                     IN IF cands = {} THEN R(Prim(f, a.r), a.st)
                        ELSE Apply(env[f].alts[CHOOSE i \in cands : \A j \in cands : j <= i].clo, a.r, a.st)
              ELSE IF f \in DOMAIN env /\ env[f].t = "clo"
                THEN IF tail /\ env[f].rec THEN R(TailV(a.r), a.st)
                     ELSE Apply(env[f], a.r, a.st)
              ELSE IF f \in DOMAIN env /\ env[f].t = "fwd"
                THEN IF env[f].id \in DOMAIN a.st.fwd THEN Apply(a.st.fwd[env[f].id], a.r, a.st)
                     ELSE R(Nil, Taint(a.st))        \* excluded statically (XrScope.StaticCheck)
              ELSE IF f = "map_arr"       \* xs.map(g).to_array()
                THEN LET m == MapApply(a.r[2], a.r[1].v, a.st, <<>>)
                     IN IF Dead(m.st) THEN R(Nil, m.st)
                        ELSE IF LeftErr(m.r).t # "nil" THEN R(LeftErr(m.r), m.st)
                        ELSE R(SeqV(m.r), m.st)
              ELSE IF f = "nth"           \* nth(xs, n, pred), n >= 0
                THEN IF a.r[2].v < 0 THEN R(Nil, Taint(a.st))
                     ELSE Search("nth", a.r[3], a.r[1].v, 1, a.r[2].v, a.st)
              ELSE IF f \in {"take_while", "skip_until"}
                THEN LET c == Search(IF f = "take_while" THEN "tw" ELSE "su", a.r[2], a.r[1].v, 1, 0, a.st)
                     IN IF Dead(c.st) \/ IsErr(c.r) THEN c
                        ELSE R(SeqV(IF f = "take_while" THEN SubSeq(a.r[1].v, 1, c.r.v)
                                    ELSE SubSeq(a.r[1].v, c.r.v + 1, Len(a.r[1].v))), c.st)
              ELSE IF f = "opt_map"
                THEN IF a.r[1].has
                       THEN LET m == Apply(a.r[2], <<a.r[1].v>>, a.st)
                            IN IF Dead(m.st) \/ IsErr(m.r) THEN m ELSE R(SomeV(m.r), m.st)
                       ELSE R(NoneV, a.st)
              ELSE IF f \in {"lt", "le", "gt", "ge", "cmp", "eq", "ne"} /\ a.st.lim.search # NoLimit
                      /\ \E i \in 1..Len(a.r) : HasSeq(a.r[i])
                THEN \* comparing sequences element by element is a native search (interop/limits.md); how many
                     \* permits it draws is not modelled: left open under a search limit
                     R(Nil, Taint(a.st))
              ELSE LET v == Prim(f, a.r)
                   IN IF IsBig(v) THEN R(Nil, Taint(a.st)) ELSE R(v, a.st)

Ev(e, env, st, tail) ==
    IF Dead(st) THEN R(Nil, st)
    ELSE
    CASE e.k = "lit"  -> R([t |-> e.ty, v |-> e.v], st)
      [] e.k = "raw"  -> R([t |-> "opaque"], st)      \* some non-error value outside the model
      [] e.k = "var"  -> R(env[e.n], st)
      [] e.k = "call" -> EvCall(e, env, st, tail)
      [] e.k = "callv" ->
            \* call of a function value: callee first, then the arguments
            LET c == Ev(e.fe, env, st, FALSE)
            IN IF Dead(c.st) THEN R(Nil, c.st)
               ELSE IF IsErr(c.r) THEN R(c.r, c.st)
               ELSE LET a == EvSeq(e.args, env, c.st, <<>>)
                    IN IF Dead(a.st) THEN R(Nil, a.st)
                       ELSE IF LeftErr(a.r).t # "nil" THEN R(LeftErr(a.r), a.st)
                       ELSE IF AnyBig(a.r) THEN R(Nil, Taint(a.st))
                       ELSE Apply(c.r, a.r, a.st)
      [] e.k \in {"arr", "tup", "cons"} ->
            \* items left to right; the leftmost error is the result
            LET a == EvSeq(e.items, env, st, <<>>)
            IN IF Dead(a.st) THEN R(Nil, a.st)
               ELSE IF LeftErr(a.r).t # "nil"
                 THEN LET k == CHOOSE i \in 1..Len(a.r) : IsErr(a.r[i]) /\ \A j \in 1..(i-1) : ~IsErr(a.r[j])
                          stL == EvSeq(SubSeq(e.items, 1, k), env, st, <<>>).st
                      IN R(LeftErr(a.r), TaintIfEffects(e.items, env, stL, k + 1))
               ELSE IF AnyBig(a.r) THEN R(Nil, Taint(a.st))
               ELSE R(IF e.k = "arr" THEN SeqV(a.r) ELSE StructV(a.r), a.st)
      [] e.k = "variant" ->
            LET c == Ev(e.e, env, st, FALSE)
            IN IF Dead(c.st) \/ IsErr(c.r) THEN c
               ELSE IF IsBig(c.r) THEN R(Nil, Taint(c.st)) ELSE R(UnionV(e.idx, c.r), c.st)
      [] e.k = "member" ->
            LET c == Ev(e.e, env, st, FALSE)
            IN IF Dead(c.st) \/ IsErr(c.r) THEN c ELSE R(c.r.v[e.idx + 1], c.st)
      [] e.k = "vget" ->
            \* u!:x (error on other variant) / u?:x (Optional)
            LET c == Ev(e.e, env, st, FALSE)
            IN IF Dead(c.st) \/ IsErr(c.r) THEN c
               ELSE IF e.opt THEN R(IF c.r.i = e.idx THEN SomeV(c.r.v) ELSE NoneV, c.st)
               ELSE R(IF c.r.i = e.idx THEN c.r.v ELSE ErrV("?"), c.st)
      [] e.k = "lam" ->
            LET ds == EvDefaults(e.ps, 1, env, st, <<>>)
            IN R(MkClo(e.ps, ds.r, e.decls, e.ret, env, ""), ds.st)
      [] OTHER -> R(Nil, Taint(st))

----------------------------------------------------------------------------
(* projection of values for comparison with the implementation's canonical dump *)
RECURSIVE Proj(_), ProjSeq(_, _)
ProjSeq(xs, i) == IF i > Len(xs) THEN <<>> ELSE <<Proj(xs[i])>> \o ProjSeq(xs, i + 1)
Proj(v) == CASE v.t = "int"    -> [t |-> "int", v |-> v.v]
             [] v.t = "bool"   -> [t |-> "bool", v |-> v.v]
             [] v.t = "str"    -> [t |-> "str", v |-> v.v]
             [] v.t = "seq"    -> [t |-> "seq", v |-> ProjSeq(v.v, 1)]
             [] v.t = "struct" -> [t |-> "struct", v |-> ProjSeq(v.v, 1)]
             [] v.t = "opt"    -> IF v.has THEN [t |-> "opt", has |-> TRUE, v |-> Proj(v.v)]
                                  ELSE [t |-> "opt", has |-> FALSE]
             [] v.t = "union"  -> [t |-> "union", i |-> v.i, v |-> Proj(v.v)]
             [] v.t = "err"    -> [t |-> "err", m |-> v.m]
             [] v.t = "clo"    -> [t |-> "fn"]
             [] OTHER          -> [t |-> "unknown"]
=============================================================================
