"""C12 - Compilation is total, effect-free and deterministic.

Decided by: XrCompile (TLA+ acceptor: the outcome of compiling - acceptance, error class and
rendered message - and the behaviour of the compiled program are functions of the source text;
a panic or hang has no action) and XrRuntime (CompileIsSilent: no resource or effect event may
lie between CompileBegin and CompileEnd).  Inputs: token soups walked by TLC over the grammar's
alphabet (XrSoup, -simulate), seeded mutations and splices of the shipped scripts and book
examples, numeric-literal and string-literal spellings, bracket nesting to depth 64, and
generated core programs.  Every text is compiled several times in one process (fresh standard
scope each time, other compilations in between, different limits) and accepted texts are run
twice."""
import hashlib
import json
import random
import re

import coregen
import corpus
import vf

LEVEL = "exploration"

TOKEN = re.compile(r"\s+|[A-Za-z_][A-Za-z_0-9]*|\d[\d_]*(?:\.\d+)?(?:[eE]-?\d+)?|\"(?:[^\"\\]|\\.)*\"|'(?:[^'\\]|\\.)*'|->|::|\?:|!:|\*\*|&&|\|\||[<>=!]=|.", re.S)
EXTRA = ["(", ")", "[", "]", "{", "}", ";", ",", "let ", "fn ", "->", "::", "?=", "<", ">", "0x", "1e999", "\"", "'", "#",
         "f\"{", "}", "\\", "**", "!", "-", "0xffffffffffffffffffffffffffffffffffffffffff", "struct ", "forward fn ", "$", "é", "😀"]


def mutate(rnd, text, others):
    toks = TOKEN.findall(text)
    if not toks:
        return text
    for _ in range(rnd.randint(1, 4)):
        op = rnd.randrange(7)
        i = rnd.randrange(len(toks))
        if op == 0:
            del toks[i]
        elif op == 1:
            toks.insert(i, toks[rnd.randrange(len(toks))])
        elif op == 2:
            j = rnd.randrange(len(toks))
            toks[i], toks[j] = toks[j], toks[i]
        elif op == 3:
            toks.insert(i, rnd.choice(EXTRA))
        elif op == 4:
            toks = toks[:i]
        elif op == 5 and others:
            o = TOKEN.findall(rnd.choice(others))
            k = rnd.randrange(len(o) + 1)
            toks = toks[:i] + o[k:k + rnd.randint(1, 30)] + toks[i:]
        else:
            toks[i] = rnd.choice(EXTRA)
        if not toks:
            break
    return "".join(toks)[:4000]


def literal_spellings():
    L = []
    for n in ["0", "7", "1_0", "007", "1__2", "1_", "0x0", "0xFF", "0xff_ff", "0x", "0xG", "0b0", "0b1_1", "0b2", "0b",
              "1.0", "1.", ".5", "1.5e3", "1e3", "1E3", "1e-3", "1e+3", "1e", "1e999", "1e-999", "9.9e307", "1.7976931348623157e308",
              "1.8e308", "0.0000000000000000000000000000000000000000001", "1" + "0" * 400, "0." + "0" * 400 + "1",
              "0x" + "f" * 16, "0x" + "f" * 31, "0x" + "f" * 32, "0x" + "f" * 33, "0x" + "f" * 80, "0b" + "1" * 127, "0b" + "1" * 128,
              "0b" + "1" * 129, "0b" + "1" * 400, "9" * 38, "9" * 39, "9" * 40, "-" + "9" * 40, "1" + "_" * 50 + "1"]:
        L.append("let a = %s;" % n)
    for s in ['""', '"a"', "'a'", '"\\n"', '"\\q"', '"\\u{41}"', '"\\u{1F600}"', '"\\u{110000}"', '"\\u{}"', '"\\u{D800}"', '"\\u{FFFFFFFFF}"',
              '"\\"', '"\\\\"', '#"a"b"#', '##"a"#b"##', '#"a"', '"a"#', "r'\\n'", 'r"\\"', "r#'a'b'#", 'f"{1}"', 'f"{1:>5}"', 'f"{1:}"',
              'f"{"', 'f"}"', 'f"{{}}"', 'f"{{{1}}}"', 'f"{f"{1}"}"', "f'{\"a\"}'", 'f"{1:{2}}"', 'f"{}"', 'f"{1:>5"']:
        L.append("let a = %s;" % s)
    # the literal parts of a formatted string obey the literal grammar too: every escape-like piece directly before and
    # after an interpolation, at both ends, in both quote kinds and inside fences
    pieces = ["\\", "\\\\", "\\n", "\\q", "\\u{41}", "\\u{", "\\u", "{{", "}}", "#", "\\{", "\\}", "\\\\\\"]
    for q, oq in (('"', "'"), ("'", '"')):
        for pc in pieces + [oq, "\\" + q]:
            for shape in ("%s{x}", "{x}%s", "a%s{x}b", "{x}%s{x}", "%s", "a%s"):
                L.append("let x = 1;\nlet a = f%s%s%s;" % (q, shape % pc, q))
                L.append("let x = 1;\nlet a = f#%s%s%s#;" % (q, shape % pc, q))
    for d in (1, 8, 32, 63, 64):
        L += ["let a = " + "(" * d + "1" + ")" * d + ";", "let a = " + "[" * d + "1" + "]" * d + ";",
              "let a = " + "(" * d + "1" + ")" * (d - 1) + ";", "let a = " + "-" * d + "1;", "let a = " + "!" * d + "true;",
              "let a = " + "(" * d + "1," + ")" * d + ";", "fn f()->" + "Sequence<" * d + "int" + ">" * d + " { [] }",
              "let a = 1" + " + 1" * d + ";", "let a = " + "if(true, " * d + "1" + ", 0)" * d + ";"]
    return L


def construct_spellings():
    """constructs that neither the token soups nor mutations of the shipped texts reach reliably:
    turbofish arities, several unfulfilled forwards, several failing dynamic overloads"""
    L = []
    gen = "fn f<T>(a: T)->T { a }\nfn g<T, U>(a: T, b: U)->T { a }\n"
    for tf in ("$", "$, $", "$, $, $", "int", "int, $", "$, int", "int, int, int", "", "str", "Sequence<$>", "$, Sequence<int>"):
        for args in ("", "1", "1, 2", "1, 2, 3"):
            L.append(gen + "let r = f{%s}(%s);" % (tf, args))
            L.append(gen + "let r = g{%s}(%s);" % (tf, args))
        L.append(gen + "let r = f{%s};" % tf)
    for n in (2, 3, 5):
        fw = "".join("forward fn f%d(n: int)->int;\n" % i for i in range(n))
        use = " + ".join("f%d(%d)" % (i, i) for i in range(n))
        defs = "".join("fn f%d(n: int)->int { n }\n" % i for i in range(n))
        L.append(fw + "fn outer()->int {\n fn inner()->int { %s }\n inner()\n}\nlet r = outer();\n" % use + defs)
        L.append(fw + "fn direct()->int { %s }\nlet r = direct();\n" % use + defs)
        L.append(fw + "fn outer()->int {\n fn mid()->int {\n  fn inner()->int { %s }\n  inner()\n }\n mid()\n}\nlet r = outer();\n" % use + defs)
    for body in ("a == a", "to_str(a)", "hash(a)", "cmp(a, a)", "a < a", "[a] == [a]", "(a, 1) == (a, 1)", "some(a) == some(a)", "a + a", "len(a)"):
        L.append("struct P(x: int, y: str)\nstruct Q<T>(v: T, w: Sequence<T>)\nlet a = P(1, \"s\");\nlet r = %s;" % body)
        L.append("struct P(x: int, y: str)\nstruct Q<T>(v: T, w: Sequence<T>)\nlet a = Q(P(1, \"s\"), []);\nlet r = %s;" % body)
        L.append("union U(a: int, b: (int, str))\nlet a = U::b((1, \"s\"));\nlet r = %s;" % body)
    return L


def operator_programs():
    """every operator with a user-defined overload of the function it stands for (the operator table is
    interned per compilation: its meaning may not depend on what was compiled before)"""
    L = []
    binops = {"+": "add", "-": "sub", "*": "mul", "/": "div", "%": "mod", "**": "pow", "&&": "and", "||": "or", "<": "lt", ">": "gt",
              "<=": "le", ">=": "ge", "==": "eq", "!=": "ne", "&": "bit_and", "|": "bit_or", "^": "bit_xor"}
    for sym, fn in binops.items():
        L.append("struct P(x: int)\nfn %s(a: P, b: P)->int { a::x * 100 + b::x }\nlet r = P(1) %s P(2);\n" % (fn, sym))
        L.append("let r = 7 %s 2;\n" % sym if sym not in ("&&", "||") else "let r = true %s false;\n" % sym)
    for sym, fn in {"-": "neg", "!": "not", "+": "pos"}.items():
        L.append("struct P(x: int)\nfn %s(a: P)->int { a::x + 1000 }\nlet r = %sP(1);\n" % (fn, sym))
        L.append("fn %s(a: str)->str { a + \"!\" }\nlet r = %s\"s\";\n" % (fn, sym))
        L.append("let r = %s3;\n" % sym)
        L.append("let r = %strue;\n" % sym)
    return L


def long_error_spans():
    """compile errors whose quoted source excerpt is long and full of multi-byte characters, at every alignment"""
    L = []
    for ch in ("é", "中", "😀"):
        for off in range(4):
            for count in (20, 30, 39, 40, 41, 59, 60, 61, 80, 100, 127, 128):
                pad = "a" * off + ch * count
                L.append('let z: bool = "%s";\n' % pad)
                L.append('let z = no_such_function_anywhere("%s", 1);\n' % pad)
                L.append('let z = 1 + "%s";\n' % pad)
                L.append('fn f(a: int)->int { a }\nlet z = f("%s");\n' % pad)
    return L


def nesting_programs():
    """well-typed texts whose bracket nesting grows to 64, every level mixing operands of different shapes (an empty
    literal next to a full one, none() next to some(..)): compilation stays a terminating function of the text"""
    def nest(d, op, cl, leaf):
        s = leaf
        for _ in range(d):
            s = op + s + cl
        return s
    L = []
    for d in (8, 16, 24, 32, 40, 48, 56, 64):
        L.append("let r = %s;\n" % nest(d, "[[], ", "]", "[1]"))
        L.append("let r = %s;\n" % nest(d, "[", ", []]", "[1]"))
        L.append("let r = %s;\n" % nest(d, "[none(), some(", ")]", "[some(1)]"))
        L.append("let r = %s;\n" % nest(d, "(1, ", ")", "2"))
        L.append("fn f(x: int)->int { x + 1 }\nlet r = %s;\n" % nest(d, "f(", ")", "0"))
        L.append("let r = %s;\n" % nest(d, "if(true, ", ", 0)", "1"))
        L.append("let r = %s;\n" % nest(d, "(() -> {", "})()", "1"))
        L.append("let r = %s;\n" % nest(d, "[[1.0].map((x: float) -> {x.floor()}).to_array().len(), ", "].len()", "1"))
        L.append("let r = %s;\n" % nest(d, "[stack(), stack().push(", ")].get(1)", "1"))
    return L


def run(chk, tier, seed):
    rnd = random.Random(seed)
    n_soup, n_mut = (1500, 1200) if tier == "quick" else (8000, 6000)
    r = vf.tlc("XrSoup", "XrSoup.cfg", "c12-soup", simulate=n_soup, depth=30, seed=seed)
    chk.add_tlc(r)
    texts = ["".join(c) for c in r.cases()]
    if len(texts) < n_soup // 2:
        raise vf.ToolError("XrSoup produced too few behaviours:\n" + r.out[-1500:])
    base = [s["src"] for s in corpus.scripts()] + [b["src"] for b in corpus.book_blocks()]
    for _ in range(n_mut):
        texts.append(mutate(rnd, rnd.choice(base), base))
    texts += literal_spellings() + construct_spellings() + operator_programs() + nesting_programs()
    spans = long_error_spans()
    texts += spans if tier == "thorough" else spans[seed % 3::3]
    texts += base
    for i in range(100 if tier == "quick" else 1000):
        texts.append(coregen.render(coregen.Gen(seed + i, max_depth=3, n_decls=5).program("x")))
    texts = list(dict.fromkeys(texts))
    tid = {t: i + 1 for i, t in enumerate(texts)}
    # every text is compiled three times, at unrelated points of the process, one of them under limits
    order = []
    for t in texts:
        order += [(t, 0), (t, 1), (t, 2)]
    rnd.shuffle(order)
    jobs = []
    for k, (t, rep) in enumerate(order):
        j = {"id": "c%d" % k, "src": t, "trace": True, "observe": [], "timeout_ms": 20000, "max_elems": 8}
        if rep == 2:
            j["limits"] = {"size": 10 ** 7, "calls": 5000, "depth": 40, "recursion": 500, "search": 50}
        else:
            j["limits"] = {"calls": 20000, "depth": 200}
        jobs.append(j)
    res = vf.run_jobs(jobs, "c12", timeout_ms=20000)
    chk.count(len(jobs))
    rid, events = {}, []
    first_bad = {}
    traces = []
    for j in jobs:
        o = res[j["id"]]
        t = j["src"]
        oc = vf.job_outcome(o)
        chk.nontrivial(t)
        comp = o.get("compile", {})
        if oc in ("crash", "timeout", "missing", "compile_panic") or "render_panic" in comp:
            events.append({"ev": "Panic", "text": tid[t], "res": 0, "job": j["id"]})
            first_bad.setdefault(tid[t], (oc, comp))
            continue
        key = json.dumps([comp.get("ok"), comp.get("class"), comp.get("msg")])
        r_ = rid.setdefault(key, len(rid) + 1)
        events.append({"ev": "Compile", "text": tid[t], "res": r_, "job": j["id"]})
        if comp.get("ok") and j["limits"].get("size") is None:
            beh = json.dumps([oc, o.get("stdout"), o.get("values")], sort_keys=True)
            b_ = rid.setdefault(beh, len(rid) + 1)
            events.append({"ev": "Behave", "text": tid[t], "res": b_, "job": j["id"]})
        if "events" in o:
            traces.append((j, o))
    # the same texts as the FIRST compilation of a fresh process (nothing interned, cached or counted yet)
    fresh = operator_programs() + construct_spellings()[::7] + rnd.sample(texts, 40 if tier == "quick" else 400)
    fresh = list(dict.fromkeys(fresh))

    def one_fresh(item):
        k, t = item
        return vf.run_jobs([{"id": "fresh%d" % k, "src": t, "observe": [], "timeout_ms": 20000, "max_elems": 8, "limits": {"calls": 20000, "depth": 200}}],
                           "c12-fresh%d" % k, threads=1, timeout_ms=20000)["fresh%d" % k]
    from concurrent.futures import ThreadPoolExecutor
    with ThreadPoolExecutor(max_workers=max(2, vf.NCPU - 4)) as ex:
        fres = list(ex.map(one_fresh, list(enumerate(fresh))))
    for t, o in zip(fresh, fres):
        oc = vf.job_outcome(o)
        comp = o.get("compile", {})
        chk.count(1)
        if oc in ("crash", "timeout", "missing", "compile_panic") or "render_panic" in comp:
            events.append({"ev": "Panic", "text": tid[t], "res": 0, "job": "fresh"})
            first_bad.setdefault(tid[t], (oc, comp))
            continue
        key = json.dumps([comp.get("ok"), comp.get("class"), comp.get("msg")])
        events.append({"ev": "Compile", "text": tid[t], "res": rid.setdefault(key, len(rid) + 1), "job": "fresh process"})
        if comp.get("ok"):
            beh = json.dumps([oc, o.get("stdout"), o.get("values")], sort_keys=True)
            events.append({"ev": "Behave", "text": tid[t], "res": rid.setdefault(beh, len(rid) + 1), "job": "fresh process"})
    chk.part("fresh_process", texts=len(fresh))
    # XrCompile: the outcome is a function of the text
    d = vf.workdir("c12-tr")
    path = d + "/compile.ndjson"
    with open(path, "w") as f:
        for e in events:
            f.write(json.dumps({k: v for k, v in e.items() if k != "job"}) + "\n")
    rc = vf.tlc("XrCompile", "XrCompile.cfg", "c12-compile", workers=1, env={"TRACE": path}, dfs=True, xmx="4g")
    chk.add_tlc(rc)
    chk.cov["traces_validated_against_impl"] += 1
    if '"TRACE_ACCEPTED"' not in rc.out:
        m = re.search(r'<<"TRACE_REJECTED_AT", (\d+),', rc.out)
        if not m:
            raise vf.ToolError("XrCompile validation failed:\n" + rc.out[-2000:])
        # report every text whose events contradict each other or panic (not only the first)
        bad = set()
        seen = {}
        for e in events:
            if e["ev"] == "Panic":
                bad.add(e["text"])
            else:
                k = (e["ev"], e["text"])
                if seen.setdefault(k, e["res"]) != e["res"]:
                    bad.add(e["text"])
        inv = {v: k for k, v in tid.items()}
        for b in sorted(bad)[:20]:
            t = inv[b]
            outs = [{"job": e["job"], "ev": e["ev"], "res": e["res"]} for e in events if e["text"] == b]
            why = "panic/hang while compiling" if b in first_bad else "outcome is not a function of the text"
            chk.violation("compilation of %r: %s" % (t[:80], why),
                          {"kind": "compile", "source": t, "events": outs, "detail": str(first_bad.get(b, ""))[:600]},
                          finding_key="compile:" + hashlib.sha1(t.encode()).hexdigest()[:12])
    # XrRuntime: nothing happens between CompileBegin and CompileEnd (a sample of the traces)
    sample = traces if tier == "thorough" else traces[::max(1, len(traces) // 150)]
    vf.validate_job_traces(chk, [j for j, _ in sample], {j["id"]: o for j, o in sample}, "c12-silent", "compile trace")
    chk.part("inputs", texts=len(texts), compilations=len(jobs), soups=n_soup)
    acc = sum(1 for e in events if e["ev"] == "Behave")
    chk.part("outcomes", accepted_runs=acc, distinct_outcomes=len(rid))
    chk.sample({"text": texts[3][:200], "outcome": [e for e in events if e["text"] == 4][:3]})
    chk.sample({"text": texts[-5][:300]})
    chk.cov["rule"] = ("texts = TLC token soups (XrSoup) + seeded token-level mutations/splices of shipped scripts and book "
                       "examples + literal spellings + bracket nesting <= 64 + generated programs; each compiled 3x in one "
                       "process at shuffled positions (once under tight limits), accepted ones run; operator programs and a sample also as the "
                       "first compilation of a fresh process; long multi-byte error excerpts at every alignment; non-trivial = distinct text")
    chk.assumptions += ["the input space is sampled, not exhausted", "compile happens before a runtime exists in the host API, so 'never touches writer/clock/rng' is checked as 'no event between CompileBegin and CompileEnd'"]


def replay(chk, path):
    rp = json.load(open(path))
    if rp.get("kind") == "trace":
        return vf.replay_trace_job(chk, rp)
    jobs = [{"id": "r%d" % i, "src": rp["source"], "observe": [], "limits": {"calls": 20000, "depth": 200}, "timeout_ms": 20000}
            for i in range(3)]
    res = vf.run_jobs(jobs, "replay", timeout_ms=20000)
    outs = set()
    bad = False
    for j in jobs:
        o = res[j["id"]]
        oc = vf.job_outcome(o)
        if oc in ("crash", "timeout", "compile_panic"):
            bad = True
        outs.add(json.dumps(o.get("compile"), sort_keys=True))
    chk.count(3)
    chk.nontrivial("replay")
    chk.nontrivial(rp["source"])
    chk.sample({"source": rp["source"][:200], "outcomes": list(outs)[:3]})
    if bad or len(outs) > 1:
        chk.violation("still deviates", rp)
    return chk.finish()
