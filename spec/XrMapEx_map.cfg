SPECIFICATION Spec
CONSTANTS Kind = "map"
          Keys = {0, 1, 2}
          N = 4
          Eqm = 0
          Hm = 2
INVARIANT Emit
PROPERTY OnlyTheKeyChanges
CHECK_DEADLOCK FALSE
