"""C17 - Mappings and sets are finite maps under any consistent hash.

Decided by XrMap: TLC random-walks histories of mapping operations (set, set_default, lookup,
get/2, get/3, contains, pop, discard, update from pairs / from a mapping, update_counter, len,
clear, ==) and set operations (add, remove, discard, contains, update, | & - ^, ==, <=, <, >=,
is_disjoint, len, clear) for a hash/equality pair drawn per program (identity or congruence
modulo 2/3; hash injective, mod 2, mod 3 or constant) and records the abstract finite map over
equivalence classes; all versions are read back at the end (persistence).  The bucket tables of
every version are validated by the TLA+ acceptor XrMapRepr (length exact, every key in the
bucket of its hash, keys pairwise inequivalent)."""
import json
import re

import coregen
import poolcheck
import vf

LEVEL = "model_checking"


def mk(eqm, hm):
    cls = "x" if eqm == 0 else "(x %% %d)" % eqm
    h = "(x: int) -> {%s %% %d}" % (cls, hm)
    e = "(a: int, b: int) -> {a == b}" if eqm == 0 else "(a: int, b: int) -> {a %% %d == b %% %d}" % (eqm, eqm)
    return h, e


def run(chk, tier, seed, name="c17"):
    n = 2000 if tier == "quick" else 8000
    if tier == "dev":
        n = 600
    r = vf.tlc("XrMap", "XrMap.cfg", name, simulate=n, depth=16, seed=seed, timeout=3000)
    cases = r.cases()
    if not cases or "Error:" in r.out:
        raise vf.ToolError("XrMap failed:\n" + r.out[-2500:])
    chk.add_tlc(r)
    jobs = []
    for i, c in enumerate(cases):
        h, e = mk(c["eqm"], c["hm"])
        lines = []
        for b in c["binds"]:
            t = b["term"]
            if t.get("k") == "raw" and t["src"] == "MK_MAP":
                lines.append("let %s: Mapping<int, int> = mapping(%s, %s);" % (b["n"], h, e))
            elif t.get("k") == "raw" and t["src"] == "MK_SET":
                lines.append("let %s = set(%s, %s);" % (b["n"], h, e))
            else:
                lines.append("let %s = %s;" % (b["n"], coregen.rexpr(t)))
        jobs.append({"id": "m%d" % i, "src": "\n".join(lines) + "\n", "observe": [b["n"] for b in c["binds"]],
                     "limits": {"calls": 500000}, "timeout_ms": 30000, "max_elems": 64})
    res = vf.run_jobs(jobs, name)
    chk.count(len(jobs))
    tables = []
    for j, c in zip(jobs, cases):
        o = res[j["id"]]
        oc = vf.job_outcome(o)
        chk.nontrivial(j["src"])
        if oc != "ok":
            chk.violation("mapping/set program: %s %s" % (oc, str(o.get("compile", {}).get("msg") or o.get("inst"))[:300]),
                          {"kind": "map", "source": j["src"], "observed": oc, "case": c})
            continue
        eqm = c["eqm"]
        cls = (lambda x: x) if eqm == 0 else (lambda x: x % eqm)
        for b in c["binds"]:
            d = o["values"].get(b["n"])
            exp = b["v"]
            good = True
            if exp["t"] == "absmap":
                if d.get("t") != "map":
                    good = False
                else:
                    got = sorted([cls(int(e["k"]["v"])), int(e["v"]["v"])] for e in d["entries"])
                    good = got == [list(p) for p in exp["v"]] and d["len"] == len(exp["v"])
                    tables.append({"ev": "Table", "eqm": eqm, "hm": c["hm"], "len": d["len"],
                                   "hs": [int(e["h"]) for e in d["entries"]], "ks": [int(e["k"]["v"]) for e in d["entries"]],
                                   "bn": [x["n"] for x in d["buckets"]], "_job": j["id"], "_bind": b["n"]})
            elif exp["t"] == "absset":
                if d.get("t") != "set":
                    good = False
                else:
                    got = sorted(cls(int(e["k"]["v"])) for e in d["entries"])
                    good = got == exp["v"] and d["len"] == len(exp["v"])
                    tables.append({"ev": "Table", "eqm": eqm, "hm": c["hm"], "len": d["len"],
                                   "hs": [int(e["h"]) for e in d["entries"]], "ks": [int(e["k"]["v"]) for e in d["entries"]],
                                   "bn": [x["n"] for x in d["buckets"]], "_job": j["id"], "_bind": b["n"]})
            elif exp["t"] in ("absbag", "absvals", "abspairs"):
                # iteration order is unspecified: compared as sorted classes / values / (class, value) pairs
                if d.get("t") != "seq" or d.get("len") is None:
                    good = False
                elif exp["t"] == "absbag":
                    good = sorted(cls(int(x["v"])) for x in d["v"]) == exp["v"]
                elif exp["t"] == "absvals":
                    good = sorted(int(x["v"]) for x in d["v"]) == exp["v"]
                else:
                    good = sorted([cls(int(x["v"][0]["v"])), int(x["v"][1]["v"])] for x in d["v"]) == [list(p) for p in exp["v"]]
            else:
                good = poolcheck.same_val(exp, poolcheck.norm(d))
            if not good:
                chk.violation("`let %s = %s;` (eq mod %d, hash mod %d): expected %s, observed %s" %
                              (b["n"], coregen.rexpr(b["term"]) if b["term"].get("k") != "raw" else b["term"]["src"], eqm, c["hm"],
                               json.dumps(exp)[:160], json.dumps(d)[:220]),
                              {"kind": "map", "source": j["src"], "binding": b["n"], "expected": exp, "observed": d, "case": c})
                break
    # representation invariants, decided by XrMapRepr
    for b in range(0, len(tables), 5000):
        chunk = tables[b:b + 5000]
        while chunk:
            d = vf.workdir("c17-repr")
            path = d + "/tables.ndjson"
            with open(path, "w") as f:
                for t in chunk:
                    f.write(json.dumps({k: v for k, v in t.items() if not k.startswith("_")}) + "\n")
            rr = vf.tlc("XrMapRepr", "XrMapRepr.cfg", "c17-repr-tlc", workers=1, env={"TRACE": path}, dfs=True)
            chk.add_tlc(rr)
            chk.cov["traces_validated_against_impl"] += 1
            if '"TRACE_ACCEPTED"' in rr.out:
                break
            m = re.search(r'<<"TRACE_REJECTED_AT", (\d+),', rr.out)
            if not m:
                raise vf.ToolError("XrMapRepr failed:\n" + rr.out[-2000:])
            k = int(m.group(1)) - 1
            t = chunk[k]
            src = [j["src"] for j in jobs if j["id"] == t["_job"]][0]
            chk.violation("bucket table of %s violates the representation invariant: %s" % (t["_bind"], json.dumps({k2: v for k2, v in t.items() if not k2.startswith("_")})),
                          {"kind": "map-repr", "source": src, "binding": t["_bind"], "table": t})
            chunk = chunk[k + 1:]
    chk.part("histories", programs=len(jobs), tables_validated=len(tables))
    chk.sample({"source": jobs[len(jobs) // 2]["src"][:900], "eq_mod": cases[len(jobs) // 2]["eqm"], "hash_mod": cases[len(jobs) // 2]["hm"]})
    chk.cov["rule"] = ("TLC -simulate walks of XrMap: 14 operations per history over keys 0..5, (hash, eq) drawn per program from "
                       "{identity, mod 2, mod 3} x {injective, mod 2, mod 3, constant}; every version read back at the end; "
                       "non-trivial = distinct rendered program")
    chk.assumptions += ["hashes outside [0, 2^64) are covered by C19/C17 templates only", "iteration order is not compared (entries are compared as sorted class/value pairs)"]


def replay(chk, path):
    rp = json.load(open(path))
    o = vf.run_jobs([{"id": "r", "src": rp["source"], "observe": [rp.get("binding", "m1")], "limits": {"calls": 500000}}], "replay")["r"]
    oc = vf.job_outcome(o)
    chk.count(1)
    chk.nontrivial("replay")
    chk.nontrivial(rp["source"])
    chk.sample({"source": rp["source"][:400], "outcome": oc, "value": o.get("values")})
    if oc != "ok" or ("observed" in rp and o["values"].get(rp["binding"]) == rp["observed"]):
        chk.violation("still deviates", rp)
    return chk.finish()
