SPECIFICATION Spec
CONSTANTS Kind = "set"
          Keys = {0, 1, 2}
          N = 5
          Eqm = 0
          Hm = 2
INVARIANT Emit
PROPERTY OnlyTheKeyChanges
CHECK_DEADLOCK FALSE
