SPECIFICATION Spec
CONSTANT Steps = 9
INVARIANT Emit
CHECK_DEADLOCK FALSE
