"""C15 - Sequences behave as lists whatever their representation.

Decided by XrSeq: TLC random-walks a pool machine in which every step applies one sequence
operation (len, get, take, skip, add, map, zip, push, rpush, insert, pop, set, swap, reverse,
repeat, mul, to_array, nth, take_while, skip_until, enumerate, count, contains, sort) to earlier
bindings - literal arrays, ranges of every sign, count(), empties and results of earlier
operations - with index arguments at -len-1, -len, -1, 0, len-1, len, len+1, and records the
result by plain list semantics (error value for out-of-range requests).  Every binding is read
back at the end of the program, operands included (persistence)."""
import poolcheck

LEVEL = "model_checking"


def run(chk, tier, seed):
    n = 4000 if tier == "quick" else 12000
    recs, sources = [], {}

    def post(j, c, o):
        sources[j["id"]] = j["src"]
        for name, d in (o.get("values") or {}).items():
            poolcheck.seq_records(d, recs, (j["id"], name))

    poolcheck.run_pool(chk, "XrSeq", "XrSeq.cfg", "c15", n, 14, seed, kind="sequence", post=post)
    # persistent stacks and their conversions to / from sequences (XrStack)
    poolcheck.run_pool(chk, "XrStack", "XrStack.cfg", "c15-stack", 600 if tier == "quick" else 3000, 14, seed, kind="stack", post=post)
    poolcheck.check_seq_reprs(chk, recs, sources, "c15-repr")
    chk.cov["rule"] = ("TLC -simulate walks of the XrSeq pool machine: 12 operations per program over earlier bindings; "
                       "non-trivial = distinct rendered program; every dumped sequence representation tree is accepted by XrSeqRepr; "
                       "XrStack walks (push, tail, head, len, to_array(_reversed), ==, hash, seq + stack, add_rev, to_stack)")
    chk.assumptions += ["infinite sequences are compared on their first 10 elements", "operations the documentation leaves "
                        "open (insert at len, to_array/reverse/negative index on infinite sequences) are not generated"]


def replay(chk, path):
    return poolcheck.replay_pool(chk, path)
