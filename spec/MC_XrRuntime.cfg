SPECIFICATION MCSpec
CONSTANTS MaxAcct = 3 MaxFrames = 2 MaxActs = 1 Wide = TRUE
INVARIANT RuntimeInv
PROPERTY DoomedIsAbsorbing
PROPERTY EffectOnlyWithPermission
PROPERTY AcctStepsAreAllocations
CONSTRAINT Bound
CHECK_DEADLOCK FALSE
