------------------------------ MODULE XrSyntax ------------------------------
(***************************************************************************)
(* Operator syntax of xray expressions (lang/functions.md "Operators",     *)
(* grammar rule `expression`): a flat chain  x1 o1 x2 o2 ... xn  groups by *)
(* six precedence levels, all left-associative except `**`; unary          *)
(* operators bind tighter than any binary operator; every operator is the  *)
(* named function it aliases.                                              *)
(* TLC enumerates all chains of 2 and 3 binary operators that are          *)
(* well-typed under the documented grouping and emits, for each, the value *)
(* the documented grouping denotes (XrEval.Prim); the harness renders the  *)
(* chain WITHOUT parentheses.                                              *)
(***************************************************************************)
EXTENDS XrEval, Bitwise, Json

\* operator -> [fn (aliased function), lvl (binding strength), right (assoc), cls]
OpTable ==
    [ pow    |-> [sym |-> "**", lvl |-> 6, right |-> TRUE,  cls |-> "arith"],
      mul    |-> [sym |-> "*",  lvl |-> 5, right |-> FALSE, cls |-> "arith"],
      mod    |-> [sym |-> "%",  lvl |-> 5, right |-> FALSE, cls |-> "arith"],
      add    |-> [sym |-> "+",  lvl |-> 4, right |-> FALSE, cls |-> "arith"],
      sub    |-> [sym |-> "-",  lvl |-> 4, right |-> FALSE, cls |-> "arith"],
      bit_or |-> [sym |-> "|",  lvl |-> 3, right |-> FALSE, cls |-> "bit"],
      bit_and |-> [sym |-> "&", lvl |-> 3, right |-> FALSE, cls |-> "bit"],
      bit_xor |-> [sym |-> "^", lvl |-> 3, right |-> FALSE, cls |-> "bit"],
      lt     |-> [sym |-> "<",  lvl |-> 2, right |-> FALSE, cls |-> "cmp"],
      gt     |-> [sym |-> ">",  lvl |-> 2, right |-> FALSE, cls |-> "cmp"],
      le     |-> [sym |-> "<=", lvl |-> 2, right |-> FALSE, cls |-> "cmp"],
      ge     |-> [sym |-> ">=", lvl |-> 2, right |-> FALSE, cls |-> "cmp"],
      eq     |-> [sym |-> "==", lvl |-> 2, right |-> FALSE, cls |-> "eq"],
      ne     |-> [sym |-> "!=", lvl |-> 2, right |-> FALSE, cls |-> "eq"],
      and    |-> [sym |-> "&&", lvl |-> 1, right |-> FALSE, cls |-> "logic"],
      or     |-> [sym |-> "||", lvl |-> 1, right |-> FALSE, cls |-> "logic"] ]
Ops == DOMAIN OpTable

\* the operator at which the chain  ops[lo..hi-1]  splits: weakest binding; among equals the
\* rightmost for left-associative levels, the leftmost for the right-associative one
SplitAt(ops, lo, hi) ==
    LET idx == lo..(hi - 1)
        minl == CHOOSE m \in {OpTable[ops[i]].lvl : i \in idx} :
                    \A i \in idx : OpTable[ops[i]].lvl >= m
        cand == {i \in idx : OpTable[ops[i]].lvl = minl}
        anyc == CHOOSE i \in cand : TRUE
    IN IF OpTable[ops[anyc]].right
         THEN CHOOSE i \in cand : \A j \in cand : i <= j
         ELSE CHOOSE i \in cand : \A j \in cand : i >= j

RECURSIVE ParseFlat(_, _, _)
ParseFlat(ops, lo, hi) ==
    IF lo = hi THEN [k |-> "leaf", i |-> lo]
    ELSE LET s == SplitAt(ops, lo, hi)
         IN [k |-> "node", op |-> ops[s], l |-> ParseFlat(ops, lo, s), r |-> ParseFlat(ops, s + 1, hi)]

ResT(op) == IF OpTable[op].cls \in {"arith", "bit"} THEN "int" ELSE "bool"
NodeT(tr) == IF tr.k = "leaf" THEN "any" ELSE ResT(tr.op)
ArgT(tr) ==
    CASE OpTable[tr.op].cls \in {"arith", "bit", "cmp"} -> "int"
      [] OpTable[tr.op].cls = "logic" -> "bool"
      [] OTHER -> IF NodeT(tr.l) # "any" THEN NodeT(tr.l)
                  ELSE IF NodeT(tr.r) # "any" THEN NodeT(tr.r) ELSE "int"

\* leaf types under the documented grouping, or "bad" somewhere if the grouping is ill-typed
RECURSIVE LeafTypes(_, _)
LeafTypes(tr, req) ==
    IF tr.k = "leaf" THEN [i \in {tr.i} |-> req]
    ELSE IF ResT(tr.op) # req THEN [i \in {0} |-> "bad"]
    ELSE LET a == LeafTypes(tr.l, ArgT(tr))  b == LeafTypes(tr.r, ArgT(tr))
         IN [i \in DOMAIN a \cup DOMAIN b |-> IF i \in DOMAIN a THEN a[i] ELSE b[i]]

IntLeaf == <<7, 2, 3, 2>>
BoolLeaf == <<TRUE, FALSE, TRUE, FALSE>>
LeafVal(i, ty, neg) ==
    IF ty = "int" THEN IntV(IF neg /\ i = 1 THEN -IntLeaf[i] ELSE IntLeaf[i])
    ELSE BoolV(IF neg /\ i = 1 THEN ~BoolLeaf[i] ELSE BoolLeaf[i])

BitPrim(f, a, b) == CASE f = "bit_or" -> IntV(a | b) [] f = "bit_and" -> IntV(a & b)
                      [] f = "bit_xor" -> IntV(a ^^ b)

RECURSIVE TreeVal(_, _, _)
TreeVal(tr, lt, neg) ==
    IF tr.k = "leaf" THEN LeafVal(tr.i, lt[tr.i], neg)
    ELSE LET a == TreeVal(tr.l, lt, neg)
         IN IF IsErr(a) \/ IsBig(a) THEN a
            ELSE IF tr.op = "and" /\ ~a.v THEN a         \* short-circuit
            ELSE IF tr.op = "or" /\ a.v THEN a
            ELSE LET b == TreeVal(tr.r, lt, neg)
                 IN IF IsErr(b) \/ IsBig(b) THEN b
                    ELSE IF tr.op \in {"and", "or"} THEN b
                    ELSE IF OpTable[tr.op].cls = "bit"
                      THEN IF a.v < 0 \/ b.v < 0 THEN BigV ELSE BitPrim(tr.op, a.v, b.v)
                    ELSE Prim(tr.op, <<a, b>>)

VARIABLES n, ops, neg
svars == <<n, ops, neg>>
CONSTANT MaxOps

Init == n \in 2..MaxOps /\ ops \in [1..n -> Ops] /\ neg \in BOOLEAN
Next == UNCHANGED svars

Case ==
    LET tr == ParseFlat(ops, 1, n + 1)
        req == ResT(tr.op)
        lt == LeafTypes(tr, req)
        ok == \A i \in DOMAIN lt : lt[i] # "bad"
        v == TreeVal(tr, lt, neg)
    IN ok /\ ~IsBig(v) =>
         PrintT(<<"CASE", ToJson([ops |-> [i \in 1..n |-> OpTable[ops[i]].sym],
                                  fns |-> ops,
                                  leaves |-> [i \in 1..(n + 1) |-> [ty |-> lt[i], v |-> LeafVal(i, lt[i], FALSE).v]],
                                  neg |-> neg, expect |-> Proj(v)])>>)

\* design check: the grouping is a function of the operator chain alone and covers every
\* operand exactly once, in order
RECURSIVE Leaves(_)
Leaves(tr) == IF tr.k = "leaf" THEN <<tr.i>> ELSE Leaves(tr.l) \o Leaves(tr.r)
GroupingIsOrderPreserving ==
    Leaves(ParseFlat(ops, 1, n + 1)) = [i \in 1..(n + 1) |-> i]
=============================================================================
