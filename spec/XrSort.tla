-------------------------------- MODULE XrSort --------------------------------
(***************************************************************************)
(* Sorting and order statistics (std/sequence.md sort, n_smallest,          *)
(* n_largest, nth_smallest, nth_largest, median): the result is the stable  *)
(* ordered permutation of the input under the comparator.  Inputs (keys     *)
(* with many ties; the payload is the input position, so stability is       *)
(* observable) come from the driver; TLC computes the reference.            *)
(*   env SORTIN = ndjson of {id, keys}                                      *)
(***************************************************************************)
EXTENDS Integers, Sequences, TLC, Json, IOUtils

In == ndJsonDeserialize(IOEnv.SORTIN)

RECURSIVE Merge(_, _), MSort(_)
\* stable merge sort on <<key, payload>> pairs, by key
Merge(xs, ys) == IF xs = <<>> THEN ys ELSE IF ys = <<>> THEN xs
                 ELSE IF ys[1][1] < xs[1][1] THEN <<ys[1]>> \o Merge(xs, Tail(ys)) ELSE <<xs[1]>> \o Merge(Tail(xs), ys)
MSort(xs) == IF Len(xs) <= 1 THEN xs
             ELSE LET h == Len(xs) \div 2 IN Merge(MSort(SubSeq(xs, 1, h)), MSort(SubSeq(xs, h + 1, Len(xs))))
Pairs(keys) == [i \in 1..Len(keys) |-> <<keys[i], i - 1>>]

VARIABLE i
Init == i = 1
Next == i <= Len(In) /\ i' = i + 1
Emit == i <= Len(In) =>
    LET s == MSort(Pairs(In[i].keys))
    IN /\ \A j \in 1..(Len(s) - 1) : s[j][1] < s[j + 1][1] \/ (s[j][1] = s[j + 1][1] /\ s[j][2] < s[j + 1][2])   \* ordered and stable
       /\ PrintT(<<"CASE", ToJson([id |-> In[i].id, sorted |-> s])>>)
=============================================================================
