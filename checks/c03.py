"""C03 - Lexical scoping, closures and one-time defaults.

Decided by XrEval (environments ARE lexical scoping: a closure keeps the environment of its
creation; defaults are evaluated once, at creation, in the defining scope; a recursion cell is
per frame) and XrScope (static forward-declaration rule), evaluated by TLC for scope-heavy
generated programs (nesting to depth 4, captures at any ancestor distance, shadowing chains at
top level and inside functions, escaping closures returned / stored / passed through builtins,
recursion through captured names, defaults with output), forward-declaration templates, and
identifier-injectivity programs (all pairs of a spelling pool incl. the item<N> family)."""
import itertools
import json

import coregen
import corecheck
import vf

LEVEL = "model_checking"
NOLIM = {"calls": -1, "depth": -1, "rec": -1, "search": -1}

V = lambda n: {"k": "var", "n": n}
I = lambda i: {"k": "lit", "ty": "int", "v": i}
C = lambda f, args, **kw: dict({"k": "call", "f": f, "args": args, "sty": "fn"}, **kw)
OP = lambda f, a, b: C(f, [a, b], sty="op")
P = lambda n, t: {"n": n, "ty": t, "hasdef": False}
LET = lambda n, e: {"k": "let", "n": n, "ty": "", "annot": False, "e": e}


def FN(name, ps, rty, ret, decls=None, **kw):
    d = {"k": "fn", "n": name, "ovl": False, "rty": rty, "ps": ps, "decls": decls or [], "ret": ret,
         "sigtxt": ",".join(p["ty"] for p in ps) + "->" + rty, "fulfils": -1}
    d.update(kw)
    return d


def FWD(name, ps, rty, fid):
    return {"k": "fwd", "n": name, "ps": ps, "rty": rty, "id": fid,
            "sigtxt": ",".join(p["ty"] for p in ps) + "->" + rty}


SPELLINGS = ["item0", "item00", "item01", "item1", "item1x", "item_1", "Item1", "_item1", "item10", "item",
             "x", "_", "__x", "x_", "letx", "fnx", "iff", "r", "f", "rx", "f0", "X", "xX", "a1", "a01"]


def identifier_programs():
    """all unordered pairs of the spelling pool: both bound in one scope, both read back, also
    from inside a function (captured) and as struct-free tuple members"""
    progs = []
    pairs = list(itertools.combinations(SPELLINGS, 2))
    B = 12
    for b in range(0, len(pairs), B):
        decls = []
        for k, (a, c) in enumerate(pairs[b:b + B]):
            # each pair lives in its own function scope so that pairs do not interfere
            body = [LET(a, I(1000 + k)), LET(c, I(2000 + k)),
                    FN("rd", [], "int", OP("sub", OP("mul", V(a), I(3)), V(c)))]
            decls.append(FN("p%d" % k, [], "(int, int, int)",
                            {"k": "tup", "items": [V(a), V(c), C("rd", [])]}, decls=body))
            decls.append(LET("v%d" % k, C("p%d" % k, [])))
        progs.append({"id": "ident%d" % b, "decls": decls, "calls": [], "lim": dict(NOLIM)})
    return progs


def forward_programs():
    ps1 = [P("n", "int")]
    f_def = FN("f", ps1, "int", OP("add", V("n"), I(1)), fulfils=1)
    g_def = FN("g", ps1, "int", OP("mul", C("f", [V("n")]), I(2)))
    h_def = FN("h", ps1, "int", OP("sub", C("g", [V("n")]), I(1)))
    fwd = FWD("f", ps1, "int", 1)
    even = FN("even", ps1, "bool", C("if", [OP("le", V("n"), I(0)), {"k": "lit", "ty": "bool", "v": True}, C("odd", [OP("sub", V("n"), I(1))])]))
    odd = FN("odd", ps1, "bool", C("if", [OP("le", V("n"), I(0)), {"k": "lit", "ty": "bool", "v": False}, C("even", [OP("sub", V("n"), I(1))])]), fulfils=2)
    progs = {
        "fw_ok": [fwd, g_def, f_def, LET("a", C("g", [I(2)]))],
        "fw_early_call": [fwd, g_def, LET("a", C("g", [I(2)])), f_def],
        "fw_direct_early": [fwd, LET("a", C("f", [I(2)])), f_def],
        "fw_direct_late": [fwd, f_def, LET("a", C("f", [I(2)]))],
        "fw_transitive_ok": [fwd, g_def, h_def, f_def, LET("a", C("h", [I(5)]))],
        "fw_transitive_early": [fwd, g_def, h_def, LET("a", C("h", [I(5)])), f_def],
        "fw_mutual": [FWD("odd", ps1, "bool", 2), even, odd, LET("a", C("even", [I(5)])), LET("b", C("odd", [I(5)]))],
        "fw_default_early": [fwd, g_def, FN("k", [{"n": "x", "ty": "int", "hasdef": True, "def": C("g", [I(1)])}], "int", V("x")), f_def],
        "fw_default_late": [fwd, g_def, f_def, FN("k", [{"n": "x", "ty": "int", "hasdef": True, "def": C("g", [I(1)])}], "int", V("x")), LET("a", C("k", []))],
        "fw_in_lambda_early": [fwd, LET("l", {"k": "lam", "ps": [P("q", "int")], "decls": [], "rty": "int", "ret": C("f", [V("q")])}), f_def,
                               LET("a", {"k": "callv", "fe": V("l"), "args": [I(3)]})],
        "fw_lambda_called_early": [fwd, LET("l", {"k": "lam", "ps": [P("q", "int")], "decls": [], "rty": "int", "ret": C("f", [V("q")])}),
                                   LET("a", {"k": "callv", "fe": V("l"), "args": [I(3)]}), f_def],
        "fw_alias_called_early": [fwd, g_def, LET("m", V("g")), LET("a", {"k": "callv", "fe": V("m"), "args": [I(3)]}), f_def],
        "fw_alias_called_late": [fwd, g_def, LET("m", V("g")), f_def, LET("a", {"k": "callv", "fe": V("m"), "args": [I(3)]})],
        # the forward is used two scopes below its declaration: the requirement travels up through the inner function
        "fw_nested_early": [fwd, FN("g", ps1, "int", C("bar", [V("n")]), decls=[FN("bar", [P("k", "int")], "int", OP("mul", C("f", [V("k")]), I(2)))]),
                            LET("a", C("g", [I(2)])), f_def],
        "fw_nested_late": [fwd, FN("g", ps1, "int", C("bar", [V("n")]), decls=[FN("bar", [P("k", "int")], "int", OP("mul", C("f", [V("k")]), I(2)))]),
                           f_def, LET("a", C("g", [I(2)]))],
        "fw_nested2_early": [fwd, FN("g", ps1, "int", C("mid", [V("n")]),
                                     decls=[FN("mid", [P("j", "int")], "int", C("bar", [V("j")]), decls=[FN("bar", [P("k", "int")], "int", C("f", [V("k")]))])]),
                             LET("a", C("g", [I(2)])), f_def],
        "fw_nested_guarded_early": [fwd, FN("g", ps1, "int", C("if", [OP("lt", V("n"), I(0)), C("bar", [V("n")]), I(3)]),
                                            decls=[FN("bar", [P("k", "int")], "int", C("f", [V("k")]))]),
                                    LET("a", C("g", [I(2)])), f_def],
        # a definition with the same parameters but another return type is a different function: it does not fulfil the forward
        "fw_wrong_return": [fwd, g_def, FN("f", ps1, "str", {"k": "lit", "ty": "str", "v": "s"}), LET("a", C("g", [I(2)]))],
        "fw_unrelated_between": [fwd, g_def, LET("z", I(7)), FN("u", ps1, "int", OP("add", V("n"), V("z"))), LET("y", C("u", [I(1)])), f_def, LET("a", C("g", [V("y")]))],
    }
    out = []
    for name, decls in progs.items():
        out.append({"id": name, "decls": decls, "calls": [], "lim": dict(NOLIM), "hasfwd": True})
    return out


def forward_family():
    """a forward function used 1-4 function levels below its declaration, from a function declared BEFORE the
    implementation and called after it; decoy functions of the same signature and extra locals at the
    intermediate levels shift every cell index; the forward lives at top level or inside a function.
    All variants are valid programs: the values follow from lexical scoping alone."""
    out = []
    ps1 = [P("i", "int")]
    n = 0
    for where in ("top", "fn"):
        for depth in (1, 2, 3, 4):
            for mask in range(2 ** depth):
                for late_decl in (False, True):
                    if late_decl and mask not in (0, 2 ** depth - 1):
                        continue
                    n += 1
                    fid = 100 + n
                    # innermost level first
                    names = ["a%d" % k for k in range(1, depth + 1)]
                    body = None
                    for lvl in range(depth, 0, -1):
                        arg = V("x%d" % lvl)
                        decls = []
                        if mask & (1 << (lvl - 1)):
                            decls.append(LET("pad%d" % lvl, I(lvl)))
                            decls.append(FN("decoy%d" % lvl, ps1, "int", OP("sub", V("i"), I(1000 * lvl))))
                        if lvl == depth:
                            ret = OP("add", C("h", [arg]), I(1))
                        else:
                            decls.append(body)
                            ret = OP("add", C(names[lvl], [arg]), I(10 ** lvl))
                        if mask & (1 << (lvl - 1)):
                            ret = OP("add", ret, OP("mul", C("decoy%d" % lvl, [I(0)]), I(0)))
                        body = FN(names[lvl - 1], [P("x%d" % lvl, "int")], "int", ret, decls=decls)
                    h_def = FN("h", ps1, "int", OP("mul", V("i"), I(2)), fulfils=fid)
                    fwd = FWD("h", ps1, "int", fid)
                    pre = [LET("p1", I(1)), LET("p2", I(2))]
                    core = pre + ([fwd, h_def, body] if late_decl else [fwd, body, h_def])
                    if where == "top":
                        decls = core + [LET("r0", C("a1", [I(1)])), LET("r1", C("a1", [I(20)]))]
                    else:
                        m = FN("m", [], "(int, int)", {"k": "tup", "items": [C("a1", [I(1)]), C("a1", [I(20)])]}, decls=core)
                        decls = [m, LET("r0", C("m", []))]
                    out.append({"id": "fwfam%d" % n, "decls": decls, "calls": [], "lim": dict(NOLIM), "hasfwd": True})
    return out


def scoping_templates():
    """hand-written shapes the random generator reaches only rarely"""
    out = []
    # later shadowing never changes the meaning of an earlier use; capture at distance 1..4
    d4 = FN("l4", [], "int", OP("add", OP("add", V("a"), V("b")), OP("add", V("c"), V("d"))))
    d3 = FN("l3", [], "int", C("l4", []), decls=[LET("d", I(4)), d4])
    d2 = FN("l2", [], "int", C("l3", []), decls=[LET("c", I(30)), d3])
    d1 = FN("l1", [], "int", C("l2", []), decls=[LET("b", I(200)), d2])
    out.append([LET("a", I(1000)), d1, LET("r0", C("l1", [])), LET("a", I(5000)), LET("r1", C("l1", [])),
                LET("b", I(7)), LET("r2", C("l1", []))])
    # a closure keeps its creation scope wherever it is called; each call creates a fresh one
    mk = FN("mk", [P("k", "int")], "(int)->(int)", V("addk"),
            decls=[LET("base", OP("mul", V("k"), I(10))), FN("addk", [P("x", "int")], "int", OP("add", V("x"), V("base")))])
    out.append([mk, LET("f1", C("mk", [I(1)])), LET("f2", C("mk", [I(2)])),
                LET("t", {"k": "tup", "items": [V("f1"), V("f2")]}),
                LET("r0", {"k": "callv", "fe": {"k": "member", "e": V("t"), "idx": 0, "name": "item0"}, "args": [I(5)]}),
                LET("r1", {"k": "callv", "fe": {"k": "member", "e": V("t"), "idx": 1, "name": "item1"}, "args": [I(5)]}),
                LET("r2", C("map_arr", [{"k": "arr", "items": [I(1), I(2), I(3)]}, V("f2")])),
                LET("k", I(99)), LET("base", I(77)), LET("r3", {"k": "callv", "fe": V("f1"), "args": [I(0)]})])
    # defaults: evaluated exactly once, at creation, in the defining scope, before any body output
    D = lambda e: C("display", [e])
    dfn = FN("d", [{"n": "x", "ty": "int", "hasdef": True, "def": D(OP("add", V("seed"), I(1)))}], "int", D(OP("mul", V("x"), I(2))))
    out.append([LET("seed", I(10)), dfn, LET("seed", I(500)), LET("r0", C("d", [])), LET("r1", C("d", [])), LET("r2", C("d", [I(3)]))])
    # a default in a nested function is re-evaluated per creation of that function (per outer call)
    inner = FN("inn", [{"n": "y", "ty": "int", "hasdef": True, "def": D(OP("add", V("p"), I(100)))}], "int", V("y"))
    outer = FN("out", [P("p", "int")], "int", OP("add", C("inn", []), C("inn", [])), decls=[inner])
    out.append([outer, LET("r0", C("out", [I(1)])), LET("r1", C("out", [I(2)]))])
    # recursion through a captured name, and an inner function shadowing an outer one
    fact = FN("fact", [P("n", "int")], "int", C("if", [OP("le", V("n"), I(1)), I(1), OP("mul", V("n"), C("fact", [OP("sub", V("n"), I(1))]))]))
    wrap = FN("w", [P("n", "int")], "int", C("go", [V("n")]), decls=[FN("go", [P("m", "int")], "int", OP("add", C("fact", [V("m")]), V("n")))])
    out.append([fact, wrap, LET("r0", C("w", [I(5)])),
                FN("sh", [P("n", "int")], "int", C("fact2", [V("n")]), decls=[FN("fact2", [P("q", "int")], "int", OP("sub", I(0), V("q")))]),
                LET("r1", C("sh", [I(4)])), LET("r2", C("fact", [I(4)]))])
    # an outer callable VARIABLE is used as a value, then shadowed by a local function of the same name, then the name
    # is used as a value again (and called): every use denotes the nearest preceding declaration
    lam1 = {"k": "lam", "ps": [P("v", "int")], "decls": [], "rty": "int", "ret": OP("add", V("v"), I(1))}
    CV = lambda f, a: {"k": "callv", "fe": f, "args": [a]}
    for use_before, use_mid in ((True, True), (True, False), (False, True)):
        inner = []
        if use_before:
            inner.append(LET("before", V("step")))
        inner.append(FN("step", [P("v", "int")], "int", OP("mul", V("v"), I(100))))
        inner.append(LET("after", V("step")))
        if use_mid:
            inner.append(LET("mapped", C("map_arr", [{"k": "arr", "items": [I(1), I(2)]}, V("step")])))
        # the results travel as a tuple (XrEval leaves products with an operand above 46340 open)
        items = [CV(V("after"), V("k")), C("step", [V("k")])]
        if use_before:
            items.append(CV(V("before"), V("k")))
        if use_mid:
            items.append(C("get", [V("mapped"), I(1)]))
        ret = {"k": "tup", "items": items}
        rty = "(" + ", ".join(["int"] * len(items)) + ")"
        out.append([LET("step", lam1), LET("r_outer", CV(V("step"), I(5))), FN("scale", [P("k", "int")], rty, ret, decls=inner),
                    LET("r0", C("scale", [I(2)])), LET("r1", CV(V("step"), I(7)))])
        # the same one function level down (the outer value is a local of an enclosing function, not a global)
        twice = FN("twice", [P("k", "int")], "int", CV(V("f"), CV(V("g"), V("k"))), decls=[LET("f", V("step")), LET("g", V("step"))])
        out.append([FN("m", [], "(int, %s)" % rty, {"k": "tup", "items": [C("twice", [I(1)]), C("scale", [I(2)])]},
                       decls=[LET("step", lam1), FN("scale", [P("k", "int")], rty, ret, decls=inner), twice]),
                    LET("r0", C("m", []))])
    # the same with a let shadowing a captured outer function value, and a parameter shadowing it one level further in
    out.append([FN("base", [P("v", "int")], "int", OP("add", V("v"), I(1))),
                FN("scale", [P("k", "int")], "int", OP("add", OP("mul", CV(V("f0"), V("k")), I(1000)), CV(V("f1"), V("k"))),
                   decls=[LET("f0", V("base")), LET("base", {"k": "lam", "ps": [P("v", "int")], "decls": [], "rty": "int", "ret": OP("mul", V("v"), I(7))}),
                          LET("f1", V("base"))]),
                LET("r0", C("scale", [I(3)])), LET("r1", C("base", [I(3)]))])
    return [{"id": "scope%d" % i, "decls": d, "calls": [], "lim": dict(NOLIM)} for i, d in enumerate(out)]


def run(chk, tier, seed):
    n = 500 if tier == "quick" else 6000
    progs = [coregen.Gen(seed * 211 + i, max_depth=3, n_decls=8, scope_heavy=True, p_disp=0.25, p_err=0.03).program("s%d" % i)
             for i in range(n)]
    progs += [coregen.Gen(seed * 223 + i, max_depth=4, n_decls=(14 if tier == "quick" else 30), scope_heavy=True, p_disp=0.15,
                          p_err=0.02).program("t%d" % i) for i in range(n // 10)]
    progs += scoping_templates() + forward_programs() + forward_family() + identifier_programs()
    for b in range(0, len(progs), 1500):
        corecheck.run_core(chk, progs[b:b + 1500], "c03-%d" % b,
                           classify=lambda p, diffs: "core:" + p["id"] if p["id"].startswith("fw_") else None)
    chk.cov["rule"] = ("scope-heavy random programs (nested functions to depth 4, shadowing of top-level and local "
                       "bindings, closures returned / stored in tuples / passed to map, defaults with output, recursion), "
                       "hand-written shapes (capture distance 1-4 with later shadowing, per-call closures, one-time and "
                       "per-creation defaults, recursion through captures), 20 forward-declaration orders, a family of forward uses 1-4 levels deep with decoys, at top level and inside a function, all %d pairs of "
                       "a %d-spelling identifier pool; non-trivial = distinct rendered program" %
                       (len(SPELLINGS) * (len(SPELLINGS) - 1) // 2, len(SPELLINGS)))


def replay(chk, path):
    return corecheck.replay_core(chk, path)
