------------------------------ MODULE XrMapRepr ------------------------------
(***************************************************************************)
(* Representation invariant of Mapping / Set values, checked on every      *)
(* bucket table the interpreter produced (hook verif_dump): the stored     *)
(* length equals the number of entries and the sum of the bucket sizes,    *)
(* every key sits in the bucket of its own hash, and the keys are pairwise *)
(* inequivalent under the collection's equality.                           *)
(*   env TRACE = ndjson of {ev:"Table", eqm, hm, len, hs, ks, bn}          *)
(***************************************************************************)
EXTENDS Naturals, Sequences, FiniteSets, TLC, Json, IOUtils

Rec == ndJsonDeserialize(IOEnv.TRACE)
VARIABLE l

RECURSIVE Sum(_, _)
Sum(xs, i) == IF i > Len(xs) THEN 0 ELSE xs[i] + Sum(xs, i + 1)
Class(x, eqm) == IF eqm = 0 THEN x ELSE x % eqm
Hash(x, eqm, hm) == Class(x, eqm) % hm

TableOK(e) ==
    /\ e.len = Len(e.ks)                                           \* stored length is exact
    /\ e.len = Sum(e.bn, 1)
    /\ \A i \in 1..Len(e.ks) : e.hs[i] = Hash(e.ks[i], e.eqm, e.hm)  \* right bucket
    /\ \A i, j \in 1..Len(e.ks) : i # j => Class(e.ks[i], e.eqm) # Class(e.ks[j], e.eqm)

Init == l = 1
Next == l <= Len(Rec) /\ Rec[l].ev = "Table" /\ TableOK(Rec[l]) /\ l' = l + 1
Spec == Init /\ [][Next]_l
Accepted ==
    LET d == TLCGet("stats").diameter
    IN IF d - 1 = Len(Rec) THEN PrintT(<<"TRACE_ACCEPTED", Len(Rec)>>)
       ELSE PrintT(<<"TRACE_REJECTED_AT", d, ToJson(Rec[d])>>) /\ FALSE
=============================================================================
