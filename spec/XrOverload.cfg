INIT OInit
NEXT ONext
CONSTANTS MaxCands = 2 Levels = FALSE
INVARIANT Emit
INVARIANT AlphaInvariant
INVARIANT NonMatchingIrrelevant
INVARIANT LevelIrrelevant
CHECK_DEADLOCK FALSE
