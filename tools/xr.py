#!/usr/bin/env python3
"""development helper: run an xray snippet through the harness and print the observed bindings
   tools/xr.py 'let a = 1 + 2;' a [b ...]     (source may also come from a file path)"""
import json
import os
import re
import sys
ROOT = os.path.dirname(os.path.dirname(os.path.abspath(__file__)))
sys.path.insert(0, os.path.join(ROOT, "lib"))
import vf  # noqa

src = sys.argv[1]
if os.path.exists(src):
    src = open(src).read()
vf.build()
names = sys.argv[2:] or re.findall(r"(?m)^\s*let\s+([A-Za-z_][A-Za-z_0-9]*)", src)
o = vf.run_jobs([{"id": "x", "src": src, "observe": names, "limits": {"calls": 10 ** 6, "search": 10 ** 5}, "timeout_ms": 20000, "perms": {"regex": True}}], "xr%d" % os.getpid())["x"]
print("outcome:", vf.job_outcome(o))
if vf.job_outcome(o) != "ok":
    print(json.dumps({k: v for k, v in o.items() if k in ("compile", "inst", "crash", "timeout")}, ensure_ascii=False)[:1500])
for n in names:
    v = (o.get("values") or {}).get(n)
    print(n, "=", json.dumps(v, ensure_ascii=False)[:600])
if o.get("stdout"):
    print("stdout:", o["stdout"][:500])
