------------------------------- MODULE XrBound -------------------------------
(***************************************************************************)
(* C10 - limits bound all work.  A pipeline is  source . adaptor* . sink.  *)
(* A stream denotes a finite or infinite list; the model keeps the first   *)
(* H elements and a flag `inf` (more pulls are possible forever - either   *)
(* more elements or an endless search that yields none).  The sink's       *)
(* demand decides the verdict:                                             *)
(*    value v   - the demand is met inside the stream: evaluation must     *)
(*                finish with exactly v, under any limits that are not     *)
(*                tighter than the demand;                                 *)
(*    error     - the demand cannot be met by a finite stream (last of an  *)
(*                empty stream, index out of range);                       *)
(*    diverge   - the demand needs unboundedly many pulls: with the search  *)
(*                and call limits configured evaluation must STOP with a   *)
(*                violation (or an error value); it may neither return a   *)
(*                value nor keep running.                                  *)
(* Every stream here is eventually periodic with a small threshold, so the *)
(* verdict computed with horizon H is exact when it agrees with the        *)
(* verdict computed with horizon 2H; cases where they differ are dropped.  *)
(* TLC enumerates all pipelines up to MaxAdaptors (one state per case).    *)
(***************************************************************************)
EXTENDS Integers, Sequences, FiniteSets, TLC, Json, SequencesExt

CONSTANT MaxAdaptors

\* ---- elements: ints, or sequences of ints after chunks / windows / group -----------------
Lt3(x) == x < 3
Even(x) == x % 2 = 0
Pos(x) == x > 0
Pred(p, x) == CASE p = "lt3" -> Lt3(x) [] p = "even" -> Even(x) [] p = "pos" -> Pos(x)
PredSrc(p) == CASE p = "lt3" -> "(x: int) -> {x < 3}" [] p = "even" -> "(x: int) -> {x % 2 == 0}" [] p = "pos" -> "(x: int) -> {x > 0}"
Preds == {"lt3", "even", "pos"}

Mn(a, b) == IF a < b THEN a ELSE b

\* ---- sources -------------------------------------------------------------------------------
Sources == {"arr", "empty", "count", "succ", "const", "cycle", "rep_empty", "rep3", "range", "obs"}
SrcText(s) ==
    CASE s = "arr" -> "[3, 1, 2].to_generator()"
      [] s = "empty" -> "range(1, 1).to_generator()"
      [] s = "count" -> "count().to_generator()"
      [] s = "succ" -> "successors(1, (x: int) -> {x + 2})"
      [] s = "const" -> "successors(7, (x: int) -> {x})"
      [] s = "cycle" -> "repeat([1, 2].to_generator())"
      [] s = "rep_empty" -> "repeat(range(1, 1).to_generator())"
      [] s = "rep3" -> "repeat([1, 2].to_generator(), 3)"
      [] s = "range" -> "range(6).to_generator()"
      [] s = "obs" -> "successors(0, (x: int) -> {display(x) + 1})"     \* every pull beyond the first prints: pulls are observable
SrcBase(s, H) ==
    CASE s = "arr" -> [pre |-> <<3, 1, 2>>, inf |-> FALSE, ety |-> "int"]
      [] s = "empty" -> [pre |-> <<>>, inf |-> FALSE, ety |-> "int"]
      [] s = "count" -> [pre |-> [i \in 1..H |-> i - 1], inf |-> TRUE, ety |-> "int"]
      [] s = "succ" -> [pre |-> [i \in 1..H |-> 2 * i - 1], inf |-> TRUE, ety |-> "int"]
      [] s = "const" -> [pre |-> [i \in 1..H |-> 7], inf |-> TRUE, ety |-> "int"]
      [] s = "cycle" -> [pre |-> [i \in 1..H |-> 2 - (i % 2)], inf |-> TRUE, ety |-> "int"]
      [] s = "rep_empty" -> [pre |-> <<>>, inf |-> FALSE, ety |-> "int"]     \* repeating nothing yields nothing, and ends
      [] s = "rep3" -> [pre |-> <<1, 2, 1, 2, 1, 2>>, inf |-> FALSE, ety |-> "int"]
      [] s = "range" -> [pre |-> <<0, 1, 2, 3, 4, 5>>, inf |-> FALSE, ety |-> "int"]
      [] s = "obs" -> [pre |-> [i \in 1..H |-> i - 1], inf |-> TRUE, ety |-> "int"]
\* provenance: prov[i] = number of source elements that must have been pulled to produce element i;
\* endp = number pulled when the end of the stream is learnt (finite streams only)
Src(s, H) == LET b == SrcBase(s, H)
             IN [pre |-> b.pre, inf |-> b.inf, ety |-> b.ety, prov |-> [i \in 1..Len(b.pre) |-> i],
                 endp |-> IF b.inf THEN -1 ELSE Len(b.pre), reiter |-> FALSE]

\* ---- adaptors ------------------------------------------------------------------------------
RECURSIVE TakeWhileN(_, _, _), SkipUntilN(_, _, _), Sums(_, _, _), Groups(_, _), Distinct(_, _), Cycle(_, _)
TakeWhileN(p, xs, i) == IF i > Len(xs) \/ ~Pred(p, xs[i]) THEN i - 1 ELSE TakeWhileN(p, xs, i + 1)
SkipUntilN(p, xs, i) == IF i > Len(xs) \/ Pred(p, xs[i]) THEN i - 1 ELSE SkipUntilN(p, xs, i + 1)
Sums(xs, i, acc) == IF i > Len(xs) THEN <<>> ELSE <<acc + xs[i]>> \o Sums(xs, i + 1, acc + xs[i])
Groups(xs, cur) ==
    IF xs = <<>> THEN (IF cur = <<>> THEN <<>> ELSE <<cur>>)
    ELSE IF cur = <<>> \/ cur[1] = Head(xs) THEN Groups(Tail(xs), Append(cur, Head(xs)))
    ELSE <<cur>> \o Groups(Tail(xs), <<Head(xs)>>)
Distinct(xs, seen) == IF xs = <<>> THEN <<>>
                      ELSE IF Head(xs) \in seen THEN Distinct(Tail(xs), seen)
                      ELSE <<Head(xs)>> \o Distinct(Tail(xs), seen \cup {Head(xs)})
Cycle(xs, n) == IF n <= 0 THEN <<>> ELSE IF n <= Len(xs) THEN SubSeq(xs, 1, n) ELSE xs \o Cycle(xs, n - Len(xs))
Windows(xs, w) == IF Len(xs) < w THEN <<>> ELSE [i \in 1..(Len(xs) - w + 1) |-> SubSeq(xs, i, i + w - 1)]
ChunksAll(xs, c) == [i \in 1..((Len(xs) + c - 1) \div c) |-> SubSeq(xs, (i - 1) * c + 1, Mn(i * c, Len(xs)))]
ChunksFull(xs, c) == [i \in 1..(Len(xs) \div c) |-> SubSeq(xs, (i - 1) * c + 1, i * c)]
DropLast(xs) == IF xs = <<>> THEN <<>> ELSE SubSeq(xs, 1, Len(xs) - 1)

\* an adaptor is [op, p, k]  (p: predicate name or "", k: int parameter or 0)
A(op, p, k) == [op |-> op, p |-> p, k |-> k]
IntAdaptors ==
    {A("map", "", 0)} \cup {A("filter", p, 0) : p \in Preds}
    \cup {A("take_while", p, 0) : p \in {"lt3", "pos"}} \cup {A("skip_until", p, 0) : p \in {"even", "lt3"}}
    \cup {A("distinct", "", 0), A("group", "", 0), A("aggregate", "", 0), A("addR", "", 0), A("addL", "", 0)}
AnyAdaptors ==
    {A("take", "", k) : k \in {0, 2, 5}} \cup {A("skip", "", k) : k \in {1, 3}}
    \cup {A("repeat", "", 0), A("repeat_n", "", 2), A("chunks", "", 2), A("windows", "", 2)}
Adaptors == IntAdaptors \cup AnyAdaptors
Applicable(ad, s) == ad \in AnyAdaptors \/ s.ety = "int"

AdText(ad) ==
    CASE ad.op = "map" -> ".map((x: int) -> {x + 1})"
      [] ad.op \in {"filter", "take_while", "skip_until"} -> "." \o ad.op \o "(" \o PredSrc(ad.p) \o ")"
      [] ad.op \in {"take", "skip", "chunks", "windows"} -> "." \o ad.op \o "(" \o ToString(ad.k) \o ")"
      [] ad.op = "repeat" -> ".repeat()"
      [] ad.op = "repeat_n" -> ".repeat(" \o ToString(ad.k) \o ")"
      [] ad.op = "distinct" -> ".distinct()"
      [] ad.op = "group" -> ".group()"
      [] ad.op = "aggregate" -> ".aggregate((a: int, b: int) -> {a + b})"
      [] ad.op = "addR" -> ".add([9].to_generator())"
      [] ad.op = "addL" -> ""        \* rendered as a prefix, see Text

Apply(ad, s, H) ==
    LET xs == s.pre IN
    CASE ad.op = "map" -> [s EXCEPT !.pre = [i \in 1..Len(xs) |-> xs[i] + 1]]
      [] ad.op = "filter" -> [s EXCEPT !.pre = SelectSeq(xs, LAMBDA x : Pred(ad.p, x))]
      [] ad.op = "take_while" ->
            LET n == TakeWhileN(ad.p, xs, 1) IN
            IF n < Len(xs) THEN [s EXCEPT !.pre = SubSeq(xs, 1, n), !.inf = FALSE]    \* a failing element ends the stream
            ELSE s
      [] ad.op = "skip_until" ->
            LET n == SkipUntilN(ad.p, xs, 1) IN [s EXCEPT !.pre = SubSeq(xs, n + 1, Len(xs))]
      [] ad.op = "take" -> IF ad.k <= Len(xs) THEN [s EXCEPT !.pre = SubSeq(xs, 1, ad.k), !.inf = FALSE] ELSE s
      [] ad.op = "skip" -> [s EXCEPT !.pre = SubSeq(xs, Mn(ad.k, Len(xs)) + 1, Len(xs))]
      [] ad.op = "repeat" -> IF s.inf THEN s
                             ELSE IF xs = <<>> THEN s                                     \* nothing to repeat: the empty stream
                             ELSE [s EXCEPT !.pre = Cycle(xs, H), !.inf = TRUE]
      [] ad.op = "repeat_n" -> IF s.inf THEN s ELSE [s EXCEPT !.pre = xs \o xs]
      [] ad.op = "chunks" -> [s EXCEPT !.pre = IF s.inf THEN ChunksFull(xs, ad.k) ELSE ChunksAll(xs, ad.k), !.ety = "seq"]
      [] ad.op = "windows" -> [s EXCEPT !.pre = Windows(xs, ad.k), !.ety = "seq"]
      [] ad.op = "distinct" -> [s EXCEPT !.pre = Distinct(xs, {})]
      [] ad.op = "group" -> [s EXCEPT !.pre = IF s.inf THEN DropLast(Groups(xs, <<>>)) ELSE Groups(xs, <<>>), !.ety = "seq"]
      [] ad.op = "aggregate" -> [s EXCEPT !.pre = Sums(xs, 1, 0)]
      [] ad.op = "addR" -> IF s.inf THEN s ELSE [s EXCEPT !.pre = xs \o <<9>>]
      [] ad.op = "addL" -> [s EXCEPT !.pre = <<9>> \o xs]

\* ---- provenance of each adaptor (C16: only the needed prefix of the source is evaluated) ----------
RECURSIVE Passing(_, _, _), FirstOcc(_, _, _), GroupEnds(_, _)
Passing(p, xs, i) == IF i > Len(xs) THEN <<>> ELSE (IF Pred(p, xs[i]) THEN <<i>> ELSE <<>>) \o Passing(p, xs, i + 1)
FirstOcc(xs, i, seen) == IF i > Len(xs) THEN <<>>
                         ELSE IF xs[i] \in seen THEN FirstOcc(xs, i + 1, seen)
                         ELSE <<i>> \o FirstOcc(xs, i + 1, seen \cup {xs[i]})
\* position (in xs) of the element that closes each maximal run: the first element of the next run,
\* Len(xs) + 1 (= the end of the stream) for the last run
GroupEnds(xs, i) == IF i > Len(xs) THEN <<>>
                    ELSE IF i = Len(xs) \/ xs[i + 1] # xs[i] THEN <<i + 1>> \o GroupEnds(xs, i + 1)
                    ELSE GroupEnds(xs, i + 1)
\* idx: for each output element the position in the input stream it needs (0 = none, Len + 1 = its end)
At(s, j) == IF j = 0 THEN 0 ELSE IF j > Len(s.prov) THEN s.endp ELSE s.prov[j]
Through(s, idx, endp) == [prov |-> [i \in 1..Len(idx) |-> At(s, idx[i])], endp |-> endp]
Iota(a, b) == [i \in 1..(IF b >= a THEN b - a + 1 ELSE 0) |-> a + i - 1]
ApplyProv(ad, s, H) ==
    LET xs == s.pre  n == Len(xs) IN
    CASE ad.op \in {"map", "aggregate"} -> Through(s, Iota(1, n), s.endp)
      [] ad.op = "filter" -> Through(s, Passing(ad.p, xs, 1), s.endp)
      [] ad.op = "take_while" ->
            LET m == TakeWhileN(ad.p, xs, 1) IN
            IF m < n THEN Through(s, Iota(1, m), s.prov[m + 1])       \* the failing element is pulled, then the stream ends
            ELSE Through(s, Iota(1, n), s.endp)
      [] ad.op = "skip_until" -> Through(s, Iota(SkipUntilN(ad.p, xs, 1) + 1, n), s.endp)
      [] ad.op = "take" -> IF ad.k <= n THEN Through(s, Iota(1, ad.k), IF ad.k = 0 THEN 0 ELSE s.prov[ad.k])
                           ELSE Through(s, Iota(1, n), s.endp)
      [] ad.op = "skip" -> Through(s, Iota(Mn(ad.k, n) + 1, n), s.endp)
      [] ad.op = "repeat" -> IF s.inf \/ xs = <<>> THEN Through(s, Iota(1, n), s.endp)
                             ELSE [prov |-> Cycle(s.prov, H), endp |-> -1]
      [] ad.op = "repeat_n" -> IF s.inf THEN Through(s, Iota(1, n), s.endp) ELSE [prov |-> s.prov \o s.prov, endp |-> s.endp]
      [] ad.op = "chunks" -> LET c == IF s.inf THEN n \div ad.k ELSE (n + ad.k - 1) \div ad.k
                             IN Through(s, [i \in 1..c |-> Mn(i * ad.k, n)], s.endp)
      [] ad.op = "windows" -> Through(s, [i \in 1..(IF n < ad.k THEN 0 ELSE n - ad.k + 1) |-> i + ad.k - 1], s.endp)
      [] ad.op = "distinct" -> Through(s, FirstOcc(xs, 1, {}), s.endp)
      [] ad.op = "group" -> LET e == GroupEnds(xs, 1) IN Through(s, IF s.inf THEN DropLast(e) ELSE e, s.endp)
      [] ad.op = "addR" -> IF s.inf THEN Through(s, Iota(1, n), s.endp) ELSE Through(s, Append(Iota(1, n), n + 1), s.endp)
      [] ad.op = "addL" -> Through(s, <<0>> \o Iota(1, n), s.endp)
\* repeating a finite stream iterates its source again (a generator is re-evaluated by every consumption):
\* the number of evaluations is then not "the needed prefix", and the model makes no claim about it
Step(ad, s, H) == LET t == Apply(ad, s, H)  p == ApplyProv(ad, s, H)
                  IN [t EXCEPT !.prov = p.prov, !.endp = p.endp,
                               !.reiter = s.reiter \/ (ad.op \in {"repeat", "repeat_n"} /\ ~s.inf /\ s.pre # <<>>)]

\* ---- sinks ---------------------------------------------------------------------------------
IntSinks == {"sum", "first_even", "any_lt3", "all_pos", "count_even", "reduce", "nth1_even", "contains2"}
AnySinks == {"to_array", "len", "last", "get0", "get4", "take3"}
Sinks == IntSinks \cup AnySinks
SinkText(k) ==
    CASE k = "to_array" -> ".to_array()" [] k = "len" -> ".len()" [] k = "sum" -> ".sum()" [] k = "last" -> ".last()"
      [] k = "get0" -> ".get(0)" [] k = "get4" -> ".get(4)" [] k = "take3" -> ".take(3).to_array()"
      [] k = "first_even" -> ".first((x: int) -> {x % 2 == 0})" [] k = "any_lt3" -> ".any((x: int) -> {x < 3})"
      [] k = "all_pos" -> ".all((x: int) -> {x > 0})" [] k = "count_even" -> ".count((x: int) -> {x % 2 == 0})"
      [] k = "reduce" -> ".reduce((a: int, b: int) -> {a + b})" [] k = "nth1_even" -> ".nth(1, (x: int) -> {x % 2 == 0})"
      [] k = "contains2" -> ".contains(2)"

RECURSIVE SumAll(_, _)
SumAll(xs, i) == IF i > Len(xs) THEN 0 ELSE xs[i] + SumAll(xs, i + 1)
Diverge == [v |-> "diverge"]
Err == [v |-> "error"]
Val(x) == [v |-> "value", x |-> x]
Some(x) == [some |-> TRUE, x |-> x]
None == [some |-> FALSE]

Verdict(k, s) ==
    LET xs == s.pre  n == Len(xs) IN
    CASE k = "to_array" -> IF s.inf THEN Diverge ELSE Val(xs)
      [] k = "len" -> IF s.inf THEN Diverge ELSE Val(n)
      [] k = "sum" -> IF s.inf THEN Diverge ELSE Val(SumAll(xs, 1))
      [] k = "last" -> IF s.inf THEN Diverge ELSE IF n = 0 THEN Err ELSE Val(xs[n])
      [] k = "reduce" -> IF s.inf THEN Diverge ELSE IF n = 0 THEN Err ELSE Val(SumAll(xs, 1))
      [] k = "count_even" -> IF s.inf THEN Diverge ELSE Val(Len(SelectSeq(xs, Even)))
      [] k = "get0" -> IF n >= 1 THEN Val(xs[1]) ELSE IF s.inf THEN Diverge ELSE Err
      [] k = "get4" -> IF n >= 5 THEN Val(xs[5]) ELSE IF s.inf THEN Diverge ELSE Err
      [] k = "take3" -> IF n >= 3 THEN Val(SubSeq(xs, 1, 3)) ELSE IF s.inf THEN Diverge ELSE Val(xs)
      [] k = "first_even" -> LET m == SelectSeq(xs, Even) IN
                             IF m # <<>> THEN Val(Some(m[1])) ELSE IF s.inf THEN Diverge ELSE Val(None)
      [] k = "nth1_even" -> LET m == SelectSeq(xs, Even) IN
                            IF Len(m) >= 2 THEN Val(Some(m[2])) ELSE IF s.inf THEN Diverge ELSE Val(None)
      [] k = "any_lt3" -> IF \E i \in 1..n : Lt3(xs[i]) THEN Val(TRUE) ELSE IF s.inf THEN Diverge ELSE Val(FALSE)
      [] k = "contains2" -> IF \E i \in 1..n : xs[i] = 2 THEN Val(TRUE) ELSE IF s.inf THEN Diverge ELSE Val(FALSE)
      [] k = "all_pos" -> IF \E i \in 1..n : ~Pos(xs[i]) THEN Val(FALSE) ELSE IF s.inf THEN Diverge ELSE Val(TRUE)

\* source pulls the demand needs (meaningful when the verdict is a value or an error)
FirstIdx(xs, P(_)) == IF \E i \in 1..Len(xs) : P(xs[i]) THEN CHOOSE i \in 1..Len(xs) : P(xs[i]) /\ \A j \in 1..(i - 1) : ~P(xs[j]) ELSE 0
Need(k, s) ==
    LET xs == s.pre  n == Len(xs) IN
    CASE k \in {"to_array", "len", "sum", "last", "reduce", "count_even"} -> s.endp
      [] k = "get0" -> IF n >= 1 THEN s.prov[1] ELSE s.endp
      [] k = "get4" -> IF n >= 5 THEN s.prov[5] ELSE s.endp
      [] k = "take3" -> IF n >= 3 THEN s.prov[3] ELSE s.endp
      [] k = "first_even" -> LET i == FirstIdx(xs, Even) IN IF i > 0 THEN s.prov[i] ELSE s.endp
      [] k = "nth1_even" -> LET m == Passing("even", xs, 1) IN IF Len(m) >= 2 THEN s.prov[m[2]] ELSE s.endp
      [] k = "any_lt3" -> LET i == FirstIdx(xs, Lt3) IN IF i > 0 THEN s.prov[i] ELSE s.endp
      [] k = "contains2" -> LET i == FirstIdx(xs, LAMBDA x : x = 2) IN IF i > 0 THEN s.prov[i] ELSE s.endp
      [] k = "all_pos" -> LET i == FirstIdx(xs, LAMBDA x : ~Pos(x)) IN IF i > 0 THEN s.prov[i] ELSE s.endp
\* look-ahead an adaptor may legitimately take beyond what was asked of it (a constant per adaptor)
RECURSIVE Slack(_, _)
Slack(ads, i) == IF i > Len(ads) THEN 0
                 ELSE (IF ads[i].op \in {"chunks", "windows"} THEN ads[i].k + 1 ELSE 1) + Slack(ads, i + 1)

\* ---- a case ---------------------------------------------------------------------------------
RECURSIVE Run(_, _, _, _)
Run(s, ads, i, H) == IF i > Len(ads) THEN s ELSE Run(Step(ads[i], s, H), ads, i + 1, H)
RECURSIVE WellTyped(_, _, _)
WellTyped(s, ads, i) == i > Len(ads) \/ (Applicable(ads[i], s) /\ WellTyped(Step(ads[i], s, 8), ads, i + 1))

RECURSIVE TextOf(_, _, _)
TextOf(t, ads, i) ==
    IF i > Len(ads) THEN t
    ELSE TextOf(IF ads[i].op = "addL" THEN "([9].to_generator() + " \o t \o ")" ELSE t \o AdText(ads[i]), ads, i + 1)

VARIABLES src, ads, sink
vars == <<src, ads, sink>>

AdSeqs == UNION {[1..n -> Adaptors] : n \in 0..MaxAdaptors}
Init == /\ src \in Sources
        /\ ads \in AdSeqs
        /\ sink \in Sinks
        /\ WellTyped(Src(src, 8), ads, 1)
        /\ (sink \in IntSinks => Run(Src(src, 8), ads, 1, 8).ety = "int")
Next == UNCHANGED vars

H1 == 96
H2 == 192
Emit ==
    LET v1 == Verdict(sink, Run(Src(src, H1), ads, 1, H1))
        v2 == Verdict(sink, Run(Src(src, H2), ads, 1, H2))
        t == TextOf(SrcText(src), ads, 1) \o SinkText(sink)
        s1 == Run(Src(src, H1), ads, 1, H1)
        s2 == Run(Src(src, H2), ads, 1, H2)
        need == IF v1.v = "diverge" \/ s1.reiter THEN -1 ELSE Need(sink, s1)
    IN (v1 = v2 /\ (need # -1 => Need(sink, s2) = need)) =>
          PrintT(<<"CASE", ToJson([src |-> t, verdict |-> v1, n |-> Len(ads), sink |-> sink, source |-> src,
                                   need |-> need, slack |-> Slack(ads, 1) + 1])>>)

\* the model's own sanity: a finite stream never diverges, a diverging verdict needs an infinite stream
ProvAligned == LET s == Run(Src(src, H1), ads, 1, H1) IN Len(s.prov) = Len(s.pre)
FiniteNeverDiverges ==
    LET s == Run(Src(src, H1), ads, 1, H1) IN (~s.inf) => Verdict(sink, s).v # "diverge"
=============================================================================
