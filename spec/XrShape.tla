------------------------------- MODULE XrShape -------------------------------
(***************************************************************************)
(* Type soundness as a trace property: every value the interpreter         *)
(* produced (top-level bindings, host-call results) is recorded together   *)
(* with the static type the compiler assigned to the expression, and must  *)
(* satisfy XrTypeAlg.HasShape.  One event per (type, value) pair; a value  *)
(* that does not have the shape of its type, a panic, a crash or a hang is *)
(* an event without an action.                                             *)
(*   env TRACE = ndjson of {ev: "Value", t: type, v: value dump}           *)
(***************************************************************************)
EXTENDS XrTypeAlg, IOUtils

Rec == ndJsonDeserialize(IOEnv.TRACE)
VARIABLE l
Init == l = 1
Next == /\ l <= Len(Rec)
        /\ Rec[l].ev = "Value"
        /\ HasShape(Rec[l].v, Rec[l].t)
        /\ l' = l + 1
Spec == Init /\ [][Next]_l

Accepted ==
    LET d == TLCGet("stats").diameter
    IN IF d - 1 = Len(Rec) THEN PrintT(<<"TRACE_ACCEPTED", Len(Rec)>>)
       ELSE PrintT(<<"TRACE_REJECTED_AT", d, ToJson(Rec[d])>>) /\ FALSE
=============================================================================
