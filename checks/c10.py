"""C10 - Limits bound all work: no unbounded native loop.

Decided by XrBound (TLC enumerates every source . adaptor* . sink pipeline over finite, infinite
and never-yielding streams and classifies the sink's demand as value / error / diverge) replayed
under configured search + call + size limits at two scales with a watchdog: every evaluation must
stop, a diverging demand may only stop with a violation or an error value.  The same watchdog
sweep feeds an infinite / huge sequence or generator, and huge integers, into every root-scope
signature.  The time-limit clause is decided by XrRuntime (trace validation: after the deadline
has passed no user call begins)."""
import json
import random
import re

import surface
import vf

LEVEL = "model_checking"

SCALES = [{"search": 300, "calls": 3000, "size": 30000000, "depth": 300, "recursion": 400},
          {"search": 3000, "calls": 30000, "size": 60000000, "depth": 300, "recursion": 400}]
# the property's premise is "search limit and call limit configured": the same inputs also run without a size limit
SCALE_B = {"search": 300, "calls": 3000, "depth": 300, "recursion": 400}
WATCHDOG_MS = 12000


def pyval(d):
    t = d.get("t")
    if t == "int":
        return int(d["v"])
    if t == "bool":
        return d["v"]
    if t == "seq":
        return [pyval(x) for x in d["v"]]
    if t == "opt":
        return {"some": False} if d["v"] is None else {"some": True, "x": pyval(d["v"])}
    if t == "err":
        return "error"
    return {"t": t}


def terminated(oc):
    return oc not in ("timeout", "crash", "missing")


def pipelines(chk, tier, seed, rnd):
    r = vf.tlc("XrBound", "XrBound_quick.cfg" if tier == "quick" else "XrBound.cfg", "c10-bound", workers=8, timeout=3000, xmx="8g")
    if not r.ok:
        raise vf.ToolError("XrBound failed:\n" + r.out[-2500:])
    chk.add_tlc(r)
    cases = r.cases()
    if tier == "quick":
        # all pipelines with <= 1 adaptor, diverging ones first; a rotating sample keeps the tier fast
        div = [c for c in cases if c["verdict"]["v"] == "diverge"]
        oth = [c for c in cases if c["verdict"]["v"] != "diverge"]
        cases = div + rnd.sample(oth, min(len(oth), 600))
    else:
        div = [c for c in cases if c["verdict"]["v"] == "diverge"]
        oth = [c for c in cases if c["verdict"]["v"] != "diverge"]
        cases = rnd.sample(div, min(len(div), 9000)) + rnd.sample(oth, min(len(oth), 9000))
    jobs, meta = [], {}
    batch = []

    def flush():
        if batch:
            src = "".join("let v%d = %s;\n" % (i, c["src"]) for i, c in enumerate(batch))
            j = {"id": "pv%d" % len(jobs), "src": src, "observe": ["v%d" % i for i in range(len(batch))], "limits": SCALES[1], "timeout_ms": WATCHDOG_MS, "max_elems": 64}
            jobs.append(j)
            meta[j["id"]] = list(batch)
            del batch[:]
    for c in cases:
        if c["verdict"]["v"] == "diverge":
            lims = list(SCALES if tier == "thorough" or len(jobs) % 4 == 0 else SCALES[:1])
            if tier == "thorough" or len(jobs) % 3 == 0:
                lims.append(SCALE_B)
            for si, lim in enumerate(lims):
                j = {"id": "pd%d_%d" % (len(jobs), si), "src": "let v0 = %s;\n" % c["src"], "observe": ["v0"], "limits": lim, "timeout_ms": WATCHDOG_MS, "max_elems": 64}
                jobs.append(j)
                meta[j["id"]] = [c]
        else:
            batch.append(c)
            if len(batch) >= 40:
                flush()
    flush()
    res = vf.run_jobs(jobs, "c10-pipe", timeout_ms=WATCHDOG_MS)
    # batches that did not finish cleanly are split
    solo = []
    for j in list(jobs):
        if j["id"].startswith("pv") and vf.job_outcome(res[j["id"]]) != "ok":
            for i, c in enumerate(meta[j["id"]]):
                s = {"id": "%s_%d" % (j["id"], i), "src": "let v0 = %s;\n" % c["src"], "observe": ["v0"], "limits": SCALES[1], "timeout_ms": WATCHDOG_MS, "max_elems": 64}
                solo.append(s)
                meta[s["id"]] = [c]
    res.update(vf.run_jobs(solo, "c10-pipe-solo", timeout_ms=WATCHDOG_MS))
    stats = {"diverge_stopped_by_violation": 0, "diverge_error_value": 0, "diverge_returned_value": 0, "value_confirmed": 0, "value_disagrees": 0,
             "value_stopped_by_limit": 0, "error_confirmed": 0, "panics": 0}
    disagreements = []
    for j in jobs + solo:
        o = res[j["id"]]
        oc = vf.job_outcome(o)
        cs = meta[j["id"]]
        if j["id"].startswith("pv") and "_" not in j["id"] and oc != "ok":
            continue            # replaced by its solo jobs
        for i, c in enumerate(cs):
            chk.count(1)
            chk.nontrivial(c["src"] + json.dumps(j["limits"], sort_keys=True))
            want = c["verdict"]["v"]
            if not terminated(oc):
                chk.violation("%s did not stop under limits %s (%s; the model says: %s)" % (c["src"], json.dumps(j["limits"]), oc, want),
                              {"kind": "pipeline", "source": "let v0 = %s;\n" % c["src"], "limits": j["limits"], "verdict": c["verdict"]},
                              finding_key="hang:" + hang_key(c["src"]))
                continue
            if oc.endswith("panic"):
                stats["panics"] += 1
                continue
            if oc != "ok":
                stats["diverge_stopped_by_violation" if want == "diverge" else "value_stopped_by_limit"] += 1
                continue
            got = pyval(o["values"]["v%d" % i])
            if want == "diverge":
                stats["diverge_error_value" if got == "error" else "diverge_returned_value"] += 1
                if got != "error":
                    disagreements.append({"src": c["src"], "model": "diverge", "observed": got})
            elif want == "error":
                if got == "error":
                    stats["error_confirmed"] += 1
                else:
                    stats["value_disagrees"] += 1
                    disagreements.append({"src": c["src"], "model": "error", "observed": got})
            else:
                if got == c["verdict"]["x"]:
                    stats["value_confirmed"] += 1
                else:
                    stats["value_disagrees"] += 1
                    disagreements.append({"src": c["src"], "model": c["verdict"]["x"], "observed": got})
    chk.part("pipelines", cases=len(cases), jobs=len(jobs) + len(solo), **stats)
    if disagreements:
        # not a C10 violation (the evaluation stopped); reported so that the model / C16 can be looked at
        chk.cov["model_value_disagreements"] = disagreements[:20]
        vf.log("   note: %d pipeline results differ from the model's value (evaluation did stop)" % len(disagreements))
    chk.sample({"pipeline": cases[len(cases) // 2]})


def hang_key(src):
    """the builtins of a pipeline, without arguments"""
    return ".".join(re.findall(r"\.([a-z_]+)\(|^([a-z_]+)\(", src) and [a or b for a, b in re.findall(r"\.([a-z_]+)\(|^\(?\[?([a-z_]+)\(", src)])


INF = {"int": "count()", "str": "count().map((x: int) -> {x.to_str()})", "float": "count().map((x: int) -> {x.to_float()})", "bool": "count().map((x: int) -> {x % 2 == 0})",
       "(int, int)": "count().map((x: int) -> {(x, x)})", "(float, float)": "count().map((x: int) -> {(x.to_float(), 1.5)})", "Sequence<int>": "count().map((x: int) -> {[x]})",
       "(int, float)": "count().map((x: int) -> {(x, 0.5)})", "(str, int)": "count().map((x: int) -> {(x.to_str(), x)})", "(int, str)": "count().map((x: int) -> {(x, x.to_str())})"}
HUGE = {"int": "range(10**15)", "str": "range(10**15).map((x: int) -> {x.to_str()})", "float": "range(10**15).map((x: int) -> {x.to_float()})",
        "bool": "range(10**15).map((x: int) -> {x % 2 == 0})", "(int, int)": "range(10**15).map((x: int) -> {(x, x)})"}
BIG_INTS = ["(10**15)", "(2**64 + 1)", "(-(10**15))", "(10**6)"]


def surface_sweep(tier, rnd):
    out = []
    for sig in surface.static_signatures():
        name = sig["name"]
        if name.startswith("__") or name in surface.SKIP or name in ("now",):
            continue
        for gt in ([surface.INT] if tier == "quick" else [surface.INT, surface.STR]):
            try:
                pts, _ = surface.instantiate(sig, gt)
                canon = [surface.inhabitants(p)[0] for p in pts]
            except surface.NoInhabitant:
                continue
            nreq = sum(1 for _, r in sig["params"] if r)
            for k in sorted({nreq, len(pts)}):
                for i in range(k):
                    p = pts[i]
                    alts = []
                    n = surface.render_type(p)
                    if p.kind == "app" and p.name in ("Sequence", "Generator") and len(p.args) == 1:
                        et = surface.render_type(p.args[0])
                        for pool in (INF, HUGE):
                            if et in pool:
                                alts.append(pool[et] + (".to_generator()" if p.name == "Generator" else ""))
                    elif n == "int":
                        alts += BIG_INTS if tier == "thorough" else BIG_INTS[:3]
                    elif n == "str":
                        alts += ['("ab" * 10**7)'] if tier == "thorough" else []
                    for a in alts:
                        v = list(canon[:k])
                        v[i] = a
                        out.append((sig["text"], "%s(%s)" % (name, ", ".join(v))))
    seen, res = set(), []
    for t, e in out:
        if e not in seen:
            seen.add(e)
            res.append((t, e))
    return res


NUMERIC = [
    "digits(10**400, 2).len()", "digits(2**100000, 10).len()", "digits(10**15, 2).len()", "binom(10**9, 5 * 10**8)", "binom(10**18, 3)", "binom(10**6, 500000)",
    "multinom([10**6, 10**6])", "multinom(range(2000).to_array())", "multinom([290] * 10**7)", "multinom(([7, 250] * 10**7).to_array())", "factorial(10**7)", "factorial(10**9)", "2 ** (2**40)", "3 ** (10**12)", "(10**400) ** (10**6)",
    "(-2) ** (2**33)", "pow(fraction(2, 3), 10**9)", "range(10**18).len()", "range(10**18).to_array().len()", "range(10**12).sum()", "range(10**9).map((x: int) -> {x + 1}).to_array().len()",
    "range(10**9).filter((x: int) -> {x < 0}).to_array()", "range(10**12).to_generator().filter((x: int) -> {x < 0}).len()", "count().len()", "count().to_array()", "count().last()",
    "count().reverse().get(0)", "count().sort().get(0)", "count().sum()", "count().to_generator().sum()", "count().map((x: int) -> {x * 2}).to_array()", "count().contains(-1)",
    "count().index_of(-1)", "count().any((x: int) -> {x < 0})", "count().all((x: int) -> {x >= 0})", "count().first((x: int) -> {x < 0})", "count().count((x: int) -> {x < 0})",
    "count().to_set().len()", "set<int>().update(count().to_generator()).len()", "mapping<int>().update(count().to_generator().map((x: int) -> {(x, x)})).len()",
    "mapping<int>().update_counter(count().to_generator()).len()", '("ab" * 10**12).len()', "([1] * 10**12).len()", "([1, 2] * 10**12).to_array().len()", '"a".join(count().map((x: int) -> {x.to_str()}))',
    'format(1, "1000000000000")', 'format(1.5, ".1000000000")', "gcd(10**100000, 3)", "floor_root(10**100000, 3)", "floor_root(5, 10**18)", "successors(1, (x: int) -> {x * 2}).take(10**6).last()",
"successors(1, (x: int) -> {x}).skip(10**15).get(0)", "count().to_generator().skip(10**15).get(0)",
    "count().to_generator().windows(10**9).get(0)", "count().to_generator().chunks(10**9).get(0)", "count().to_generator().group().get(0)", "successors(1, (x: int) -> {x}).group().get(0)",
    "successors(1, (x: int) -> {x}).distinct().get(1)", "count().to_generator().with_count().last()", "repeat(range(1, 1).to_generator()).get(0)", "repeat(range(1, 1).to_generator()).len()",
    "repeat([1].to_generator()).len()", "repeat([1].to_generator(), 10**15).len()", "flatten(count().to_generator().map((x: int) -> {range(1, 1).to_generator()})).get(0)",
    "flatten(count().map((x: int) -> {range(1, 1).to_generator()})).get(0)", "(count().to_generator() + count().to_generator()).len()", "count().to_generator().enumerate().last()",
    "combinations(range(40).to_array(), 20).len()", "combinations(range(40).to_array(), 20).to_array().len()", "permutations(range(12).to_array()).to_array().len()", "permutation(10**15, 3, 2)",
    "combination(10**15, 10**9, 10**6)", "range(10**6).to_array().product(range(10**6).to_array()).len()", "successors_until(0, (x: int) -> {some(x + 1)}).last()",
    "successors_until(0, (x: int) -> {some(x)}).len()", "range(10**15).zip(range(10**15)).to_array()", "count().zip(count()).last()", "count().take_while((x: int) -> {true}).len()",
    "count().skip_until((x: int) -> {false}).get(0)", "count().nth(3, (x: int) -> {x < 0})", "count().n_smallest(3)", "count().n_largest(3)", "count().median()", "count().mean()",
    "count().min()", "count().max()", "count().binary_search((x: int) -> {-1})", "count().bisect((x: int) -> {true})", "count().rpush(1).last()", "count().insert(10**15, 3).get(10**15)",
    "count().to_stack().len()", "count().sample(3)", "count().shuffle().get(0)", "count().random_choices(10**12).len()", "count().to_str()", "count().hash()", "count() == count()",
    "cmp(count(), count())", "count().to_generator().to_str()", "display(count())",
    "is_close(1.0, 1.0)", '"ab".repeat(10**12)', '("a" * 10**6).split("a").len()', '("a" * 3 * 10**6).replace("a", "bb").len()', '("a" * 10**6).to_upper().len()',
]


def degenerate():
    """adaptors with zero / negative / huge parameters on sources that never end: windows that never fill, chunks of
    nothing, negative counts"""
    out = []
    srcs = ["count().to_generator()", "[7].to_generator().repeat()", "successors(1, (x: int) -> {x})", "count()", "range(10**15)"]
    ads = ["windows(0)", "windows(-1)", "windows(2000000)", "chunks(0)", "chunks(-1)", "chunks(2000000)", "take(-1)", "skip(-1)", "skip(2000000)",
           "take(2000000)", "repeat(0)", "repeat(-1)", "enumerate(0, 0)", "enumerate(0, -1)", "nth(-1, (x: int) -> {true})", "nth(2000000, (x: int) -> {true})",
           "get(-1)", "get(2000000)"]
    for a in srcs:
        for b in ads:
            tail = "" if b.startswith(("nth", "get")) else ".take(1).to_array().len()"
            out.append("%s.%s%s" % (a, b, tail))
            if not tail == "":
                out.append("%s.%s.get(0)" % (a, b))
    return out


SMALL_INTS = ["0", "1", "(-1)", "(-1234)", "2"]


def small_int_sweep(tier):
    """every int parameter of every root-scope signature set to 0, +-1, a negative number: loops whose bound is such an argument"""
    out = []
    for sig in surface.static_signatures():
        name = sig["name"]
        if name.startswith("__") or name in surface.SKIP or name in ("now",):
            continue
        try:
            pts, _ = surface.instantiate(sig)
            canon = [surface.inhabitants(p)[0] for p in pts]
        except surface.NoInhabitant:
            continue
        nreq = sum(1 for _, r in sig["params"] if r)
        for k in sorted({nreq, len(pts)}):
            for i in range(k):
                if surface.render_type(pts[i]) != "int":
                    continue
                for a in SMALL_INTS:
                    v = list(canon[:k])
                    v[i] = a
                    out.append((sig["text"], "%s(%s)" % (name, ", ".join(v))))
    return list(dict.fromkeys(out))


def sweep(chk, tier, seed, rnd):
    cases = [("numeric/adversarial", e) for e in NUMERIC] + surface_sweep(tier, rnd)
    extra_b = [("degenerate", e) for e in degenerate()] + small_int_sweep(tier)
    cases += [("degenerate", e) for e in degenerate()]
    jobs, meta = [], {}
    prelude = "fn spin(n: int)->int { if(n < 0, 0, spin(n + 1)) }\nfn deep(n: int)->int { if(n < 0, 0, 1 + deep(n + 1)) }\nfn ping(n: int)->int { pong(n + 1) }\nfn pong(n: int)->int { ping(n + 1) }\n"
    cases += [("recursion", "spin(0)"), ("recursion", "deep(0)"), ("recursion", "ping(0)"), ("recursion", "count().map(spin).get(3)"),
              ("recursion", "count().to_generator().map((x: int) -> {spin(x)}).take(2).to_array()")]
    for i, (label, e) in enumerate(cases):
        for si, lim in enumerate(SCALES if (tier == "thorough" or label != "numeric/adversarial" and False) else SCALES[:1]):
            j = {"id": "w%d_%d" % (i, si), "src": (prelude if label == "recursion" else "") + "let v0 = %s;\n" % e, "observe": ["v0"], "limits": lim, "timeout_ms": WATCHDOG_MS, "max_elems": 4,
                 "perms": {"regex": True}}
            jobs.append(j)
            meta[j["id"]] = (label, e)
    # without a size limit (fewer workers: a runaway allocation is stopped by the watchdog, not by a limit)
    for i, (label, e) in enumerate(extra_b):
        j = {"id": "b%d" % i, "src": "let v0 = %s;\n" % e, "observe": ["v0"], "limits": SCALE_B, "timeout_ms": WATCHDOG_MS, "max_elems": 4, "perms": {"regex": True}}
        jobs.append(j)
        meta[j["id"]] = (label, e)
    res = vf.run_jobs([j for j in jobs if not j["id"].startswith("b")], "c10-sweep", timeout_ms=WATCHDOG_MS)
    res.update(vf.run_jobs([j for j in jobs if j["id"].startswith("b")], "c10-sweep-b", threads=6, timeout_ms=WATCHDOG_MS))
    stats = {"stopped_ok": 0, "stopped_violation": 0, "rejected_by_compiler": 0, "panics": 0}
    slow = []
    for j in jobs:
        o = res[j["id"]]
        oc = vf.job_outcome(o)
        label, e = meta[j["id"]]
        if oc == "compile_err":
            stats["rejected_by_compiler"] += 1
            continue
        chk.count(1)
        chk.nontrivial(e + json.dumps(j["limits"], sort_keys=True))
        if not terminated(oc):
            chk.violation("%s: %s did not stop under limits %s (%s)" % (label, e, json.dumps(j["limits"]), oc), {"kind": "sweep", "source": j["src"], "limits": j["limits"]},
                          finding_key="hang:" + (label.split("(")[0] if label not in ("numeric/adversarial", "recursion", "degenerate") else e))
            continue
        if oc.endswith("panic"):
            stats["panics"] += 1
        elif oc == "ok":
            stats["stopped_ok"] += 1
        else:
            stats["stopped_violation"] += 1
        if o.get("wall_ms", 0) > 5000:
            slow.append({"expr": e, "wall_ms": o.get("wall_ms"), "outcome": oc})
    chk.part("sweep", cases=len(cases), without_size_limit=len(extra_b), **stats)
    if slow:
        chk.cov["slow_but_bounded"] = slow[:20]
    chk.sample({"sweep": cases[len(cases) // 2][1]})


TIME_PROGS = [
    ("sleep_then_call", "fn f(x: int)->int { x + 1 }\nlet a = sleep(seconds(0.06), 1);\nlet b = f(a);\nlet c = f(b);\n"),
    ("sleep_in_callback", "fn f(x: int)->int { sleep(seconds(0.03), x) }\nlet a = range(6).map(f).to_array();\n"),
    ("spin", "fn spin(n: int)->int { if(n < 0, 0, spin(n + 1)) }\nlet a = spin(0);\n"),
    ("sleep_then_lambda", "let g = (x: int) -> {x * 2};\nlet a = sleep(seconds(0.06), 3);\nlet b = [1, 2, 3].map(g).to_array();\n"),
    ("sleep_then_tail", "fn t(n: int, acc: int)->int { if(n == 0, acc, t(n - 1, acc + n)) }\nlet a = sleep(seconds(0.06), 5);\nlet b = t(a, 0);\n"),
    ("deadline_far", "fn f(x: int)->int { x + 1 }\nlet a = f(1);\nlet b = f(a);\n"),
]


def time_limit(chk, tier, seed):
    jobs = []
    for name, src in TIME_PROGS:
        for ms in ([30] if name != "deadline_far" else [60000]) + ([10, 45] if tier == "thorough" and name != "deadline_far" else []):
            lim = {"time_ms": ms}
            if name == "spin":
                lim["calls"] = 4000           # keeps the recorded trace short; whichever limit trips first
            jobs.append({"id": "t_%s_%d" % (name, ms), "src": src, "observe": [], "limits": lim, "perms": {"sleep": True}, "trace": True, "timeout_ms": WATCHDOG_MS})
    res = vf.run_jobs(jobs, "c10-time", timeout_ms=WATCHDOG_MS)
    outcomes = {}
    for j in jobs:
        o = res[j["id"]]
        oc = vf.job_outcome(o)
        outcomes[j["id"]] = oc
        chk.count(1)
        chk.nontrivial(j["id"])
        if not terminated(oc):
            chk.violation("time-limited program %s did not stop (%s)" % (j["id"], oc), {"kind": "sweep", "source": j["src"], "limits": j["limits"], "perms": j["perms"]}, finding_key="hang:" + j["id"])
        elif j["id"].startswith("t_sleep_then") and oc == "ok":
            # the deadline (30 ms) passed during the 60 ms sleep: the next user call may not begin
            chk.violation("%s: a user call began after the time limit had elapsed (outcome ok)" % j["id"], {"kind": "trace", "job": j, "spec": "Trace_XrRuntime"}, finding_key="time:" + j["id"])
    n = vf.validate_job_traces(chk, jobs, res, "c10-time", what="time-limit trace")
    chk.part("time_limit", programs=len(jobs), traces_accepted=n, outcomes=outcomes)


def run(chk, tier, seed):
    rnd = random.Random(seed)
    pipelines(chk, tier, seed, rnd)
    sweep(chk, tier, seed, rnd)
    time_limit(chk, tier, seed)
    chk.cov["rule"] = ("XrBound: all pipelines source(9: finite, empty, infinite, constant, cyclic, never-yielding) x <= %s adaptors (22) x sinks (14), diverging demands at two limit "
                       "scales; every root-scope signature with an infinite (count()) or huge (range(10^15)) sequence/generator or a huge integer in each parameter; ~120 numeric / "
                       "collection adversarial expressions; recursion shapes; time-limited programs with a sleep across the deadline; watchdog %d s; non-trivial = distinct "
                       "(expression, limits)" % ("1 (sampled values)" if tier == "quick" else "2", WATCHDOG_MS // 1000))
    chk.assumptions += ["termination is observed with a wall-clock watchdog of %d s for limits of a few thousand steps / 30-60 MB" % (WATCHDOG_MS // 1000),
                        "a diverging demand that returns a value, or a value that differs from the model's, is reported in the evidence (model_value_disagreements) but is not a C10 violation",
                        "search permits are not instrumented; the search limit is exercised through outcomes only"]


def replay(chk, path):
    rp = json.load(open(path))
    if rp.get("kind") == "trace":
        return vf.replay_trace_job(chk, rp)
    lim = rp.get("limits") or SCALES[0]
    o = vf.run_jobs([{"id": "r", "src": rp["source"], "observe": ["v0"], "limits": lim, "perms": rp.get("perms") or {"regex": True}, "timeout_ms": WATCHDOG_MS, "max_elems": 4}], "replay",
                    timeout_ms=WATCHDOG_MS)["r"]
    oc = vf.job_outcome(o)
    chk.count(1)
    chk.nontrivial("replay")
    chk.nontrivial(rp["source"])
    chk.sample({"source": rp["source"][:300], "outcome": oc, "wall_ms": o.get("wall_ms")})
    if not terminated(oc):
        chk.violation("still does not stop: " + oc, rp)
    return chk.finish()
