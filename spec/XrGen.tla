-------------------------------- MODULE XrGen --------------------------------
(***************************************************************************)
(* M5 (generators): a generator denotes a fixed, possibly infinite stream  *)
(* (std/generator.md).  Pool machine as in XrSeq: each step applies one    *)
(* generator operation to earlier generator bindings and records the       *)
(* stream by list semantics; at the end every generator is consumed TWICE  *)
(* (to_array, or take(6).to_array() when infinite) - both consumptions     *)
(* must give the recorded elements (re-iterability), and consuming a       *)
(* finite prefix of an infinite pipeline must terminate (laziness).        *)
(* Walked with `tlc -simulate`.                                            *)
(***************************************************************************)
EXTENDS XrEval, Json, SequencesExt

CONSTANT Steps
PL == 60

Fns == <<"inc", "dbl", "neg">>
ApplyFn(f, x) == CASE f = "inc" -> IntV(x.v + 1) [] f = "dbl" -> IntV(x.v * 2) [] f = "neg" -> IntV(-x.v)
Preds == <<"lt3", "even", "pos">>
ApplyPred(p, x) == CASE p = "lt3" -> x.v < 3 [] p = "even" -> x.v % 2 = 0 [] p = "pos" -> x.v > 0

RECURSIVE Filter(_, _, _), TakeWhile(_, _, _), SkipUntil(_, _, _), Sums(_, _, _), Groups(_, _), Distinct(_, _),
          WithCount(_, _, _), Repeat(_, _), SumAll(_, _)
Filter(p, xs, i) == IF i > Len(xs) THEN <<>>
                    ELSE (IF ApplyPred(p, xs[i]) THEN <<xs[i]>> ELSE <<>>) \o Filter(p, xs, i + 1)
TakeWhile(p, xs, i) == IF i > Len(xs) \/ ~ApplyPred(p, xs[i]) THEN i - 1 ELSE TakeWhile(p, xs, i + 1)
SkipUntil(p, xs, i) == IF i > Len(xs) \/ ApplyPred(p, xs[i]) THEN i - 1 ELSE SkipUntil(p, xs, i + 1)
\* aggregate(g, (a, b) -> a + b): running sums, the first element first
Sums(xs, i, acc) == IF i > Len(xs) THEN <<>> ELSE <<IntV(acc + xs[i].v)>> \o Sums(xs, i + 1, acc + xs[i].v)
\* group: maximal runs of equal adjacent elements
Groups(xs, cur) ==
    IF xs = <<>> THEN (IF cur = <<>> THEN <<>> ELSE <<SeqV(cur)>>)
    ELSE IF cur = <<>> \/ cur[1].v = Head(xs).v THEN Groups(Tail(xs), Append(cur, Head(xs)))
    ELSE <<SeqV(cur)>> \o Groups(Tail(xs), <<Head(xs)>>)
Distinct(xs, seen) == IF xs = <<>> THEN <<>>
                      ELSE IF Head(xs).v \in seen THEN Distinct(Tail(xs), seen)
                      ELSE <<Head(xs)>> \o Distinct(Tail(xs), seen \cup {Head(xs).v})
\* with_count: (x, number of times x has been yielded so far, this one included)
WithCount(xs, i, cnt) ==
    IF i > Len(xs) THEN <<>>
    ELSE LET x == xs[i].v  c == (IF x \in DOMAIN cnt THEN cnt[x] ELSE 0) + 1
         IN <<StructV(<<xs[i], IntV(c)>>)>> \o
            WithCount(xs, i + 1, [y \in DOMAIN cnt \cup {x} |-> IF y = x THEN c ELSE cnt[y]])
Repeat(xs, n) == IF n <= 0 THEN <<>> ELSE xs \o Repeat(xs, n - 1)
SumAll(xs, i) == IF i > Len(xs) THEN 0 ELSE xs[i].v + SumAll(xs, i + 1)
Windows(xs, w) == IF Len(xs) < w THEN <<>> ELSE [i \in 1..(Len(xs) - w + 1) |-> SeqV(SubSeq(xs, i, i + w - 1))]
Chunks(xs, c) == [i \in 1..((Len(xs) + c - 1) \div c) |->
                     SeqV(SubSeq(xs, (i - 1) * c + 1, IF i * c > Len(xs) THEN Len(xs) ELSE i * c))]
Zip2(xs, ys) == [i \in 1..(IF Len(xs) < Len(ys) THEN Len(xs) ELSE Len(ys)) |-> StructV(<<xs[i], ys[i]>>)]
Mn(a, b) == IF a < b THEN a ELSE b
\* aggregate(g, init, f): init first, then the running values (std/generator.md)
SumsFrom(xs, init) == <<IntV(init)>> \o Sums(xs, 1, init)
RECURSIVE NthMatch(_, _, _, _), Flat(_, _), Prod(_, _, _)
NthMatch(p, xs, i, left) ==
    IF i > Len(xs) THEN NoneV
    ELSE IF ApplyPred(p, xs[i]) THEN (IF left = 0 THEN SomeV(xs[i]) ELSE NthMatch(p, xs, i + 1, left - 1))
    ELSE NthMatch(p, xs, i + 1, left)
Flat(parts, i) == IF i > Len(parts) THEN <<>> ELSE parts[i] \o Flat(parts, i + 1)
\* cartesian product, the first generator varying slowest
Prod(xs, ys, i) == IF i > Len(xs) THEN <<>>
                   ELSE [j \in 1..Len(ys) |-> StructV(<<xs[i], ys[j]>>)] \o Prod(xs, ys, i + 1)
\* a run of skip / take operations applied one after the other (slices of slices of slices)
RECURSIVE SliceRun(_, _, _), SliceTerm(_, _, _)
SliceRun(xs, ops, i) ==
    IF i > Len(ops) THEN xs
    ELSE LET k == ops[i][2]  n == Len(xs)
         IN SliceRun(IF ops[i][1] = "take" THEN SubSeq(xs, 1, Mn(k, n)) ELSE SubSeq(xs, Mn(k, n) + 1, n), ops, i + 1)
SliceTerm(t, ops, i) ==
    IF i > Len(ops) THEN t
    ELSE SliceTerm([k |-> "call", f |-> ops[i][1], args |-> <<t, [k |-> "lit", ty |-> "int", v |-> ops[i][2]]>>, sty |-> "method"], ops, i + 1)
\* number of elements of an infinite prefix that satisfy p
Matches(p, xs) == Len(Filter(p, xs, 1))

VARIABLES pool, step, r
gvars == <<pool, step, r>>

Ch(S, x) == SetToSortSeq(S, LAMBDA a, b : a < b)[(x % Cardinality(S)) + 1]
Gens(ety, infOK) == {i \in 1..Len(pool) : pool[i].k = "gen" /\ (ety = "any" \/ pool[i].ety = ety) /\ (infOK \/ ~pool[i].inf)}
Name(i) == "g" \o ToString(i)
V(i) == [k |-> "var", n |-> pool[i].n]
Lit(x) == [k |-> "lit", ty |-> "int", v |-> x]
Call(f, as) == [k |-> "call", f |-> f, args |-> as, sty |-> "method"]
Raw(s) == [k |-> "raw", src |-> s]
Lam(f) == Raw(CASE f = "inc" -> "(x: int) -> {x + 1}" [] f = "dbl" -> "(x: int) -> {x * 2}"
                [] f = "neg" -> "(x: int) -> {-x}" [] f = "lt3" -> "(x: int) -> {x < 3}"
                [] f = "even" -> "(x: int) -> {x % 2 == 0}" [] f = "pos" -> "(x: int) -> {x > 0}")

NewGen(xs, inf, ety, term) == [n |-> Name(Len(pool) + 1), k |-> "gen", ety |-> ety, inf |-> inf, err |-> FALSE, v |-> xs, term |-> term]
NewVal(v, term) == [n |-> Name(Len(pool) + 1), k |-> "val", ety |-> "int", inf |-> FALSE, err |-> FALSE, v |-> v, term |-> term]
NewErr(term) == [n |-> Name(Len(pool) + 1), k |-> "val", ety |-> "int", inf |-> FALSE, err |-> TRUE, v |-> <<>>, term |-> term]

Source(rr) ==
    LET c == Ch(1..6, rr[1])
    IN IF c = 6 THEN LET b == Ch(1..7, rr[2])
                     IN NewGen([i \in 1..b |-> IntV(i)], FALSE, "int",
                               Raw("successors_until(1, (x: int) -> {if(x < " \o ToString(b) \o ", some(x + 1), none())})"))
       ELSE IF c = 1 THEN LET n == Ch(0..5, rr[2]) xs == [i \in 1..n |-> IntV(Ch(-1..4, rr[2 + i]))]
                     IN IF n = 0 THEN NewGen(<<>>, FALSE, "int", Raw("range(1, 1).to_generator()"))
                        ELSE NewGen(xs, FALSE, "int", Call("to_generator", <<[k |-> "arr", items |-> [i \in 1..n |-> Lit(xs[i].v)]]>>))
       ELSE IF c = 2 THEN NewGen([i \in 1..PL |-> IntV(i - 1)], TRUE, "int", Raw("count().to_generator()"))
       ELSE IF c = 3 THEN LET b == Ch(1..6, rr[2])
                          IN NewGen([i \in 1..b |-> IntV(i - 1)], FALSE, "int", Call("to_generator", <<[k |-> "call", f |-> "range", sty |-> "fn", args |-> <<Lit(b)>>]>>))
       ELSE IF c = 4 THEN NewGen([i \in 1..PL |-> IntV(2 * i - 1)], TRUE, "int", Raw("successors(1, (x: int) -> {x + 2})"))
       ELSE LET xs == <<IntV(1), IntV(1), IntV(2), IntV(2), IntV(2), IntV(0), IntV(1)>>
            IN NewGen(xs, FALSE, "int", Raw("[1, 1, 2, 2, 2, 0, 1].to_generator()"))

Op(rr) ==
    LET S == Gens("any", TRUE)
    IN IF S = {} THEN Source(rr)
    ELSE
    LET i == Ch(S, rr[1])  e == pool[i]  xs == e.v  n == Len(xs)
        o == Ch(1..37, rr[2])
        int == e.ety = "int"
    IN
    CASE o = 1 /\ int -> LET f == Fns[Ch(1..3, rr[3])]
                  IN NewGen([j \in 1..n |-> ApplyFn(f, xs[j])], e.inf, "int", Call("map", <<V(i), Lam(f)>>))
      [] o = 2 /\ int /\ ~e.inf -> LET p == Preds[Ch(1..3, rr[3])]
                  IN NewGen(Filter(p, xs, 1), FALSE, "int", Call("filter", <<V(i), Lam(p)>>))
      [] o = 3 -> LET k == Ch(0..6, rr[3]) IN NewGen(SubSeq(xs, 1, Mn(k, n)), FALSE, e.ety, Call("take", <<V(i), Lit(k)>>))
      [] o = 4 /\ (~e.inf \/ n > 30) -> LET k == Ch(0..5, rr[3])
                  IN NewGen(SubSeq(xs, Mn(k, n) + 1, n), e.inf, e.ety, Call("skip", <<V(i), Lit(k)>>))
      [] o = 5 /\ int /\ ~e.inf -> LET p == Preds[Ch(1..3, rr[3])]
                  IN NewGen(SubSeq(xs, 1, TakeWhile(p, xs, 1)), FALSE, "int", Call("take_while", <<V(i), Lam(p)>>))
      [] o = 6 /\ int /\ ~e.inf -> LET p == Preds[Ch(1..3, rr[3])]
                  IN NewGen(SubSeq(xs, SkipUntil(p, xs, 1) + 1, n), FALSE, "int", Call("skip_until", <<V(i), Lam(p)>>))
      [] o = 7 /\ int -> LET S2 == Gens("int", TRUE) j == Ch(S2, rr[3])
                  IN NewGen(Zip2(xs, pool[j].v), e.inf /\ pool[j].inf, "pair",
                            [k |-> "call", f |-> "zip", sty |-> "fn", args |-> <<V(i), V(j)>>])
      [] o = 8 /\ ~e.inf /\ e.ety \in {"int", "pair"} -> LET S2 == Gens(e.ety, TRUE) j == Ch(S2, rr[3])
                  IN IF ~pool[j].inf /\ n + Len(pool[j].v) > 40 THEN Source(rr)      \* finite streams are never cut
                     ELSE NewGen(SubSeq(xs \o pool[j].v, 1, Mn(PL, n + Len(pool[j].v))), pool[j].inf, e.ety,
                                 [k |-> "call", f |-> "add", sty |-> "op", args |-> <<V(i), V(j)>>])
      [] o = 9 /\ int /\ n >= 1 -> NewGen(Sums(xs, 1, 0), e.inf, "int", Call("aggregate", <<V(i), Raw("(a: int, b: int) -> {a + b}")>>))
      [] o = 10 /\ ~e.inf /\ int -> NewGen([j \in 1..n |-> StructV(<<IntV(j - 1), xs[j]>>)], FALSE, "pair", Call("enumerate", <<V(i)>>))
      [] o = 11 /\ ~e.inf /\ int -> LET w == Ch(1..3, rr[3]) IN NewGen(Windows(xs, w), FALSE, "seq", Call("windows", <<V(i), Lit(w)>>))
      [] o = 12 /\ ~e.inf /\ int -> LET c == Ch(1..3, rr[3]) IN NewGen(Chunks(xs, c), FALSE, "seq", Call("chunks", <<V(i), Lit(c)>>))
      [] o = 13 /\ int /\ ~e.inf -> NewGen(Groups(xs, <<>>), FALSE, "seq", Call("group", <<V(i)>>))
      [] o = 14 /\ int /\ ~e.inf -> NewGen(Distinct(xs, {}), FALSE, "int", Call("distinct", <<V(i)>>))
      [] o = 15 /\ int /\ ~e.inf -> NewGen(WithCount(xs, 1, [y \in {} |-> 0]), FALSE, "pair", Call("with_count", <<V(i)>>))
      [] o = 16 /\ ~e.inf -> LET k == Ch(0..3, rr[3])
                  IN IF n * k > 20 THEN Source(rr) ELSE NewGen(Repeat(xs, k), FALSE, e.ety, Call("repeat", <<V(i), Lit(k)>>))
      [] o = 17 /\ ~e.inf -> NewVal(IntV(n), Call("len", <<V(i)>>))
      [] o = 18 /\ ~e.inf /\ int -> IF n = 0 THEN NewErr(Call("last", <<V(i)>>)) ELSE NewVal(xs[n], Call("last", <<V(i)>>))
      [] o = 19 /\ int /\ n > 8 -> LET k == Ch(0..5, rr[3]) IN NewVal(xs[k + 1], Call("get", <<V(i), Lit(k)>>))
      [] o = 20 /\ int /\ ~e.inf -> NewVal(IntV(SumAll(xs, 1)), Call("reduce", <<V(i), Lit(0), Raw("(a: int, b: int) -> {a + b}")>>))
      [] o = 21 /\ int /\ n >= 1 /\ (~e.inf) -> NewGen(SubSeq(Repeat(xs, 1 + 40 \div n), 1, 40), TRUE, "int", Call("repeat", <<V(i)>>))
      \* ---- second batch: the remaining consumers and adaptors of std/generator.md ----
      [] o = 22 /\ int -> LET a == Ch(-2..3, rr[3])
                  IN NewGen(IF e.inf THEN SubSeq(SumsFrom(xs, a), 1, Mn(PL, n + 1)) ELSE SumsFrom(xs, a), e.inf, "int",
                            Call("aggregate", <<V(i), Lit(a), Raw("(a: int, b: int) -> {a + b}")>>))
      [] o = 23 /\ int /\ ~e.inf -> LET p == Preds[Ch(1..3, rr[3])]
                  IN NewVal(BoolV(\A j \in 1..n : ApplyPred(p, xs[j])), Call("all", <<V(i), Lam(p)>>))
      [] o = 24 /\ int /\ ~e.inf -> LET p == Preds[Ch(1..3, rr[3])]
                  IN NewVal(BoolV(\E j \in 1..n : ApplyPred(p, xs[j])), Call("any", <<V(i), Lam(p)>>))
      [] o = 25 /\ int /\ ~e.inf -> LET p == Preds[Ch(1..3, rr[3])]
                  IN NewVal(NthMatch(p, xs, 1, 0), Call("first", <<V(i), Lam(p)>>))
      [] o = 26 /\ int /\ ~e.inf -> LET p == Preds[Ch(1..3, rr[3])] k == Ch(0..3, rr[4])
                  IN NewVal(NthMatch(p, xs, 1, k), Call("nth", <<V(i), Lit(k), Lam(p)>>))
      \* searching an infinite stream: only when the match is inside the carried prefix
      [] o = 27 /\ int /\ e.inf -> LET p == Preds[Ch(1..3, rr[3])] k == Ch(0..3, rr[4])
                  IN IF Matches(p, xs) > k THEN NewVal(NthMatch(p, xs, 1, k), Call("nth", <<V(i), Lit(k), Lam(p)>>))
                     ELSE Source(rr)
      \* filter of an infinite stream: only when plenty of the prefix matches (the stream stays infinite)
      [] o = 28 /\ int /\ e.inf -> LET p == Preds[Ch(1..3, rr[3])]
                  IN IF Matches(p, xs) >= 14 THEN NewGen(Filter(p, xs, 1), TRUE, "int", Call("filter", <<V(i), Lam(p)>>))
                     ELSE Source(rr)
      \* take_while / skip_until of an infinite stream: only when the cut is inside the prefix
      [] o = 29 /\ int /\ e.inf -> LET p == Preds[Ch(1..3, rr[3])] c == TakeWhile(p, xs, 1)
                  IN IF c < n THEN NewGen(SubSeq(xs, 1, c), FALSE, "int", Call("take_while", <<V(i), Lam(p)>>))
                     ELSE Source(rr)
      [] o = 30 /\ int /\ e.inf -> LET p == Preds[Ch(1..3, rr[3])] c == SkipUntil(p, xs, 1)
                  IN IF c < n /\ n - c > 20 THEN NewGen(SubSeq(xs, c + 1, n), TRUE, "int", Call("skip_until", <<V(i), Lam(p)>>))
                     ELSE Source(rr)
      \* flatten of a sequence of finite generators (the last one may be infinite)
      [] o = 31 /\ e.ety \in {"int", "pair"} ->
                  LET S2 == Gens(e.ety, FALSE)
                  IN IF S2 = {} THEN Source(rr)
                     ELSE LET a == Ch(S2, rr[3]) b == Ch(S2, rr[4])
                              all == pool[a].v \o pool[b].v \o xs
                          IN IF ~e.inf /\ Len(all) > 40 THEN Source(rr)      \* finite streams are never cut
                             ELSE NewGen(SubSeq(all, 1, Mn(PL, Len(all))), e.inf, e.ety,
                                         Call("flatten", <<[k |-> "arr", items |-> <<V(a), V(b), V(i)>>]>>))
      \* cartesian product of two finite generators (the first may be infinite: its first element pairs first)
      [] o = 32 /\ int /\ ~e.inf ->
                  LET S2 == Gens("int", FALSE) j == Ch(S2, rr[3])
                  IN IF n * Len(pool[j].v) > 30 THEN Source(rr)
                     ELSE NewGen(Prod(xs, pool[j].v, 1), FALSE, "pair", Call("product", <<V(i), V(j)>>))
      [] o = 33 /\ int /\ ~e.inf -> LET a == Ch(-2..3, rr[3]) d == Ch({-2, -1, 1, 2, 3}, rr[4])
                  IN NewGen([j \in 1..n |-> StructV(<<IntV(a + (j - 1) * d), xs[j]>>)], FALSE, "pair",
                            Call("enumerate", <<V(i), Lit(a), Lit(d)>>))
      [] o = 34 /\ int /\ n >= 1 /\ ~e.inf ->
                  NewVal(IntV(SumAll(xs, 1)), Call("reduce", <<V(i), Raw("(a: int, b: int) -> {a + b}")>>))
      \* three or four skip / take operations in a row on one generator
      [] o \in {35, 36, 37} /\ (~e.inf \/ n > 40) ->
                  LET m == 3 + (rr[3] % 2)
                      ops == [j \in 1..m |-> <<IF (rr[4] \div (2 ^ j)) % 2 = 0 THEN "skip" ELSE "take", (rr[4 + j] % 7)>>]
                      takes == \E j \in 1..m : ops[j][1] = "take"
                  IN NewGen(SliceRun(xs, ops, 1), e.inf /\ ~takes, e.ety, SliceTerm(V(i), ops, 1))
      [] OTHER -> Source(rr)

Init == pool = <<>> /\ step = 0 /\ r = <<>>
Next == /\ step < Steps
        /\ r' = [j \in 1..8 |-> RandomElement(0..5039)]
        /\ pool' = Append(pool, IF step < 2 THEN Source(r') ELSE Op(r'))
        /\ step' = step + 1
Spec == Init /\ [][Next]_gvars

ProjL(xs, k) == [t |-> "seq", inf |-> FALSE, v |-> [i \in 1..Mn(k, Len(xs)) |-> Proj(xs[i])]]
\* the bindings of the program: every pool entry, then two consumptions of every generator
Binds ==
    LET base == [i \in 1..Len(pool) |->
                    [n |-> pool[i].n, term |-> pool[i].term,
                     v |-> IF pool[i].err THEN [t |-> "err", m |-> "?"]
                           ELSE IF pool[i].k = "gen" THEN [t |-> "gen"] ELSE Proj(pool[i].v)]]
        gs == SetToSortSeq({i \in 1..Len(pool) : pool[i].k = "gen"}, LAMBDA a, b : a < b)
        Consume(i, tag) ==
            LET e == pool[i]
            IN [n |-> "c" \o tag \o ToString(i),
                term |-> IF e.inf THEN Call("to_array", <<Call("take", <<V(i), Lit(6)>>)>>) ELSE Call("to_array", <<V(i)>>),
                v |-> IF e.inf THEN ProjL(e.v, 6) ELSE ProjL(e.v, Len(e.v))]
    IN base \o [j \in 1..Len(gs) |-> Consume(gs[j], "a")] \o [j \in 1..Len(gs) |-> Consume(gs[j], "b")]

Emit == (step = Steps) => PrintT(<<"CASE", ToJson([binds |-> Binds])>>)
=============================================================================
