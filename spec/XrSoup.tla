------------------------------- MODULE XrSoup -------------------------------
(***************************************************************************)
(* Token soups over the alphabet of the xray grammar (src/xray.pest): a     *)
(* derivation machine that appends one token per step and is free to leave *)
(* the grammar (unbalanced brackets, stray operators, every numeric-literal *)
(* spelling including over-long ones, string fences and escapes).  Walked   *)
(* with `tlc -simulate`; each behaviour is one compiler input for C12.      *)
(***************************************************************************)
EXTENDS Naturals, Sequences, TLC, Json

Alphabet == <<
  "let ", "x", "y", "f", "g", "T", "_", "item0", "item1", "item1x", " = ", ";", ":", "::", "!:", "?:", ".", ",",
  "(", ")", "[", "]", "{", "}", "<", ">", "->", "?=", "$",
  "fn ", "forward fn ", "struct ", "union ", "type ", "int", "str", "bool", "float", "Sequence", "Optional",
  "+", "-", "*", "/", "**", "%", "&&", "||", "==", "!=", "<=", ">=", "&", "|", "^", "!",
  "0", "1", "42", "1_000", "0x1F", "0b101", "1.5", "1e3", "2e-2", "1e999", "0x", "0b", "1.", ".5", "1e",
  "0xffffffffffffffffffffffffffffffffffffffffffff", "0b1111111111111111111111111111111111111111111111111111111111111111111111",
  "123456789012345678901234567890123456789012345678901234567890", "1e-999", "9.9e307", "00", "1__2",
  "\"a\"", "'b'", "\"", "'", "#\"x\"#", "##'y'##", "#\"", "r\"\\n\"", "f\"{x}\"", "f\"{x:>4}\"", "f\"{\"", "f\"{{}}\"",
  "\"\\n\"", "\"\\q\"", "\"\\u{1F600}\"", "\"\\u{110000}\"", "\"\\u{}\"", "\"\\\"",
  "true", "false", "if", "display", "error", "none()", "some", "cast", "main", "add", "get",
  " ", "\n", "//c\n", "/*", "*/", "/* c */", "é", "中", "😀"
>>

VARIABLES toks, n
svars == <<toks, n>>
CONSTANT MaxLen

Init == toks = <<>> /\ n = RandomElement(2..MaxLen)
Next == /\ Len(toks) < n
        \* one random successor (simulation mode evaluates invariants on every successor)
        /\ toks' = Append(toks, Alphabet[RandomElement(1..Len(Alphabet))])
        /\ UNCHANGED n
Spec == Init /\ [][Next]_svars

Emit == (Len(toks) = n) => PrintT(<<"CASE", ToJson(toks)>>)
=============================================================================
