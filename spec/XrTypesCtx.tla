------------------------------ MODULE XrTypesCtx ------------------------------
(***************************************************************************)
(* The type algebra inside the body of a generic function                  *)
(*     fn outer<T, U>(t: T, u: U) -> int { ... }                           *)
(* where T and U are rigid: every (required, supplied) pair of a universe  *)
(* that mixes ground types with T and U, in containers, tuples, callables  *)
(* and generic compounds, with the verdict of XrTypeAlg.Assignable.  The   *)
(* harness renders each pair in positions that only exist inside such a    *)
(* body: a typed let, an argument of a nested (non-generic) function whose *)
(* signature mentions T, the return value of such a nested function, an    *)
(* argument of a call through a callable parameter, an element of an       *)
(* annotated container.                                                    *)
(***************************************************************************)
EXTENDS XrTypeAlg

T == VarT("T")
U == VarT("U")
CtxUniv ==
    {Int, Str, Unknown, T, U,
     SeqT(T), SeqT(Int), SeqT(Unknown), OptT(T), OptT(U), OptT(Int),
     TupT(<<T, Int>>), TupT(<<Int, T>>), TupT(<<T, U>>),
     FnT(<<T>>, Int), FnT(<<Int>>, T), FnT(<<T>>, T), FnT(<<U>>, T), FnT(<<Int>>, Int),
     CompT("S1", <<T>>), CompT("S1", <<Int>>), CompT("S1", <<U>>), CompT("S2", <<T, U>>), CompT("S2", <<U, T>>)}
Expressible == {t \in CtxUniv : ~HasUnknown(t)}

VARIABLES req, sup
cvars == <<req, sup>>
Init == req \in Expressible /\ sup \in CtxUniv
Next == UNCHANGED cvars

EmitPair == PrintT(<<"CASE", ToJson([req |-> req, sup |-> sup, assign |-> IF Assignable(req, sup) THEN "yes" ELSE "no"])>>)

\* laws: rigid parameters behave like fresh ground types
Reflexive == Assignable(req, req)
RigidIsOpaque == (req.k = "var" /\ sup.k # "unknown") => (Assignable(req, sup) <=> sup = req)
NothingElseIntoRigid == (sup.k = "var") => (Assignable(req, sup) <=> req = sup)
Transitive == \A m \in CtxUniv : (Assignable(req, m) /\ Assignable(m, sup)) => Assignable(req, sup)
=============================================================================
