"""C14 - Integers are exact at every magnitude.

Decided by XrBigInt: a TLA+ arbitrary-precision oracle (sign + base-10^4 limbs; add, sub, mul,
cmp, pow recomputed; floor division / modulo, ceil division, gcd, lcm, factorial, binomial,
digits, bitwise operations checked through their defining relations) used as a trace acceptor
over every integer-builtin call of driver programs whose operands are drawn from {0, +-1, small,
+-2^31, +-2^63 and neighbours, +-2^64, +-2^127 and neighbours, random 1-400 bit}; plus the
canonical-form invariant (Short iff -2^63 <= v < 2^63) and route independence (a value reached
along two routes is equal, hashes equally and prints equally).  TLC first checks the limb
arithmetic against its native integers (MC_XrBigInt)."""
import json
import random
import re

import vf

LEVEL = "model_checking"


def limbs(dec):
    dec = str(dec).strip()
    neg = dec.startswith("-")
    d = dec.lstrip("+-").lstrip("0")
    mag = []
    while d:
        mag.append(int(d[-4:]))
        d = d[:-4]
    return {"neg": neg and bool(mag), "mag": mag}


def operands(rnd, n):
    pool = [0, 1, -1, 2, -2, 7, 10, 255, 2 ** 31, -2 ** 31, 2 ** 31 - 1, 2 ** 32, 2 ** 63, 2 ** 63 - 1, -2 ** 63, -2 ** 63 - 1,
            2 ** 63 + 1, 2 ** 64, 2 ** 64 - 1, -2 ** 64, 2 ** 127, 2 ** 127 - 1, -2 ** 127, 2 ** 128, 10 ** 18, 10 ** 19,
            9999, 10000, 10 ** 40]
    out = []
    # every ordered pair of the values around the Short / Long boundary (division, remainder and
    # comparison have arms per representation pair; -2^63 is Short while +2^63 is Long)
    edge = [2 ** 63, -2 ** 63, 2 ** 63 - 1, -2 ** 63 - 1, 2 ** 63 + 1, -2 ** 63 + 1, 1, -1, 2 ** 64, -2 ** 64 - 1]
    out += [(x, y) for x in edge for y in edge]
    for _ in range(n):
        def one():
            if rnd.random() < 0.55:
                return rnd.choice(pool)
            bits = rnd.choice([1, 8, 30, 31, 32, 62, 63, 64, 65, 100, 127, 128, 200, 400])
            v = rnd.getrandbits(bits)
            return -v if rnd.random() < 0.4 else v
        out.append((one(), one()))
    return out


def lit(x):
    """an int value without going through the literal parser for large values"""
    if abs(x) < 2 ** 62:
        return str(x) if x >= 0 else "(%d)" % x
    return 'to_int("%d")' % x


def program(a, b, e):
    L = []
    L.append("let a = %s;" % lit(a))
    L.append("let b = %s;" % lit(b))
    L += ["let r_add = a + b;", "let r_sub = a - b;", "let r_mul = a * b;", "let r_neg = -a;", "let r_abs = abs(a);",
          "let r_cmp = cmp(a, b);", "let r_eq = a == b;", "let r_ne = a != b;", "let r_lt = a < b;", "let r_le = a <= b;",
          "let r_gt = a > b;", "let r_ge = a >= b;",
          "let r_mod = a % b;", "let r_dfl = div_floor(a, b);", "let r_dcl = div_ceil(a, b);",
          "let r_pow = a ** %d;" % e,
          "let aa = abs(a);", "let bb = abs(b);", "let r_and = aa & bb;", "let r_or = aa | bb;", "let r_xor = aa ^ bb;",
          # signed operands: integers are infinite two's complement
          "let n_and = a & b;", "let n_or = a | b;", "let n_xor = a ^ b;",
          "let m8 = a & 255;", "let q8 = a % 256;", "let m64 = a & %s;" % lit(2 ** 64 - 1), "let q64 = a %% %s;" % lit(2 ** 64),
          "let m3 = b & 3;", "let q3 = b % 4;",
          "let r_gcd = gcd(a, b);", "let a1 = div_floor(a, r_gcd);", "let b1 = div_floor(b, r_gcd);", "let cof = gcd(a1, b1) == 1;",
          "let r_lcm = lcm(a, b);",
          "let r_str = a.to_str();", "let r_back = to_int(r_str);",
          "let r_d10 = digits(aa);", "let r_d7 = digits(aa, 7);", "let r_d16 = digits(aa, 16);", "let r_d9999 = digits(aa, 9999);",
          "let a2 = (a + b) - b;", "let s_eq = a2 == a;", "let s_hash = hash(a2) == hash(a);", "let s_text = a2.to_str() == a.to_str();",
          "let a3 = (a * 3) - a - a;", "let t_eq = a3 == a;", "let t_hash = hash(a3) == hash(a);", "let t_text = a3.to_str() == a.to_str();",
          "let h = hash(a);"]
    return "\n".join(L) + "\n"


NAMES = re.compile(r"let (\w+) =")


def ival(d):
    return int(d["v"]) if d and d.get("t") == "int" else None


def run(chk, tier, seed):
    rnd = random.Random(seed)
    r0 = vf.tlc("MC_XrBigInt", "MC_XrBigInt.cfg", "c14-mc", workers=1, env={"TRACE": "/dev/null"})
    if not r0.ok:
        raise vf.ToolError("MC_XrBigInt failed:\n" + r0.out[-1500:])
    chk.add_tlc(r0)
    n = 150 if tier == "quick" else 2500
    ops = operands(rnd, n)
    jobs = []
    for i, (a, b) in enumerate(ops):
        e = rnd.choice([0, 1, 2, 3, 5]) if abs(a) > 2 ** 64 else rnd.choice([0, 1, 2, 3, 7, 13, 40])
        src = program(a, b, e)
        jobs.append({"id": "p%d" % i, "src": src, "observe": NAMES.findall(src), "_a": a, "_b": b, "_e": e})
    # factorial / binomial chains
    fsrc = "".join("let f%d = factorial(%d);\n" % (k, k) for k in range(0, 31)) + \
        "".join("let c%d_%d = binom(%d, %d);\n" % (nn, k, nn, k) for nn in (5, 20, 40, 70) for k in range(0, nn + 1, max(1, nn // 10)) ) + \
        "".join("let d%d_%d = binom(%d, %d);\n" % (nn, k - 1, nn, k - 1) for nn in (5, 20, 40, 70) for k in range(1, nn + 1, max(1, nn // 10)) if (k - 1) % max(1, nn // 10) != 0)
    jobs.append({"id": "fact", "src": fsrc, "observe": NAMES.findall(fsrc)})
    # integer roots, multinomial coefficients, stepped factorials (library functions written in xray / native loops)
    roots = [(a, b) for a in (0, 1, 2, 3, 4, 8, 9, 15, 16, 17, 26, 27, 28, 99, 100, 101, 2 ** 20 - 1, 2 ** 20, 2 ** 20 + 1, 10 ** 6) for b in (2, 3)]
    triples = [(0, 0, 0), (1, 0, 0), (1, 1, 1), (2, 3, 4), (5, 0, 7), (10, 10, 10), (20, 15, 30), (33, 1, 40)]
    msrc = "".join("let fr%d = floor_root(%d, %d);\nlet cr%d = ceil_root(%d, %d);\n" % (i, a, b, i, a, b) for i, (a, b) in enumerate(roots))
    msrc += "".join("let mn%d = multinom([%d, %d, %d]);\nlet ma%d = binom(%d, %d);\nlet mb%d = binom(%d, %d);\n" % (i, a, b, c, i, a + b + c, a, i, b + c, b)
                    for i, (a, b, c) in enumerate(triples))
    msrc += "".join("let fs%d_%d = factorial(%d, %d);\n" % (st, n, n, st) for st in (2, 3) for n in range(0, 26))
    jobs.append({"id": "roots", "src": msrc, "observe": NAMES.findall(msrc), "_roots": roots, "_triples": triples, "limits": {"calls": 10 ** 7}})
    # the whole triangle: every binom(n, k), 0 <= k <= n <= N, row by row (the running product changes representation at
    # different steps for different n), and every two-part multinomial against the binomial
    N = 150 if tier == "quick" else 400
    for lo in range(0, N + 1, 25):
        rows = list(range(lo, min(lo + 25, N + 1)))
        tsrc = "".join("let row%d = range(0, %d).map((k: int) -> {binom(%d, k)}).to_array();\n" % (n_, n_ + 1, n_) for n_ in rows)
        jobs.append({"id": "tri%d" % lo, "src": tsrc, "observe": ["row%d" % n_ for n_ in rows], "_rows": rows, "max_elems": N + 2, "limits": {"calls": 10 ** 7}})
    M = 40 if tier == "quick" else 90
    for a in range(0, M + 1, 10):
        psrc = "".join("let mp%d = range(0, %d).map((b: int) -> {multinom([%d, b])}).to_array();\nlet mq%d = range(0, %d).map((b: int) -> {binom(%d + b, b)}).to_array();\n"
                       % (a_, M + 1, a_, a_, M + 1, a_) for a_ in range(a, min(a + 10, M + 1)))
        jobs.append({"id": "mpair%d" % a, "src": psrc, "observe": NAMES.findall(psrc), "_as": list(range(a, min(a + 10, M + 1))), "_M": M, "max_elems": M + 2, "limits": {"calls": 10 ** 7}})
    # integers that a double holds exactly: int -> float -> int (floor / ceil / trunc) is the identity on them
    exact = set()
    for k in (0, 1, 30, 31, 32, 52, 53, 54, 62, 63, 64, 65, 100, 127, 128, 511, 1000, 1023):
        exact |= {2 ** k, -(2 ** k)}
    for x in (2 ** 53 - 1, 2 ** 53 + 2, 2 ** 63 - 1024, 2 ** 63 + 2048, 2 ** 64 - 2048, 3 * 2 ** 70, 10 ** 15, 10 ** 22, (2 ** 53 - 1) * 2 ** 971, 7, 0):
        exact |= {x, -x}
    exact = sorted(x for x in exact if int(float(x)) == x)
    if tier == "quick":
        exact = [x for x in exact if abs(x) in (2 ** 63, 2 ** 31, 2 ** 53, 2 ** 64, 2 ** 63 - 1024, 2 ** 1023, 7, 0, 10 ** 22, 3 * 2 ** 70)]
    xsrc = ""
    for i, x in enumerate(exact):
        xsrc += "let x%d = to_float(%s);\nlet xf%d = x%d.floor();\nlet xc%d = x%d.ceil();\nlet xt%d = x%d.trunc();\n" % (i, lit(x), i, i, i, i, i, i)
    jobs.append({"id": "exactfloat", "src": xsrc, "observe": NAMES.findall(xsrc), "_exact": exact})
    res = vf.run_jobs([{k: v for k, v in j.items() if not k.startswith("_")} for j in jobs], "c14")
    chk.count(len(jobs))
    events, owner = [], []

    def ev(j, e, what):
        events.append(e)
        owner.append((j, what))
    for j in jobs:
        o = res[j["id"]]
        oc = vf.job_outcome(o)
        if oc != "ok":
            chk.violation("integer program: %s %s" % (oc, str(o.get("compile", {}).get("msg") or o.get("inst"))[:300]),
                          {"kind": "bigint", "source": j["src"], "observed": oc})
            continue
        v = o["values"]
        chk.nontrivial(j["src"])
        if j["id"] == "exactfloat":
            for i, x in enumerate(j["_exact"]):
                for pre, fn in (("xf", "floor"), ("xc", "ceil"), ("xt", "trunc")):
                    d = v.get("%s%d" % (pre, i), {})
                    if d.get("t") != "int":
                        chk.violation("%s(to_float(%d)) is not an integer: %s" % (fn, x, d), {"kind": "bigint", "source": j["src"], "binding": "%s%d" % (pre, i)},
                                      finding_key="exactfloat:%s" % fn)
                        continue
                    ev(j, {"ev": "text", "a": limbs(x), "parsed": limbs(d["v"])}, "%s(to_float(%d))" % (fn, x))
                    ev(j, {"ev": "repr", "a": limbs(d["v"]), "short": d["repr"] == "S"}, "representation of %s(to_float(%d)) = %s" % (fn, x, d["v"]))
            continue
        if j["id"].startswith("tri"):
            for n_ in j["_rows"]:
                row = v.get("row%d" % n_, {})
                xs = row.get("v") or []
                if row.get("t") != "seq" or len(xs) != n_ + 1 or any(x.get("t") != "int" for x in xs):
                    chk.violation("row %d of the binomial triangle is not %d integers: %s" % (n_, n_ + 1, str(row)[:200]), {"kind": "bigint", "source": j["src"], "binding": "row%d" % n_}, finding_key="binom:row")
                    continue
                if int(xs[0]["v"]) != 1:
                    chk.violation("binom(%d, 0) = %s" % (n_, xs[0]["v"]), {"kind": "bigint", "source": j["src"], "binding": "row%d" % n_})
                for k in range(1, n_ + 1):
                    ev(j, {"ev": "binom", "n": n_, "k": k, "r": limbs(xs[k]["v"]), "prev": limbs(xs[k - 1]["v"])}, "binom(%d, %d)" % (n_, k))
            continue
        if j["id"].startswith("mpair"):
            for a_ in j["_as"]:
                mp, mq = v.get("mp%d" % a_, {}), v.get("mq%d" % a_, {})
                xs, ys = mp.get("v") or [], mq.get("v") or []
                if mp.get("t") != "seq" or len(xs) != j["_M"] + 1 or len(ys) != len(xs) or any(x.get("t") != "int" for x in xs + ys):
                    chk.violation("multinom([%d, b]) / binom(%d + b, b) for b = 0..%d are not integers: %s" % (a_, a_, j["_M"], str(mp)[:200]), {"kind": "bigint", "source": j["src"], "binding": "mp%d" % a_}, finding_key="multinom")
                    continue
                for b_ in range(len(xs)):
                    ev(j, {"ev": "multinom", "r": limbs(xs[b_]["v"]), "c1": limbs(ys[b_]["v"]), "c2": limbs(1)}, "multinom([%d, %d]) against binom(%d, %d)" % (a_, b_, a_ + b_, b_))
            continue
        if j["id"] == "roots":
            for i, (a, b) in enumerate(j["_roots"]):
                fr, cr = v.get("fr%d" % i, {}), v.get("cr%d" % i, {})
                if fr.get("t") == "int":
                    ev(j, {"ev": "froot", "a": limbs(a), "b": b, "r": limbs(fr["v"])}, "floor_root(%d, %d)" % (a, b))
                else:
                    chk.violation("floor_root(%d, %d) is not an integer: %s" % (a, b, fr), {"kind": "bigint", "source": j["src"], "binding": "fr%d" % i}, finding_key="root:floor")
                if a > 0:
                    if cr.get("t") == "int":
                        ev(j, {"ev": "croot", "a": limbs(a), "b": b, "r": limbs(cr["v"])}, "ceil_root(%d, %d)" % (a, b))
                    else:
                        chk.violation("ceil_root(%d, %d) is not an integer: %s" % (a, b, cr), {"kind": "bigint", "source": j["src"], "binding": "cr%d" % i}, finding_key="root:ceil")
            for i, (a, b, c) in enumerate(j["_triples"]):
                mn, ma, mb = v.get("mn%d" % i, {}), v.get("ma%d" % i, {}), v.get("mb%d" % i, {})
                if all(x.get("t") == "int" for x in (mn, ma, mb)):
                    ev(j, {"ev": "multinom", "r": limbs(mn["v"]), "c1": limbs(ma["v"]), "c2": limbs(mb["v"])}, "multinom([%d, %d, %d])" % (a, b, c))
                else:
                    chk.violation("multinom([%d, %d, %d]) / binom did not yield integers: %s %s %s" % (a, b, c, mn, ma, mb), {"kind": "bigint", "source": j["src"], "binding": "mn%d" % i}, finding_key="multinom")
            for st in (2, 3):
                for n in range(0, 26):
                    cur = v.get("fs%d_%d" % (st, n), {})
                    if cur.get("t") != "int":
                        chk.violation("factorial(%d, %d) is not an integer: %s" % (n, st, cur), {"kind": "bigint", "source": j["src"], "binding": "fs%d_%d" % (st, n)}, finding_key="factstep")
                    elif n <= st:
                        if int(cur["v"]) != max(n, 1):
                            chk.violation("factorial(%d, %d) = %s" % (n, st, cur["v"]), {"kind": "bigint", "source": j["src"], "binding": "fs%d_%d" % (st, n)}, finding_key="factstep")
                    else:
                        prev = v.get("fs%d_%d" % (st, n - st), {})
                        if prev.get("t") == "int":
                            ev(j, {"ev": "factstep", "n": n, "r": limbs(cur["v"]), "prev": limbs(prev["v"])}, "factorial(%d, %d)" % (n, st))
            continue
        if j["id"] == "fact":
            for k in range(1, 31):
                ev(j, {"ev": "fact", "n": k, "r": limbs(v["f%d" % k]["v"]), "prev": limbs(v["f%d" % (k - 1)]["v"])}, "factorial(%d)" % k)
            if ival(v["f0"]) != 1:
                chk.violation("factorial(0) = %s" % v["f0"], {"kind": "bigint", "source": j["src"], "binding": "f0"})
            for nn in (5, 20, 40, 70):
                for k in range(1, nn + 1, max(1, nn // 10)):
                    cur = v.get("c%d_%d" % (nn, k))
                    prev = v.get("c%d_%d" % (nn, k - 1)) or v.get("d%d_%d" % (nn, k - 1))
                    if cur and prev and cur.get("t") == "int" and prev.get("t") == "int":
                        ev(j, {"ev": "binom", "n": nn, "k": k, "r": limbs(cur["v"]), "prev": limbs(prev["v"])}, "binom(%d, %d)" % (nn, k))
                if ival(v.get("c%d_0" % nn)) != 1:
                    chk.violation("binom(%d, 0) = %s" % (nn, v.get("c%d_0" % nn)), {"kind": "bigint", "source": j["src"]})
            continue
        a, b, e = j["_a"], j["_b"], j["_e"]
        A, Bv = limbs(a), limbs(b)
        # the operands themselves: literal / to_int route must give the number written
        for name, x in (("a", a), ("b", b)):
            ev(j, {"ev": "text", "a": limbs(v[name].get("v", "0")), "parsed": limbs(x)}, "%s = %s" % (name, lit(x)))
        for name in v:
            d = v[name]
            if d.get("t") == "int":
                ev(j, {"ev": "repr", "a": limbs(d["v"]), "short": d["repr"] == "S"}, "representation of %s = %s" % (name, d["v"]))
        for name, op in (("r_add", "add"), ("r_sub", "sub"), ("r_mul", "mul")):
            ev(j, {"ev": op, "a": A, "b": Bv, "r": limbs(v[name]["v"])}, "%s(%d, %d)" % (op, a, b))
        ev(j, {"ev": "neg", "a": A, "r": limbs(v["r_neg"]["v"])}, "neg(%d)" % a)
        ev(j, {"ev": "abs", "a": A, "r": limbs(v["r_abs"]["v"])}, "abs(%d)" % a)
        ev(j, {"ev": "cmp", "a": A, "b": Bv, "r": ival(v["r_cmp"])}, "cmp(%d, %d)" % (a, b))
        for op in ("eq", "ne", "lt", "le", "gt", "ge"):
            ev(j, {"ev": "rel", "op": op, "a": A, "b": Bv, "r": v["r_" + op].get("v")}, "%s(%d, %d)" % (op, a, b))
        if b != 0:
            if v["r_mod"].get("t") == "int" and v["r_dfl"].get("t") == "int":
                ev(j, {"ev": "divmod", "a": A, "b": Bv, "q": limbs(v["r_dfl"]["v"]), "r": limbs(v["r_mod"]["v"])}, "div_floor/mod(%d, %d)" % (a, b))
            else:
                chk.violation("mod / div_floor(%d, %d) did not yield integers: %s %s" % (a, b, v["r_mod"], v["r_dfl"]), {"kind": "bigint", "source": j["src"], "binding": "r_mod"})
            if v["r_dcl"].get("t") == "int":
                ev(j, {"ev": "divceil", "a": A, "b": Bv, "q": limbs(v["r_dcl"]["v"])}, "div_ceil(%d, %d)" % (a, b))
        else:
            for nm in ("r_mod", "r_dfl", "r_dcl"):
                if v[nm].get("t") != "err":
                    chk.violation("%s with a zero divisor is not an error: %s" % (nm, v[nm]), {"kind": "bigint", "source": j["src"], "binding": nm})
        if not (a == 0 and e == 0) and v["r_pow"].get("t") == "int":
            ev(j, {"ev": "pow", "a": A, "n": e, "r": limbs(v["r_pow"]["v"])}, "pow(%d, %d)" % (a, e))
        if all(v[x].get("t") == "int" for x in ("r_and", "r_or", "r_xor")):
            ev(j, {"ev": "bits", "a": limbs(abs(a)), "b": limbs(abs(b)), "and": limbs(v["r_and"]["v"]), "or": limbs(v["r_or"]["v"]),
                   "xor": limbs(v["r_xor"]["v"])}, "bit_and/or/xor(%d, %d)" % (abs(a), abs(b)))
        if all(v[x].get("t") == "int" for x in ("n_and", "n_or", "n_xor")):
            ev(j, {"ev": "sbits", "a": A, "b": Bv, "and": limbs(v["n_and"]["v"]), "or": limbs(v["n_or"]["v"]), "xor": limbs(v["n_xor"]["v"])},
               "signed bit_and/or/xor(%d, %d)" % (a, b))
        else:
            chk.violation("bitwise operators on (%d, %d) did not yield integers: %s" % (a, b, [v[x] for x in ("n_and", "n_or", "n_xor")]), {"kind": "bigint", "source": j["src"], "binding": "n_and"})
        for mk, qk, what in (("m8", "q8", "%d & 255" % a), ("m64", "q64", "%d & (2**64 - 1)" % a), ("m3", "q3", "%d & 3" % b)):
            if v[mk].get("t") == "int" and v[qk].get("t") == "int":
                ev(j, {"ev": "mask", "and": limbs(v[mk]["v"]), "mod": limbs(v[qk]["v"])}, what + " against the floored remainder")
        if not (a == 0 and b == 0) and v["r_gcd"].get("t") == "int" and v["a1"].get("t") == "int":
            ev(j, {"ev": "gcd", "a": A, "b": Bv, "g": limbs(v["r_gcd"]["v"]), "a1": limbs(v["a1"]["v"]), "b1": limbs(v["b1"]["v"]),
                   "cof1": v["cof"].get("v") is True}, "gcd(%d, %d)" % (a, b))
            if v["r_lcm"].get("t") == "int":
                ev(j, {"ev": "lcm", "a": A, "b": Bv, "l": limbs(v["r_lcm"]["v"]), "g": limbs(v["r_gcd"]["v"])}, "lcm(%d, %d)" % (a, b))
        if v["r_str"].get("t") == "str":
            ev(j, {"ev": "text", "a": A, "parsed": limbs(v["r_str"]["v"]) if re.fullmatch(r"-?\d+", v["r_str"]["v"]) else {"neg": False, "mag": [-1]}}, "to_str(%d)" % a)
        if v["r_back"].get("t") == "int":
            ev(j, {"ev": "text", "a": A, "parsed": limbs(v["r_back"]["v"])}, "to_int(to_str(%d))" % a)
        for nm, base in (("r_d10", 10), ("r_d7", 7), ("r_d16", 16), ("r_d9999", 9999)):
            d = v[nm]
            if d.get("t") == "seq" and all(x.get("t") == "int" for x in d["v"]) and d.get("len") == len(d["v"]):
                ev(j, {"ev": "digits", "a": limbs(abs(a)), "base": base, "ds": [int(x["v"]) for x in d["v"]]}, "digits(%d, %d)" % (abs(a), base))
        for route, pre in (("a2", "s"), ("a3", "t")):
            if v[route].get("t") == "int":
                ev(j, {"ev": "same", "a": A, "b": limbs(v[route]["v"]), "eq": v[pre + "_eq"].get("v") is True,
                       "samehash": v[pre + "_hash"].get("v") is True, "sametext": v[pre + "_text"].get("v") is True},
                   "route independence of %d (%s)" % (a, route))
    # XrBigInt decides, in parallel chunks
    from concurrent.futures import ThreadPoolExecutor
    chunks = [(b, events[b:b + 1500]) for b in range(0, len(events), 1500)]

    def validate(bc):
        b, chunk = bc
        bad = []
        off = 0
        rounds = 0
        states = 0
        while chunk and rounds < 8:
            rounds += 1
            d = vf.workdir("c14-tr-%d-%d" % (b, rounds))
            path = d + "/ev.ndjson"
            with open(path, "w") as f:
                for e in chunk:
                    f.write(json.dumps(e) + "\n")
            r = vf.tlc("XrBigInt", "XrBigInt.cfg", "c14-tlc-%d-%d" % (b, rounds), workers=1, env={"TRACE": path}, dfs=True, xmx="3g", timeout=1800)
            states += r.generated
            if '"TRACE_ACCEPTED"' in r.out:
                break
            m = re.search(r'<<"TRACE_REJECTED_AT", (\d+),', r.out)
            if not m:
                raise vf.ToolError("XrBigInt failed:\n" + r.out[-2000:])
            k = int(m.group(1)) - 1
            bad.append(b + off + k)
            off += k + 1
            chunk = chunk[k + 1:]
        return bad, states
    with ThreadPoolExecutor(max_workers=8) as ex:
        outs = list(ex.map(validate, chunks))
    chk.cov["traces_validated_against_impl"] += len(chunks)
    for bad, st in outs:
        chk.cov["states"] += st
        chk.cov["transitions"] += st
        for idx in bad:
            j, what = owner[idx]
            e = events[idx]
            chk.violation("%s is not exact: %s" % (what, json.dumps(e)[:260]),
                          {"kind": "bigint", "source": j["src"], "event": e, "what": what},
                          finding_key="bigint:" + e["ev"])
    chk.part("events", programs=len(jobs), events=len(events))
    if events:
        chk.sample({"what": owner[len(events) // 2][1], "event": events[len(events) // 2]})
    chk.cov["rule"] = ("operand pairs from {0, +-1, small, +-2^31, +-2^63 +-1, +-2^64, +-2^127 +-1, 2^128, powers of ten, random "
                       "1-400 bit}; per pair ~60 builtin results turned into events for XrBigInt; factorial(0..30) and binomial "
                       "rows; non-trivial = distinct program")
    chk.assumptions += ["int<->float conversion exactness and `div` (float result) are not covered (no reals in TLC)",
                        "gcd maximality is checked through the interpreter's own gcd of the cofactors; multinomials of more than three parts are not covered"]


def replay(chk, path):
    rp = json.load(open(path))
    o = vf.run_jobs([{"id": "r", "src": rp["source"], "observe": NAMES.findall(rp["source"])}], "replay")["r"]
    oc = vf.job_outcome(o)
    chk.count(1)
    chk.nontrivial("replay")
    chk.nontrivial(rp["source"])
    chk.sample({"source": rp["source"][:300], "outcome": oc})
    chk.violation("replay of an exactness violation: re-run `bin/check C14` to re-validate", rp) if oc != "ok" else None
    return chk.finish()
