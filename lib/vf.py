"""Common machinery of the xray verification driver (bin/check).

  build      cargo build of the harness against /repo's working tree (hooks on)
  tlc        run TLC (model checking / simulation / trace validation), parse its output
  xv         run jobs through the Rust runner, with crash isolation
  traces     normalise recorded events, validate them with Trace_XrRuntime
  evidence   evidence/<ID>.json, replays, known findings, VIOLATION lines
"""
import hashlib
import json
import os
import re
import shutil
import subprocess
import sys
import time
from concurrent.futures import ThreadPoolExecutor

ROOT = os.path.dirname(os.path.dirname(os.path.abspath(__file__)))
SPEC = os.path.join(ROOT, "spec")
HARNESS = os.path.join(ROOT, "harness")
XV = os.path.join(HARNESS, "target", "verif", "xv")
WORK = os.path.join(ROOT, "work")
EVID = os.path.join(ROOT, "evidence")
REPLAYS = os.path.join(ROOT, "replays")
REPO = os.environ.get("VERIF_REPO", "/repo")   # development only: background runs against a snapshot of /repo
NCPU = os.cpu_count() or 8


class ToolError(Exception):
    pass


def log(*a):
    print(*a, file=sys.stderr, flush=True)


def workdir(name):
    d = os.path.join(WORK, name)
    shutil.rmtree(d, ignore_errors=True)
    os.makedirs(d, exist_ok=True)
    return d


# --------------------------------------------------------------------------------------------
# build

def build():
    """(Re)build the harness from /repo's current working tree with hooks enabled."""
    t0 = time.time()
    env = dict(os.environ, CARGO_NET_OFFLINE="true")
    lock = os.path.join(HARNESS, "Cargo.lock")
    if REPO != "/repo":
        ct = os.path.join(HARNESS, "Cargo.toml")
        txt = open(ct).read()
        if 'path = "/repo"' in txt:
            open(ct, "w").write(txt.replace('path = "/repo"', 'path = "%s"' % REPO))
    if not os.path.exists(lock):
        shutil.copy(os.path.join(REPO, "Cargo.lock"), lock)
    p = subprocess.run(["cargo", "build", "--profile", "verif", "--offline", "-q"],
                       cwd=HARNESS, env=env, capture_output=True, text=True)
    if p.returncode != 0:
        errs = [l for l in p.stderr.splitlines() if l.startswith("error")]
        raise ToolError("cargo build failed: " + " | ".join(errs[:5]) + "\n" + p.stderr[-3000:])
    return time.time() - t0


# --------------------------------------------------------------------------------------------
# TLC

TLC_JAR = "/opt/veriftools/tla/tla2tools.jar"
CM_JAR = None


def _classpath():
    global CM_JAR
    if CM_JAR is None:
        cands = []
        for root, _, files in os.walk("/opt/veriftools/tla"):
            for f in files:
                if f.endswith(".jar"):
                    cands.append(os.path.join(root, f))
        CM_JAR = ":".join(sorted(cands, key=lambda x: (not x.endswith("tla2tools.jar"), x)))
    return CM_JAR


class TlcResult:
    def __init__(self, out, rc, wall):
        self.out = out
        self.rc = rc
        self.wall = wall
        self.generated = 0
        self.distinct = 0
        m = None
        for m in re.finditer(r"(\d+) states generated, (\d+) distinct states found", out):
            pass
        if m:
            self.generated = int(m.group(1))
            self.distinct = int(m.group(2))
        else:
            m = None
            for m in re.finditer(r"(\d+) states checked", out):
                pass
            if m:
                self.generated = self.distinct = int(m.group(1))
        self.ok = ("Model checking completed. No error has been found." in out) or \
                  ("Finished in" in out and "Error:" not in out and rc == 0)
        self.error_lines = [l for l in out.splitlines() if l.startswith("Error:")]

    def cases(self, tag="CASE"):
        """lines printed with PrintT(<<tag, ToJson(x)>>) -> list of parsed JSON values"""
        pre = '<<"%s", ' % tag
        res = []
        for line in self.out.splitlines():
            if line.startswith(pre) and line.endswith(">>"):
                lit = line[len(pre):-2]
                try:
                    res.append(json.loads(json.loads(lit)))
                except Exception:
                    pass
        return res

    def coverage_zero(self):
        """names of actions/lines with zero coverage, if -coverage was requested"""
        zero = []
        for line in self.out.splitlines():
            m = re.match(r"<(\w+) line (\d+), col \d+ to line \d+, col \d+ of module (\w+)>: 0:0", line)
            if m:
                zero.append("%s@%s:%s" % (m.group(1), m.group(3), m.group(2)))
        return zero


def tlc(module, cfg, name, workers=None, simulate=None, depth=None, seed=None, env=None,
        timeout=1800, coverage=False, dfs=False, xmx="4g", extra=None):
    """Run TLC on spec/<module>.tla with config file spec/<cfg> (or absolute path)."""
    meta = workdir("tlc-" + name)
    cfg_path = cfg if os.path.isabs(cfg) else os.path.join(SPEC, cfg)
    jopts = ["-Xss1g", "-Xmx" + xmx, "-XX:+UseParallelGC"]
    if dfs:
        jopts.append("-Dtlc2.tool.queue.IStateQueue=StateDeque")
    cmd = ["java"] + jopts + ["-cp", _classpath(), "tlc2.TLC",
           "-metadir", meta, "-cleanup", "-noGenerateSpecTE",
           "-config", cfg_path]
    if workers is None:
        workers = 1 if simulate else max(2, NCPU // 2)
    cmd += ["-workers", str(workers)]
    if simulate is not None:
        cmd += ["-simulate", "num=%d" % simulate]
        if depth:
            cmd += ["-depth", str(depth)]
    if seed is not None:
        cmd += ["-seed", str(seed)]
    if coverage:
        cmd += ["-coverage", "1"]
    if extra:
        cmd += extra
    cmd.append(module + ".tla")
    e = dict(os.environ)
    e.pop("JAVA_TOOL_OPTIONS", None)
    if env:
        e.update(env)
    t0 = time.time()
    try:
        p = subprocess.run(cmd, cwd=SPEC, env=e, capture_output=True, text=True, timeout=timeout)
    except subprocess.TimeoutExpired:
        raise ToolError("TLC timeout (%ss) on %s/%s" % (timeout, module, cfg))
    finally:
        shutil.rmtree(meta, ignore_errors=True)
    out = p.stdout + p.stderr
    r = TlcResult(out, p.returncode, time.time() - t0)
    return r


def sany(module):
    p = subprocess.run(["java", "-cp", _classpath(), "tla2sany.SANY", module + ".tla"],
                       cwd=SPEC, capture_output=True, text=True)
    return p.returncode == 0 and "Semantic errors" not in p.stdout and "*** Errors" not in p.stdout, p.stdout


# --------------------------------------------------------------------------------------------
# the Rust runner

def _run_xv(jobs, out_path, threads, timeout_ms, tag):
    d = os.path.dirname(out_path)
    jp = os.path.join(d, tag + ".jobs.ndjson")
    with open(jp, "w") as f:
        for j in jobs:
            f.write(json.dumps(j) + "\n")
    p = subprocess.run([XV, "run", jp, out_path, "--threads", str(threads),
                        "--timeout-ms", str(timeout_ms)],
                       capture_output=True, text=True)
    res = {}
    if os.path.exists(out_path):
        with open(out_path) as f:
            for line in f:
                line = line.strip()
                if not line:
                    continue
                try:
                    o = json.loads(line)
                except Exception:
                    continue
                res[o.get("id")] = o
    return p.returncode, res, p.stderr


def run_jobs(jobs, name, threads=None, timeout_ms=60000):
    """Run jobs; a job that kills the process (stack overflow, abort) is isolated and reported
    as {"crash": ...}. Returns {id: observation}."""
    if not jobs:
        return {}
    threads = threads or max(2, NCPU - 2)
    d = workdir("xv-" + name)
    ids = [j["id"] for j in jobs]
    assert len(set(ids)) == len(ids), "duplicate job ids"
    pending = list(jobs)
    results = {}
    rnd = 0
    while pending:
        rnd += 1
        rc, res, err = _run_xv(pending, os.path.join(d, "out%d.ndjson" % rnd), threads, timeout_ms,
                               "r%d" % rnd)
        results.update(res)
        missing = [j for j in pending if j["id"] not in res]
        if not missing:
            break
        if rc == 0 and missing:
            raise ToolError("xv exited 0 but %d jobs have no result" % len(missing))
        # the process died; isolate: run the missing ones one at a time per process (slow path)
        if len(missing) == len(pending) and len(pending) == 1:
            results[pending[0]["id"]] = {"id": pending[0]["id"], "crash": "rc=%s %s" % (rc, err[-300:])}
            break
        if len(missing) <= 8 or rnd > 3:
            for j in missing:
                rc1, res1, err1 = _run_xv([j], os.path.join(d, "solo.ndjson"), 1, timeout_ms, "solo")
                if j["id"] in res1:
                    results[j["id"]] = res1[j["id"]]
                else:
                    results[j["id"]] = {"id": j["id"], "crash": "rc=%s %s" % (rc1, err1[-300:])}
            break
        # otherwise retry the rest single-threaded-ish so that one crash loses less
        pending = missing
        threads = max(1, threads // 4)
    # A watchdog expiry under a loaded machine is not evidence of a hang: every timed-out job is run
    # again, few at a time, with four times the budget; only a second expiry stands.
    slow = [j for j in jobs if "timeout" in results.get(j["id"], {})]
    if slow and name != "confirm":
        again = []
        for j in slow[:48]:
            j2 = dict(j)
            j2["timeout_ms"] = 4 * int(j.get("timeout_ms") or timeout_ms)
            again.append(j2)
        res2 = run_jobs(again, "confirm", threads=3, timeout_ms=4 * timeout_ms)
        for j in again:
            r2 = res2.get(j["id"])
            if r2 is not None:
                if "timeout" not in r2:
                    r2["slow_first_try"] = True
                results[j["id"]] = r2
    return results


def signatures():
    d = workdir("sigs")
    p = os.path.join(d, "sigs.json")
    subprocess.run([XV, "signatures", p], check=True)
    return json.load(open(p))


# --------------------------------------------------------------------------------------------
# traces

_PERM_RE = re.compile(r'PermissionError\("(\w+)"\)')


def norm_outcome(o):
    m = _PERM_RE.match(o or "")
    if m:
        return "PermissionError_" + m.group(1)
    return o


def _n(v):
    return -1 if v is None else v


def normalise_events(events, perms=None):
    """Representation changes only (TLC cannot read null and has no string functions):
    null limits -> -1, PermissionError("x") -> PermissionError_x, the job's permission table is
    attached to InstBegin. No event is added, dropped, reordered or given guessed state."""
    out = []
    for e in events:
        ev = e["ev"]
        if ev == "InstBegin":
            L = e["limits"]
            ptab = {}
            for pid in ("now", "print", "print_debug", "random", "regex", "sleep"):
                v = (perms or {}).get(pid)
                ptab[pid] = "unset" if v is None else ("allow" if v else "forbid")
            out.append({"ev": ev, "total": e["total"],
                        "limits": {k: _n(L.get(k)) for k in
                                   ("size", "depth", "recursion", "calls", "search", "time")},
                        "perms": ptab})
        elif ev in ("InstEnd", "RunEnd"):
            out.append({"ev": ev, "outcome": norm_outcome(e["outcome"]), "total": e["total"],
                        "calls": e["calls"]})
        elif ev in ("Frame", "Tail"):
            f = dict(e)
            f["limit"] = _n(e.get("limit"))
            out.append(f)
        elif ev == "Alloc":
            out.append({"ev": ev, "size": e["size"], "payload": e["payload"], "total": e["total"],
                        "limit": e["limit"]})
        else:
            out.append(e)
    return out


MAX_INT = 2 ** 31 - 1


def trace_fits(events):
    for e in events:
        for v in e.values():
            if isinstance(v, int) and not isinstance(v, bool) and abs(v) > MAX_INT:
                return False
    return True


def validate_traces(traces, name, per_file=25, procs=None, timeout=900, max_rejects=12):
    """traces: list of (trace_id, normalised events). Validates with Trace_XrRuntime.
    Returns (n_accepted, rejects, states) where rejects = [(trace_id, index, event, reason)]."""
    procs = procs or max(2, NCPU // 2)
    d = workdir("tr-" + name)
    groups = []
    cur, cur_n = [], 0
    for tid, evs in traces:
        if not trace_fits(evs):
            raise ToolError("trace %s has integers beyond TLC's 32-bit range" % tid)
        cur.append((tid, evs))
        cur_n += len(evs)
        if len(cur) >= per_file or cur_n > 60000:
            groups.append(cur)
            cur, cur_n = [], 0
    if cur:
        groups.append(cur)

    total_rejects = [0]

    def run_group(gi_group):
        gi, group = gi_group
        accepted, rejects, states = 0, [], 0
        todo = list(group)
        rounds = 0
        while todo:
            if total_rejects[0] >= max_rejects:
                break        # enough counterexamples; the rest is left unvalidated (and uncounted)
            rounds += 1
            path = os.path.join(d, "g%d_%d.ndjson" % (gi, rounds))
            index = []  # (first line (1-based), last line, tid)
            with open(path, "w") as f:
                line = 0
                for k, (tid, evs) in enumerate(todo):
                    if k > 0:
                        f.write('{"ev":"Reset"}\n')
                        line += 1
                    first = line + 1
                    for e in evs:
                        f.write(json.dumps(e) + "\n")
                    line += len(evs)
                    index.append((first, line, tid))
            r = tlc("Trace_XrRuntime", "Trace_XrRuntime.cfg", "%s-g%d-%d" % (name, gi, rounds),
                    workers=1, env={"TRACE": path}, timeout=timeout, dfs=True, xmx="2g")
            states += r.generated
            if '"TRACE_ACCEPTED"' in r.out:
                accepted += len(todo)
                break
            # rejected: find the index of the first unmatched line
            bad = None
            reason = "no action of XrRuntime matches the event"
            m = re.search(r'<<"TRACE_REJECTED_AT", (\d+), (.*)>>', r.out)
            if m:
                bad = int(m.group(1))
            else:
                m2 = re.search(r"Invariant (\w+) is violated", r.out)
                if m2:
                    reason = "invariant %s violated" % m2.group(1)
                    ls = re.findall(r"/\\ l = (\d+)", r.out)
                    if ls:
                        bad = int(ls[-1]) - 1   # the event that led into the violating state
                if bad is None:
                    raise ToolError("TLC trace validation failed unexpectedly:\n" + r.out[-3000:])
            # which trace does line `bad` belong to
            hit = None
            for k, (first, last, tid) in enumerate(index):
                if first - 1 <= bad <= last:   # first-1 = the Reset line before it
                    hit = k
                    break
            if hit is None:
                hit = len(index) - 1
            first, last, tid = index[hit]
            evs = todo[hit][1]
            local = bad - first
            if bad == first - 1:
                # the Reset itself was refused: the *previous* trace did not wind up
                hit -= 1
                first, last, tid = index[hit]
                evs = todo[hit][1]
                local = len(evs)
                reason = "run did not end in a wound-up state (no Dropped / still active)"
            ev = evs[local] if 0 <= local < len(evs) else None
            accepted += hit
            total_rejects[0] += 1
            rejects.append((tid, local, ev, reason))
            todo = todo[hit + 1:]
        return accepted, rejects, states

    with ThreadPoolExecutor(max_workers=procs) as ex:
        outs = list(ex.map(run_group, list(enumerate(groups))))
    acc = sum(o[0] for o in outs)
    rej = [x for o in outs for x in o[1]]
    st = sum(o[2] for o in outs)
    shutil.rmtree(d, ignore_errors=True)
    return acc, rej, st


# --------------------------------------------------------------------------------------------
# evidence / violations / known findings

def load_known():
    p = os.path.join(ROOT, "known_findings.json")
    if os.path.exists(p):
        return json.load(open(p))
    return {"findings": [], "fixed": []}


class Check:
    """Bookkeeping of one `bin/check <ID>` invocation."""

    def __init__(self, pid, tier, seed, level):
        self.pid = pid
        self.tier = tier
        self.seed = seed
        self.level = level
        self.t0 = time.time()
        self.violations = []
        self.known_seen = {}
        self.cov = {"evaluations": 0, "distinct_nontrivial": 0, "rule": "", "samples": [],
                    "states": 0, "transitions": 0, "traces_validated_against_impl": 0,
                    "exhaustive": False, "parts": {}}
        self._distinct = set()
        self.assumptions = []
        self.known = [f for f in load_known().get("findings", []) if f.get("property") == pid]
        os.makedirs(EVID, exist_ok=True)
        os.makedirs(REPLAYS, exist_ok=True)

    # -- counting
    def add_tlc(self, r):
        self.cov["states"] += r.distinct
        self.cov["transitions"] += r.generated

    def count(self, n=1):
        self.cov["evaluations"] += n

    def nontrivial(self, key):
        h = hashlib.sha1(json.dumps(key, sort_keys=True).encode()).hexdigest()
        self._distinct.add(h)

    def sample(self, s, cap=6):
        if len(self.cov["samples"]) < cap:
            self.cov["samples"].append(s)

    def part(self, name, **kw):
        self.cov["parts"].setdefault(name, {}).update(kw)

    # -- outcomes
    def match_known(self, finding_key):
        for f in self.known:
            if f.get("key") == finding_key:
                return f
        return None

    def violation(self, what, replay, finding_key=None):
        """report a violation unless it is exactly a listed known finding"""
        if finding_key is not None:
            f = self.match_known(finding_key)
            if f is not None:
                self.known_seen.setdefault(finding_key, f.get("what", what))
                return
        if len(self.violations) >= 25:
            self.violations.append(None)
            if os.environ.get("VERIF_VERBOSE"):
                log("  (no replay written)", what)
            return
        n = len(self.violations) + 1
        path = os.path.join(REPLAYS, "%s-%s-%d.json" % (self.pid, self.tier, n))
        replay = dict(replay)
        replay.setdefault("property", self.pid)
        replay.setdefault("what", what)
        with open(path, "w") as f:
            json.dump(replay, f, indent=1, sort_keys=True, default=str)
        self.violations.append(path)
        print("VIOLATION property=%s replay=%s" % (self.pid, path), flush=True)
        log("  ", what)
        if os.environ.get("VERIF_VERBOSE") and finding_key:
            log("   finding_key:", finding_key)

    def finish(self):
        self.cov["distinct_nontrivial"] = len(self._distinct)
        for k, w in sorted(self.known_seen.items()):
            print("KNOWN-FINDING: property=%s %s" % (self.pid, w), flush=True)
        self.cov["known_findings_seen"] = sorted(self.known_seen)
        ev = {
            "property_id": self.pid,
            "tier": self.tier,
            "seed": self.seed,
            "level": self.level,
            "coverage": self.cov,
            "assumptions": self.assumptions,
            "wall_s": round(time.time() - self.t0, 2),
            "violations": len(self.violations),
        }
        if not self.cov["samples"]:
            self.cov["samples"] = ["<no case was generated>"]
        with open(os.path.join(EVID, self.pid + ".json"), "w") as f:
            json.dump(ev, f, indent=1, sort_keys=True, default=str)
        return 1 if self.violations else 0


# --------------------------------------------------------------------------------------------
# shared: validate the recorded traces of a set of jobs and report rejections

def job_outcome(r):
    """one-word outcome class of an observation"""
    if r is None:
        return "missing"
    if "crash" in r:
        return "crash"
    if "timeout" in r:
        return "timeout"
    c = r.get("compile", {})
    if "panic" in c:
        return "compile_panic"
    if not c.get("ok"):
        return "compile_err"
    i = r.get("inst", {})
    if "panic" in i:
        return "inst_panic"
    if "violation" in i:
        return "inst_" + norm_outcome(i["violation"])
    for k in r.get("calls", []):
        if "panic" in k or "dump_panic" in k:
            return "run_panic"
    for k in r.get("calls", []):
        if "violation" in k:
            return "run_" + norm_outcome(k["violation"])
    return "ok"


def validate_job_traces(chk, jobs, results, name, what="resource trace", finding_key=None):
    """Validate the event traces of `jobs` (those recorded with trace=True) against XrRuntime.
    Each rejection is a violation of chk's property. Returns number of accepted traces."""
    traces = []
    byid = {}
    for j in jobs:
        r = results.get(j["id"])
        if not r or "events" not in r:
            continue
        ev = normalise_events(r["events"], j.get("perms"))
        if not trace_fits(ev):
            continue
        traces.append((j["id"], ev))
        byid[j["id"]] = (j, ev)
    if not traces:
        return 0
    acc, rej, st = validate_traces(traces, name)
    chk.cov["traces_validated_against_impl"] += acc + len(rej)
    chk.cov["states"] += st
    chk.cov["transitions"] += st
    for tid, idx, ev, reason in rej:
        j, evs = byid[tid]
        key = finding_key(j, idx, ev, reason) if finding_key else None
        chk.violation(
            "%s rejected by XrRuntime at event %d (%s): %s" % (what, idx, json.dumps(ev), reason),
            {"kind": "trace", "spec": "Trace_XrRuntime", "job": {k: v for k, v in j.items()},
             "event_index": idx, "event": ev, "reason": reason,
             "context": evs[max(0, idx - 6): idx + 3]},
            finding_key=key)
    return acc


def replay_trace_job(chk, rp):
    """re-run a trace-kind replay file against the current tree"""
    job = dict(rp["job"])
    job["trace"] = True
    res = run_jobs([job], "replay")
    n = validate_job_traces(chk, [job], res, "replay")
    chk.count(1)
    chk.sample({"replayed": job.get("id"), "accepted": n})
    chk.nontrivial(job.get("id"))
    chk.nontrivial("replay")
    return chk.finish()


# --------------------------------------------------------------------------------------------
# record acceptors (XrMapRepr, XrSeqRepr, ...): one ndjson line per record, TLC consumes them in order

def accept_records(chk, module, records, name, chunk=5000, cfg=None):
    """Feed `records` (dicts; keys starting with "_" are stripped) to the acceptor `module`.
    Returns the list of rejected records; validation continues after each rejection."""
    rejected = []
    for b in range(0, len(records), chunk):
        part = records[b:b + chunk]
        while part:
            d = workdir("acc-" + name)
            path = os.path.join(d, "records.ndjson")
            with open(path, "w") as f:
                for t in part:
                    f.write(json.dumps({k: v for k, v in t.items() if not k.startswith("_")}) + "\n")
            rr = tlc(module, cfg or (module + ".cfg"), "acc-" + name + "-tlc", workers=1, env={"TRACE": path}, dfs=True)
            chk.add_tlc(rr)
            chk.cov["traces_validated_against_impl"] += 1
            if '"TRACE_ACCEPTED"' in rr.out:
                break
            m = re.search(r'<<"TRACE_REJECTED_AT", (\d+),', rr.out)
            if not m:
                raise ToolError("%s failed:\n%s" % (module, rr.out[-2000:]))
            k = int(m.group(1)) - 1
            rejected.append(part[k])
            part = part[k + 1:]
    return rejected
