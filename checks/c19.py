"""C19 - Derived equality, hash, order and text are coherent; sorting is right.

Decided by XrOrder (structural eq and lexicographic cmp on nested values with the order laws
checked by TLC on the model; integer format specifiers by the documented grammar), XrSort (stable
ordered permutation) and XrRuntime (a comparator failing at the k-th comparison, for every k,
leaves the accounting balanced: nothing lost, duplicated or leaked)."""
import json
import random

import vf

LEVEL = "model_checking"

TYPES = {"int": "int", "str": "str", "bool": "bool", "tup_int_str": "(int, str)", "seq_int": "Sequence<int>",
         "seq_str": "Sequence<str>", "opt_int": "Optional<int>", "seq_seq_int": "Sequence<Sequence<int>>",
         "seq_tup": "Sequence<(int, str)>", "tup_seq_int": "(Sequence<int>, int)"}


def lit(v, ty=None):
    t = v["t"]
    if t == "int":
        return str(v["v"]) if v["v"] >= 0 else "(%d)" % v["v"]
    if t == "bool":
        return "true" if v["v"] else "false"
    if t == "str":
        return '"%s"' % v["v"]
    if t == "seq":
        return "[%s]" % ", ".join(lit(x) for x in v["v"])
    if t == "struct":
        xs = [lit(x) for x in v["v"]]
        return "(%s,)" % xs[0] if len(xs) == 1 else "(%s)" % ", ".join(xs)
    if t == "opt":
        return "some(%s)" % lit(v["v"]) if v["has"] else "none()"
    raise ValueError(t)


def sort_programs(rnd, tier):
    ins = []
    sizes = [0, 1, 2, 3, 5, 8, 13, 19, 20, 21, 22, 25, 40, 64, 100, 200]
    for i, n in enumerate(sizes * (1 if tier == "quick" else 6)):
        kind = rnd.choice(["rand", "rand", "fewkeys", "sorted", "reversed", "almost"])
        if kind == "rand":
            keys = [rnd.randint(0, 50) for _ in range(n)]
        elif kind == "fewkeys":
            keys = [rnd.randint(0, 2) for _ in range(n)]
        elif kind == "sorted":
            keys = sorted(rnd.randint(0, 9) for _ in range(n))
        elif kind == "reversed":
            keys = sorted((rnd.randint(0, 9) for _ in range(n)), reverse=True)
        else:
            keys = sorted(rnd.randint(0, 9) for _ in range(n))
            if n > 2:
                j = rnd.randrange(n)
                keys[j] = rnd.randint(0, 9)
        ins.append({"id": "s%d" % i, "keys": keys})
    return ins


CMPFN = "(p: (int, int), q: (int, int)) -> {cmp(p::item0, q::item0)}"


def run(chk, tier, seed):
    rnd = random.Random(seed)
    r = vf.tlc("XrOrder", "XrOrder.cfg", "c19-order", workers=1, timeout=3000)
    if not r.ok:
        raise vf.ToolError("XrOrder failed (an order law does not hold on the model?):\n" + r.out[-2500:])
    chk.add_tlc(r)
    cases = r.cases()
    pairs = [c for c in cases if c["mode"] == "pair"]
    fmts = [c for c in cases if c["mode"] == "format"]
    if tier == "quick":
        fmts = fmts[seed % 4::4]
    # ---- A: eq / cmp / relations / text / hash on typed pairs
    jobs, meta = [], {}
    B = 25
    for b in range(0, len(pairs), B):
        chunk = pairs[b:b + B]
        L = []
        for k, c in enumerate(chunk):
            T = TYPES[c["ty"]]
            L.append("let a%d: %s = %s;\nlet b%d: %s = %s;" % (k, T, lit(c["a"]), k, T, lit(c["b"])))
            L.append("let eq%d = a%d == b%d;\nlet ne%d = a%d != b%d;" % (k, k, k, k, k, k))
            L.append("let hh%d = hash(a%d) == hash(b%d);\nlet hr%d = hash(a%d) >= 0 && hash(a%d) < 2 ** 64;" % (k, k, k, k, k, k))
            if c["cmp"] != 99:
                L.append("let cm%d = cmp(a%d, b%d);\nlet lt%d = a%d < b%d;\nlet le%d = a%d <= b%d;\nlet gt%d = a%d > b%d;\nlet ge%d = a%d >= b%d;" %
                         (k, k, k, k, k, k, k, k, k, k, k, k, k, k, k))
            if c["ty"] != "opt_int" or True:
                L.append("let ts%d = a%d.to_str();" % (k, k))
            if c["ty"] in ("int", "str"):
                L.append('let fe%d = format(a%d, "") == a%d.to_str();' % (k, k, k))
        src = "\n".join(L) + "\n"
        names = [x.split(" ")[1].rstrip(":") for x in src.split("\n") if x.startswith("let ")]
        jid = "pair%d" % b
        jobs.append({"id": jid, "src": src, "observe": names})
        meta[jid] = chunk
    res = vf.run_jobs(jobs, "c19-pairs")
    for j in jobs:
        o = res[j["id"]]
        if vf.job_outcome(o) != "ok":
            chk.violation("order program: %s %s" % (vf.job_outcome(o), str(o.get("compile", {}).get("msg") or o.get("inst"))[:300]),
                          {"kind": "order", "source": j["src"]})
            continue
        v = o["values"]
        for k, c in enumerate(meta[j["id"]]):
            chk.count(1)
            chk.nontrivial([c["ty"], c["a"], c["b"]])
            exp = {"eq": c["eq"], "ne": not c["eq"]}
            if c["cmp"] != 99:
                exp.update({"lt": c["cmp"] < 0, "le": c["cmp"] <= 0, "gt": c["cmp"] > 0, "ge": c["cmp"] >= 0})
            bad = None
            for nm, want in exp.items():
                if v["%s%d" % (nm, k)].get("v") is not want:
                    bad = "%s(%s, %s) expected %s, observed %s" % (nm, lit(c["a"]), lit(c["b"]), want, v["%s%d" % (nm, k)])
            if not bad and c["cmp"] != 99:
                got = v["cm%d" % k]
                s = (int(got["v"]) > 0) - (int(got["v"]) < 0) if got.get("t") == "int" else None
                if s != c["cmp"]:
                    bad = "cmp(%s, %s) expected sign %d, observed %s" % (lit(c["a"]), lit(c["b"]), c["cmp"], got)
            if not bad and c["eq"] and v["hh%d" % k].get("v") is not True:
                bad = "equal values %s hash differently" % lit(c["a"])
            if not bad and v["hr%d" % k].get("v") is not True:
                bad = "hash(%s) outside [0, 2^64)" % lit(c["a"])
            if not bad and c["text"] != "?" and v["ts%d" % k].get("v") != c["text"]:
                bad = "to_str(%s) expected %r, observed %s" % (lit(c["a"]), c["text"], v["ts%d" % k])
            if not bad and v["ts%d" % k].get("t") != "str":
                bad = "to_str(%s) is not a string: %s" % (lit(c["a"]), v["ts%d" % k])
            if not bad and ("fe%d" % k) in v and v["fe%d" % k].get("v") is not True:
                bad = 'format(%s, "") differs from to_str' % lit(c["a"])
            if bad:
                chk.violation(bad, {"kind": "order", "source": j["src"], "case": c, "index": k})
    # ---- B: format specifiers
    fj, fmeta = [], {}
    for b in range(0, len(fmts), 60):
        chunk = fmts[b:b + 60]
        src = "".join('let f%d = format(%s, "%s");\n' % (k, c["x"] if c["x"] >= 0 else "(%d)" % c["x"], c["spec"]) for k, c in enumerate(chunk))
        fj.append({"id": "fmt%d" % b, "src": src, "observe": ["f%d" % k for k in range(len(chunk))]})
        fmeta["fmt%d" % b] = chunk
    fres = vf.run_jobs(fj, "c19-fmt")
    for j in fj:
        o = fres[j["id"]]
        if vf.job_outcome(o) != "ok":
            chk.violation("format program: %s %s" % (vf.job_outcome(o), str(o.get("compile", {}).get("msg") or o.get("inst"))[:300]), {"kind": "format", "source": j["src"]})
            continue
        for k, c in enumerate(fmeta[j["id"]]):
            chk.count(1)
            chk.nontrivial([c["x"], c["spec"]])
            got = o["values"]["f%d" % k]
            if got.get("v") != c["v"]:
                chk.violation('format(%d, "%s") expected %r, observed %r' % (c["x"], c["spec"], c["v"], got.get("v", got)),
                              {"kind": "format", "source": 'let f0 = format(%s, "%s");\n' % (c["x"] if c["x"] >= 0 else "(%d)" % c["x"], c["spec"]), "expected": c["v"], "observed": got},
                              finding_key="format:" + c["spec"])
    # ---- B1: float format specifiers in the fixed-point modes (rounding, grouping of the rounded digits, sign, padding)
    ffs = [c for c in cases if c["mode"] == "fformat"]
    if tier == "quick":
        ffs = [c for k, c in enumerate(ffs) if (k + seed) % 3 == 0 or "," in c["spec"] or "_" in c["spec"]]

    def flit(c):
        t = repr(c["num"] / c["den"])
        return "(-%s)" % t if c["neg"] else t
    gj, gmeta = [], {}
    for b in range(0, len(ffs), 80):
        chunk = ffs[b:b + 80]
        src = "".join('let f%d = format(%s, "%s");\n' % (k, flit(c), c["spec"]) for k, c in enumerate(chunk))
        gj.append({"id": "ff%d" % b, "src": src, "observe": ["f%d" % k for k in range(len(chunk))]})
        gmeta["ff%d" % b] = chunk
    gres = vf.run_jobs(gj, "c19-ffmt")
    for j in gj:
        o = gres[j["id"]]
        if vf.job_outcome(o) != "ok":
            chk.violation("float format program: %s %s" % (vf.job_outcome(o), str(o.get("compile", {}).get("msg") or o.get("inst"))[:300]), {"kind": "format", "source": j["src"]})
            continue
        for k, c in enumerate(gmeta[j["id"]]):
            chk.count(1)
            chk.nontrivial([c["num"], c["den"], c["spec"]])
            got = o["values"]["f%d" % k]
            if got.get("v") != c["v"]:
                chk.violation('format(%s, "%s") expected %r, observed %r' % (flit(c), c["spec"], c["v"], got.get("v", got)),
                              {"kind": "format", "source": 'let f0 = format(%s, "%s");\n' % (flit(c), c["spec"]), "expected": c["v"], "observed": got},
                              finding_key="fformat:" + c["spec"])
    # ---- B2: str format specifiers (fill / align / width in characters)
    from checks import c18
    sf = [c for c in cases if c["mode"] == "sformat"]
    sj, smeta = [], {}
    for b in range(0, len(sf), 60):
        chunk = sf[b:b + 60]
        src = "".join('let f%d = format(%s, "%s");\n' % (k, json.dumps(c18.s_of(c["x"]), ensure_ascii=False), c["spec"]) for k, c in enumerate(chunk))
        sj.append({"id": "sfmt%d" % b, "src": src, "observe": ["f%d" % k for k in range(len(chunk))]})
        smeta["sfmt%d" % b] = chunk
    sres = vf.run_jobs(sj, "c19-sfmt")
    for j in sj:
        o = sres[j["id"]]
        if vf.job_outcome(o) != "ok":
            chk.violation("str format program: %s %s" % (vf.job_outcome(o), str(o.get("compile", {}).get("msg") or o.get("inst"))[:300]), {"kind": "format", "source": j["src"]})
            continue
        for k, c in enumerate(smeta[j["id"]]):
            chk.count(1)
            chk.nontrivial([c["x"], c["spec"], "s"])
            text = c18.s_of(c["x"])
            want = c["fill"] * c["pre"] + text + c["fill"] * c["post"]
            got = o["values"]["f%d" % k]
            if got.get("v") != want:
                chk.violation('format(%r, "%s") expected %r, observed %r' % (text, c["spec"], want, got.get("v", got)),
                              {"kind": "format", "source": 'let f0 = format(%s, "%s");\n' % (json.dumps(text, ensure_ascii=False), c["spec"]), "expected": want, "observed": got},
                              finding_key="sformat:" + c["spec"])
    # ---- C: sorting and order statistics against the stable reference
    ins = sort_programs(rnd, tier)
    fins = [{"id": "f%d" % n, "keys": [rnd.randint(0, 9) for _ in range(n)]} for n in ([3, 8, 23] if tier == "quick" else [3, 5, 8, 21, 23, 27, 45])]
    fins.append({"id": "fs", "keys": sorted(rnd.randint(0, 9) for _ in range(24))})
    d = vf.workdir("c19-sort")
    with open(d + "/in.ndjson", "w") as f:
        for x in ins + fins:
            f.write(json.dumps(x) + "\n")
    rs = vf.tlc("XrSort", "XrSort.cfg", "c19-sort-tlc", workers=1, env={"SORTIN": d + "/in.ndjson"}, timeout=3000, xmx="6g")
    if not rs.ok:
        raise vf.ToolError("XrSort failed:\n" + rs.out[-2000:])
    chk.add_tlc(rs)
    ref = {c["id"]: c["sorted"] for c in rs.cases()}
    sj = []
    for x in ins:
        arr = "[%s]" % ", ".join("(%d, %d)" % (k, i) for i, k in enumerate(x["keys"])) if x["keys"] else "[(0, 0)].skip(1)"
        n = len(x["keys"])
        src = "let xs: Sequence<(int, int)> = %s;\nlet sorted = xs.sort(%s);\n" % (arr, CMPFN)
        src += "let ks = xs.map((p: (int, int)) -> {p::item0}).to_array();\nlet sk = ks.sort();\n"
        if n >= 3:
            src += "let ns = ks.n_smallest(3);\nlet nl = ks.n_largest(3);\nlet t1 = ks.nth_smallest(1);\nlet u1 = ks.nth_largest(0);\n"
        sj.append({"id": x["id"], "src": src, "observe": ["sorted", "sk"] + (["ns", "nl", "t1", "u1"] if n >= 3 else []),
                   "max_elems": 256, "limits": {"calls": 10 ** 7}})
    sres = vf.run_jobs(sj, "c19-sort")
    for j, x in zip(sj, ins):
        o = sres[j["id"]]
        chk.count(1)
        chk.nontrivial(x["keys"])
        if vf.job_outcome(o) != "ok":
            chk.violation("sort program: %s %s" % (vf.job_outcome(o), str(o.get("compile", {}).get("msg") or o.get("inst"))[:300]), {"kind": "sort", "source": j["src"]})
            continue
        exp = ref[x["id"]]
        got = [[int(p["v"][0]["v"]), int(p["v"][1]["v"])] for p in o["values"]["sorted"]["v"]]
        keys_sorted = [e[0] for e in exp]
        bad = None
        if got != [list(e) for e in exp]:
            bad = "sort of %d elements: expected %s..., observed %s..." % (len(exp), exp[:8], got[:8])
        elif [int(p["v"]) for p in o["values"]["sk"]["v"]] != keys_sorted:
            bad = "dynamic sort() of the keys differs from the reference"
        elif len(exp) >= 3:
            v = o["values"]
            if [int(p["v"]) for p in v["ns"]["v"]] != keys_sorted[:3]:
                bad = "n_smallest(3) = %s, reference %s" % (v["ns"]["v"], keys_sorted[:3])
            elif [int(p["v"]) for p in v["nl"]["v"]] != keys_sorted[::-1][:3]:
                bad = "n_largest(3) = %s, reference %s" % (v["nl"]["v"], keys_sorted[::-1][:3])
            elif int(v["t1"].get("v", -99)) != keys_sorted[1]:
                bad = "nth_smallest(1) = %s, reference %s" % (v["t1"], keys_sorted[1])
            elif int(v["u1"].get("v", -99)) != keys_sorted[-1]:
                bad = "nth_largest(0) = %s, reference %s" % (v["u1"], keys_sorted[-1])
        if bad:
            chk.violation(bad, {"kind": "sort", "source": j["src"], "expected": exp, "keys": x["keys"]}, finding_key="sort")
    # ---- D: a comparator failing at the k-th comparison, for every k
    fail_jobs = []
    for n in ([8, 27] if tier == "quick" else [3, 8, 21, 27, 45, 64]):
        keys = [rnd.randint(0, 9) for _ in range(n)]
        arr = "[%s]" % ", ".join("(%d, %d)" % (k, i) for i, k in enumerate(keys))
        src = "let xs: Sequence<(int, int)> = %s;\nfn main()->int { xs.sort(%s).len() }\n" % (arr, CMPFN)
        base = vf.run_jobs([{"id": "b", "src": src, "calls": [{"op": "run", "fn": "main"}], "limits": {"calls": 10 ** 8, "size": 2 ** 30}}], "c19-fbase")["b"]
        need = base["counters"]["calls_final"]
        ks = range(1, need + 2) if tier == "thorough" or need < 40 else sorted(set(rnd.sample(range(1, need + 2), 30)) | {1, 2, need, need + 1})
        for k in ks:
            fail_jobs.append({"id": "fail%d_%d" % (n, k), "src": src, "calls": [{"op": "run", "fn": "main"}], "trace": True,
                              "limits": {"calls": k, "size": 2 ** 30}, "_need": need, "_k": k})
        # an error from the comparator is the result of the sort
        esrc = "let xs: Sequence<(int, int)> = %s;\nlet r = xs.sort((p: (int, int), q: (int, int)) -> {if(p::item1 == %d || q::item1 == %d, error(\"poison\"), cmp(p::item0, q::item0))});\nlet e = get_error(r.len());\n" % (arr, n // 2, n // 2)
        fail_jobs.append({"id": "err%d" % n, "src": esrc, "observe": ["e"], "trace": True, "limits": {"size": 2 ** 30}, "_err": True})
    fres = vf.run_jobs([{k: v for k, v in j.items() if not k.startswith("_")} for j in fail_jobs], "c19-fail")
    chk.count(len(fail_jobs))
    for j in fail_jobs:
        o = fres[j["id"]]
        oc = vf.job_outcome(o)
        chk.nontrivial(j["id"])
        if j.get("_err"):
            e = o.get("values", {}).get("e", {})
            if oc != "ok" or not (e.get("t") == "opt" and e.get("v") and e["v"].get("v") == "poison"):
                chk.violation("a comparator that yields an error must make the sort yield that error: %s %s" % (oc, e), {"kind": "sort-fail", "source": j["src"]})
            continue
        want = "run_MaximumUDCall" if j["_need"] >= j["_k"] else "ok"
        if oc != want:
            chk.violation("sort with comparator budget %d of %d: expected %s, observed %s" % (j["_k"], j["_need"], want, oc),
                          {"kind": "sort-fail", "source": j["src"], "limits": j["limits"]})
    vf.validate_job_traces(chk, [{k: v for k, v in j.items() if not k.startswith("_")} for j in fail_jobs], fres, "c19-fail", "failing-comparator trace")
    # ---- D2: a comparator that fails on ONE ordered pair only.  Whether the sort ever asks that question in that
    # order is the algorithm's business; the comparator prints when it does, and then the sort must yield that
    # error - otherwise it must yield the stable reference permutation
    aj = []
    for x in fins:
        n = len(x["keys"])
        arr = "[%s]" % ", ".join("(%d, %d)" % (k, i) for i, k in enumerate(x["keys"]))
        qpairs = set()
        for i in range(0, n - 1, max(1, n // 6)):
            qpairs |= {(i, i + 1), (i + 1, i)}
        while len(qpairs) < min(16, n * (n - 1)):
            a, b = rnd.randrange(n), rnd.randrange(n)
            if a != b:
                qpairs.add((a, b))
        for a, b in sorted(qpairs):
            src = ("let xs: Sequence<(int, int)> = %s;\nlet r = xs.sort((p: (int, int), q: (int, int)) -> {if(p::item1 == %d && q::item1 == %d, "
                   "error(display(\"asked %d %d\")), cmp(p::item0, q::item0))});\nlet e = get_error(r.len());\n" % (arr, a, b, a, b))
            aj.append({"id": "asym_%s_%d_%d" % (x["id"], a, b), "src": src, "observe": ["r", "e"], "max_elems": 256, "limits": {"calls": 10 ** 7}, "_x": x, "_ab": (a, b)})
    ares = vf.run_jobs([{k: v for k, v in j.items() if not k.startswith("_")} for j in aj], "c19-asym")
    asked = 0
    for j in aj:
        o = ares[j["id"]]
        oc = vf.job_outcome(o)
        chk.count(1)
        chk.nontrivial(j["id"])
        if oc != "ok":
            chk.violation("sort program: %s %s" % (oc, str(o.get("compile", {}).get("msg") or o.get("inst"))[:300]), {"kind": "sort-fail", "source": j["src"]})
            continue
        hit = "asked %d %d" % j["_ab"] in (o.get("stdout") or "")
        asked += hit
        e, rv = o["values"]["e"], o["values"]["r"]
        if hit:
            good = e.get("t") == "opt" and e.get("v") and e["v"].get("v") == "asked %d %d" % j["_ab"]
            want = "the comparator's error (it was asked the failing question)"
        else:
            exp = ref[j["_x"]["id"]]
            good = rv.get("t") == "seq" and [[int(p["v"][0]["v"]), int(p["v"][1]["v"])] for p in rv["v"]] == [list(p) for p in exp]
            want = "the stable permutation (the failing question was never asked)"
        if not good:
            chk.violation("sort of %d elements with a comparator failing only on (%d, %d): expected %s, observed %s" %
                          (len(j["_x"]["keys"]), j["_ab"][0], j["_ab"][1], want, json.dumps(rv)[:160]),
                          {"kind": "sort-fail", "source": j["src"]}, finding_key="sort-asym")
    chk.part("asymmetric_comparators", runs=len(aj), failing_question_asked=asked)
    # ---- D3: persistent stacks incl. stacks that share element values (XrStack): structural ==, equal hashes
    import poolcheck
    poolcheck.run_pool(chk, "XrStack", "XrStack.cfg", "c19-stack", 500 if tier == "quick" else 3000, 14, seed, kind="stack")
    # ---- E: collections reached through different histories are equal and hash equally
    hsrc = ("let s0 = set<int>();\nlet s1 = s0.add(1).remove(1);\nlet e1 = s0 == s1;\nlet h1 = hash(s0) == hash(s1);\n"
            "let s2 = s0.add(1).add(2);\nlet s3 = s0.add(2).add(1).add(3).discard(3);\nlet e2 = s2 == s3;\nlet h2 = hash(s2) == hash(s3);\n"
            "let s4 = s0.update([5, 6, 7]).remove(6);\nlet s5 = s0.add(7).add(5);\nlet e3 = s4 == s5;\nlet h3 = hash(s4) == hash(s5);\n"
            "let m0: Mapping<int, str> = mapping<int>();\nlet m1 = m0.set(1, \"a\").discard(1);\nlet e4 = m0 == m1;\nlet h4 = hash(m0) == hash(m1);\n"
            "let m2 = m0.set(1, \"a\").set(2, \"b\");\nlet m3 = m0.set(2, \"b\").set(3, \"c\").set(1, \"a\").pop(3);\nlet e5 = m2 == m3;\nlet h5 = hash(m2) == hash(m3);\n"
            "let q0 = stack().push(1).push(2);\nlet q1 = stack().push(1).push(2).push(3).tail();\nlet e6 = q0 == q1;\nlet h6 = hash(q0) == hash(q1);\n")
    ho = vf.run_jobs([{"id": "hist", "src": hsrc, "observe": ["e%d" % i for i in range(1, 7)] + ["h%d" % i for i in range(1, 7)]}], "c19-hist")["hist"]
    chk.count(6)
    if vf.job_outcome(ho) != "ok":
        chk.violation("history program: %s %s" % (vf.job_outcome(ho), str(ho.get("compile", {}).get("msg") or ho.get("inst"))[:300]), {"kind": "order", "source": hsrc})
    else:
        for i in range(1, 7):
            chk.nontrivial("hist%d" % i)
            if ho["values"]["e%d" % i].get("v") is not True or ho["values"]["h%d" % i].get("v") is not True:
                chk.violation("collections with different histories: eq=%s same-hash=%s (pair %d)" % (ho["values"]["e%d" % i].get("v"), ho["values"]["h%d" % i].get("v"), i),
                              {"kind": "order", "source": hsrc, "pair": i})
    chk.part("cases", pairs=len(pairs), formats=len(fmts), str_formats=len(sf), sorts=len(ins), failing_comparator_runs=len(fail_jobs))
    chk.sample({"pair": pairs[len(pairs) // 2]})
    chk.sample({"format": fmts[len(fmts) // 2]})
    # ---- E2: XrMapEx: every history of <= 4 updates over colliding keys; versions with equal contents reached through different
    # histories (other insertion orders inside one bucket, a key removed and set again) are == and hash equally
    from checks import c17
    c17.exhaustive(chk, "map", [0, 1, 2], 4, 0, 2, "c19-map-h2")
    if tier != "quick":
        c17.exhaustive(chk, "map", [0, 1, 2], 4, 0, 1, "c19-map-h1")
        c17.exhaustive(chk, "set", [0, 1, 2, 3], 5, 0, 2, "c19-set4-h2")
    chk.cov["rule"] = ("all typed value pairs of the XrOrder universe (10 nested types) with eq/ne/cmp/lt/le/gt/ge/hash/to_str; "
                       "all well-formed integer format specifiers of the enumerated grammar x 9 values; sort inputs of length "
                       "0..200 (random, few keys, sorted, reversed, almost sorted) against the stable reference, plus "
                       "n_smallest/n_largest/nth_*; comparator failing at every k-th comparison (violation) and on a poison "
                       "element (error) with the accounting validated by XrRuntime; non-trivial = distinct case")
    chk.assumptions += ["float formatting in the e/E modes and of non-dyadic values, Stack/Set/Mapping text, median and rank functions are not covered",
                        "the side that receives the odd padding character of '^' alignment and hex digit case for mode X are left open"]


def replay(chk, path):
    rp = json.load(open(path))
    if rp.get("kind") in ("map", "map-repr"):
        from checks import c17
        return c17.replay(chk, path)
    src = rp["source"]
    import re
    names = re.findall(r"let (\w+)", src)
    o = vf.run_jobs([{"id": "r", "src": src, "observe": names, "max_elems": 256, "limits": rp.get("limits") or {},
                      "calls": [{"op": "run", "fn": "main"}] if "fn main" in src else []}], "replay")["r"]
    oc = vf.job_outcome(o)
    chk.count(1)
    chk.nontrivial("replay")
    chk.nontrivial(src)
    chk.sample({"source": src[:300], "outcome": oc})
    if rp["kind"] == "format":
        if o.get("values", {}).get("f0", {}).get("v") != rp["expected"]:
            chk.violation("still deviates", rp)
    elif rp["kind"] == "sort":
        got = [[int(p["v"][0]["v"]), int(p["v"][1]["v"])] for p in o.get("values", {}).get("sorted", {}).get("v", [])]
        if got != [list(e) for e in rp["expected"]]:
            chk.violation("still deviates", rp)
    elif oc.endswith("panic") or oc in ("crash", "timeout"):
        chk.violation("still fails", rp)
    return chk.finish()
