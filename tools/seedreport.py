#!/usr/bin/env python3
"""seeded/RESULTS.md from seeded/*/meta.json + result.json"""
import glob
import json
import os

ROOT = os.path.dirname(os.path.dirname(os.path.abspath(__file__)))
rows = []
for d in sorted(glob.glob(os.path.join(ROOT, "seeded", "C*-*"))):
    name = os.path.basename(d)
    try:
        meta = json.load(open(os.path.join(d, "meta.json")))
    except Exception:
        meta = {}
    try:
        res = json.load(open(os.path.join(d, "result.json")))
    except Exception:
        res = {"checks": {}}
    caught = sorted(k for k, v in res["checks"].items() if v["exit"] == 1)
    missed = sorted(k for k, v in res["checks"].items() if v["exit"] == 0)
    broken = sorted(k for k, v in res["checks"].items() if v["exit"] not in (0, 1))
    if "suite" not in res and os.path.exists(os.path.join(d, "verify.json")):
        res["suite"] = {"lines": json.load(open(os.path.join(d, "verify.json"))).get("suite_with_change", [])}
    suite = "; ".join(l.split("test result: ")[1].split(";")[0] + ";" + l.split(";")[1] for l in res.get("suite", {}).get("lines", []) if "passed" in l and not l.startswith("test result: ok. 0 passed"))
    rows.append((name, (("[" + meta["status"].split(":")[0].upper() + "] ") if meta.get("status") else "") + (meta.get("summary") or "").replace("\n", " ").replace("|", "/")[:230], ", ".join(meta.get("files", []))[:60], suite, ", ".join(caught), ", ".join(missed), ", ".join(broken)))
with open(os.path.join(ROOT, "seeded", "RESULTS.md"), "w") as f:
    f.write("# Seeded changes and the checks that catch them\n\n"
            "Each change compiles and passes the unedited 433-test suite (column *suite*, measured with the change applied to /repo).\n"
            "*caught by* / *not caught by* list the checks (id:tier) that were run against the change with their verdict (exit 1 = VIOLATION line).\n\n"
            "| seed | change | files | suite | caught by | not caught by | tool error |\n|---|---|---|---|---|---|---|\n")
    for r in rows:
        f.write("| %s |\n" % " | ".join(r))
print("wrote %d rows" % len(rows))
