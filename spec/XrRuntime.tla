----------------------------- MODULE XrRuntime -----------------------------
(***************************************************************************)
(* M4/M6 of DESIGN.md: the program-agnostic resource machine of the xray   *)
(* interpreter and the host protocol around it.                            *)
(*                                                                         *)
(* One action per linearisation point of the implementation:               *)
(*   runtime.rs        allocate / deallocate / can_allocate_by             *)
(*                     increment_call_limit / check_timeout                *)
(*                     check_permission                                    *)
(*   runtime_scope.rs  from_template (frame creation, depth check),        *)
(*                     eval_func_with_values (user call, trampoline)       *)
(*   host              compile, instantiate, run_function, reset, drop     *)
(*                                                                         *)
(* Every action takes as parameters exactly the scalar state the hooks log *)
(* and *guards* that state against the specification's own bookkeeping, so *)
(* the same actions serve bounded model checking (MC_XrRuntime, parameters *)
(* drawn from small sets) and trace validation (Trace_XrRuntime,           *)
(* parameters read from the recorded event).                               *)
(***************************************************************************)
EXTENDS Naturals, Integers, Sequences, FiniteSets, TLC

NoLimit == -1          \* "no limit configured" for a numeric limit

PermIds == {"now", "print", "print_debug", "random", "regex", "sleep"}
\* documented defaults: regex and sleep off, the others on
PermDefault(id) == id \notin {"regex", "sleep"}

\* which permissions cover which effect kind
PermsFor(kind) ==
    CASE kind = "write"   -> {"print", "print_debug"}
      [] kind = "clock"   -> {"now"}
      [] kind = "rng"     -> {"random"}
      [] kind = "rng_new" -> {"random"}
      [] kind = "regex"   -> {"regex"}
      [] kind = "sleep"   -> {"sleep"}
      [] OTHER            -> {}

\* the violation a refused permission raises (the host sees PermissionError("<id>"))
PermViolation(id) ==
    CASE id = "now"         -> "PermissionError_now"
      [] id = "print"       -> "PermissionError_print"
      [] id = "print_debug" -> "PermissionError_print_debug"
      [] id = "random"      -> "PermissionError_random"
      [] id = "regex"       -> "PermissionError_regex"
      [] id = "sleep"       -> "PermissionError_sleep"

VARIABLES
    phase,      \* "Fresh" | "Compiling" | "Inst" | "Idle" | "Running" | "Dropped"
    lim,        \* [size, depth, recursion, calls, search, time |-> Nat or NoLimit]
    perm,       \* [PermIds -> {"allow", "forbid", "unset"}]
    acct,       \* accounted bytes
    live,       \* bag of live allocation sizes: [size |-> count], sizes > 0 only
    calls,      \* user calls since last reset (counted only when lim.calls is configured)
    frames,     \* stack of live frames: <<[tmpl, h, entered]>>; frames[1] is the root scope
    acts,       \* stack of user-call activations: <<[tmpl, rec, st, fh]>>
    doomed,     \* "none" or the violation raised first in the current host call
    grant,      \* [PermIds -> Nat \cup {-1}]: permission checks passed and not yet consumed by an
                \* effect; -1 marks the permission whose run of effects is in progress
    idleBase    \* accounted bytes right after a successful instantiation (-1 before)

rvars == <<phase, lim, perm, acct, live, calls, frames, acts, doomed, grant, idleBase>>

NoGrant == [p \in PermIds |-> 0]
Allowed(id) == IF perm[id] = "unset" THEN PermDefault(id) ELSE perm[id] = "allow"

Active == phase \in {"Inst", "Running"}

----------------------------------------------------------------------------
(* bag helpers (sizes -> counts; absent key = 0) *)
Count(b, s) == IF s \in DOMAIN b THEN b[s] ELSE 0
BagAdd(b, s) == [k \in DOMAIN b \cup {s} |-> IF k = s THEN Count(b, s) + 1 ELSE b[k]]
BagDel(b, s) == IF b[s] = 1 THEN [k \in DOMAIN b \ {s} |-> b[k]]
                ELSE [b EXCEPT ![s] = @ - 1]
RECURSIVE BagSumOver(_, _)
BagSumOver(b, D) == IF D = {} THEN 0
                    ELSE LET s == CHOOSE x \in D : TRUE
                         IN s * b[s] + BagSumOver(b, D \ {s})
BagSum(b) == BagSumOver(b, DOMAIN b)
EmptyBag == [s \in {} |-> 0]

\* Grants nest (display(f(display(x))) checks the outer permission before the inner call), so
\* they are counted: a passed check adds one, the first effect of a run of consecutive effects
\* consumes one and the run lasts until the next non-Effect step.  The count of the permission
\* in use is kept negative (-(n+1)) during the run.
InUse(g, p) == g[p] < 0
Settle(g) == [p \in PermIds |-> IF g[p] < 0 THEN -(g[p] + 1) ELSE g[p]]

Doom(v) == doomed' = IF doomed = "none" THEN v ELSE doomed

----------------------------------------------------------------------------
Init ==
    /\ phase = "Fresh"
    /\ lim = [size |-> NoLimit, depth |-> NoLimit, recursion |-> NoLimit,
              calls |-> NoLimit, search |-> NoLimit, time |-> NoLimit]
    /\ perm = [p \in PermIds |-> "unset"]
    /\ acct = 0
    /\ live = EmptyBag
    /\ calls = 0
    /\ frames = <<>>
    /\ acts = <<>>
    /\ doomed = "none"
    /\ grant = NoGrant
    /\ idleBase = -1

----------------------------------------------------------------------------
(* Host protocol *)

\* compilation happens before a runtime exists; nothing may happen in between
CompileBegin ==
    /\ phase = "Fresh"
    /\ phase' = "Compiling"
    /\ UNCHANGED <<lim, perm, acct, live, calls, frames, acts, doomed, grant, idleBase>>

CompileEnd ==
    /\ phase = "Compiling"
    /\ phase' = "Fresh"
    /\ UNCHANGED <<lim, perm, acct, live, calls, frames, acts, doomed, grant, idleBase>>

InstBegin(total, limits, perms) ==
    /\ phase = "Fresh"
    /\ total = acct /\ acct = 0
    /\ phase' = "Inst"
    /\ lim' = limits
    /\ perm' = perms
    /\ UNCHANGED <<acct, live, calls, frames, acts, doomed, grant, idleBase>>

\* outcome the host may receive given the first violation raised.
\* A search trip is not instrumented (search_iter cannot be hooked add-only), so
\* MaximumSearch may surface with no earlier doom event when a search limit exists.
OutcomeOK(outcome) ==
    \/ outcome = doomed /\ doomed # "none"
    \/ outcome = "ok" /\ doomed = "none"
    \/ outcome = "MaximumSearch" /\ doomed = "none" /\ lim.search # NoLimit

CountersMatch(total, c) ==
    /\ total = acct
    /\ (lim.calls # NoLimit => c = calls)
    /\ (lim.calls = NoLimit => c = 0)

InstEnd(outcome, total, c) ==
    /\ phase = "Inst"
    /\ OutcomeOK(outcome)
    /\ CountersMatch(total, c)
    \* success leaves exactly the root frame; failure has unwound it
    /\ IF outcome = "ok" THEN Len(frames) = 1 /\ frames[1].entered ELSE frames = <<>>
    /\ acts = <<>>                           \* every activation returned or was unwound
    /\ phase' = "Idle"
    /\ doomed' = "none" /\ acts' = <<>> /\ grant' = NoGrant
    /\ idleBase' = IF outcome = "ok" THEN acct ELSE -1
    /\ UNCHANGED <<lim, perm, acct, live, calls, frames>>

RunBegin(total, c) ==
    /\ phase = "Idle"
    /\ Len(frames) = 1
    /\ CountersMatch(total, c)
    /\ acct = idleBase                       \* nothing accumulates from run to run
    /\ phase' = "Running"
    /\ UNCHANGED <<lim, perm, acct, live, calls, frames, acts, doomed, grant, idleBase>>

RunEnd(outcome, total, c) ==
    /\ phase = "Running"
    /\ OutcomeOK(outcome)
    /\ CountersMatch(total, c)
    /\ Len(frames) = 1                       \* every frame of the run has been left
    /\ acts = <<>>                           \* every activation returned or was unwound
    /\ phase' = "Idle"
    /\ doomed' = "none" /\ acts' = <<>> /\ grant' = NoGrant
    /\ UNCHANGED <<lim, perm, acct, live, calls, frames, idleBase>>

ResetCalls ==
    /\ phase = "Idle"
    /\ calls' = 0
    /\ UNCHANGED <<phase, lim, perm, acct, live, frames, acts, doomed, grant, idleBase>>

ResetTimeout ==
    /\ phase = "Idle"
    /\ UNCHANGED rvars

\* all results and the evaluation scope have been dropped: the accounting is back at baseline
Dropped(total) ==
    /\ phase = "Idle"
    /\ frames = <<>>
    /\ total = acct /\ acct = 0 /\ live = EmptyBag
    /\ phase' = "Dropped"
    /\ UNCHANGED <<lim, perm, acct, live, calls, frames, acts, doomed, grant, idleBase>>

----------------------------------------------------------------------------
(* Memory accounting: runtime.rs allocate / deallocate / can_allocate_by *)

\* A violation ends the evaluation: it travels to the host as an Err through every native function and
\* user frame, and nothing on that path evaluates or allocates again (only releases follow).  So once a
\* violation has been raised in the current host call, no allocation, allocation probe or call happens.
Alloc(size, payload, total, limit) ==
    /\ Active /\ doomed = "none"
    /\ lim.size # NoLimit /\ limit = lim.size
    /\ total = acct + size                   \* the implementation's running sum is the model's
    /\ size >= payload                       \* every value is accounted at least its payload
    /\ IF total <= lim.size
         THEN /\ acct' = total
              /\ live' = IF size > 0 THEN BagAdd(live, size) ELSE live
              /\ UNCHANGED doomed
         ELSE /\ Doom("AllocationLimitReached")
              /\ UNCHANGED <<acct, live>>    \* refused bytes are not kept
    /\ grant' = Settle(grant)
    /\ UNCHANGED <<phase, lim, perm, calls, frames, acts, idleBase>>

Dealloc(size, total) ==
    /\ phase \in {"Inst", "Running", "Idle"}
    /\ size > 0 /\ Count(live, size) > 0     \* only something that was allocated can die
    /\ acct >= size                          \* never underflows
    /\ total = acct - size
    /\ acct' = total
    /\ live' = BagDel(live, size)
    /\ grant' = Settle(grant)
    /\ UNCHANGED <<phase, lim, perm, calls, frames, acts, doomed, idleBase>>

CanAlloc(req, total, limit) ==
    /\ Active /\ doomed = "none"
    /\ lim.size # NoLimit /\ limit = lim.size
    /\ total = acct
    /\ IF acct + req > lim.size THEN Doom("AllocationLimitReached") ELSE UNCHANGED doomed
    /\ grant' = Settle(grant)
    /\ UNCHANGED <<phase, lim, perm, acct, live, calls, frames, acts, idleBase>>

----------------------------------------------------------------------------
(* User calls: runtime_scope.rs eval_func_with_values, from_template *)

TopAct == acts[Len(acts)]
Pop(q) == SubSeq(q, 1, Len(q) - 1)
SetTop(f) == [acts EXCEPT ![Len(acts)] = f]

UCall(t) ==
    /\ Active
    /\ doomed = "none"                       \* once a violation has been raised no further call begins
    /\ (acts # <<>> => TopAct.st = "body")   \* the caller is executing its body
    /\ acts' = Append(acts, [tmpl |-> t, rec |-> 0, fh |-> Len(frames),
                             st |-> IF lim.calls # NoLimit THEN "inc" ELSE "time"])
    /\ grant' = Settle(grant)
    /\ UNCHANGED <<phase, lim, perm, acct, live, calls, frames, doomed, idleBase>>

\* Both a fresh call ("inc" -> "time" -> "frame") and a trampoline iteration
\* ("tinc" -> "ttime" -> "tail"; interop/limits.md: the call limit counts every call of a user
\* function and the timeout is checked at the beginning of each) are counted and timed.
Inc(c, limit) ==
    /\ Active
    /\ acts # <<>> /\ TopAct.st \in {"inc", "tinc"}
    /\ lim.calls # NoLimit /\ limit = lim.calls
    /\ c = calls + 1                         \* every call moves the counter by exactly one
    /\ calls' = c
    /\ IF c >= lim.calls
         THEN /\ Doom("MaximumUDCall")
              /\ acts' = IF TopAct.st = "inc" THEN Pop(acts)                \* the call never starts
                         ELSE SetTop([TopAct EXCEPT !.st = "dead"])          \* the iteration never starts
         ELSE UNCHANGED doomed /\ acts' = SetTop([TopAct EXCEPT !.st = IF TopAct.st = "inc" THEN "time" ELSE "ttime"])
    /\ grant' = Settle(grant)
    /\ UNCHANGED <<phase, lim, perm, acct, live, frames, idleBase>>

\* The hook reads the clock just before the interpreter does, so `passed = FALSE` does not exclude
\* that the interpreter's own reading (a moment later) finds the deadline passed: with a deadline
\* configured both continuations are admitted, and the rest of the trace decides.
TimeChk(hasDeadline, passed) ==
    /\ Active
    /\ acts # <<>> /\ TopAct.st \in {"time", "ttime"}
    /\ hasDeadline = (lim.time # NoLimit)
    /\ (passed => hasDeadline)
    /\ \E late \in (IF hasDeadline /\ ~passed THEN {TRUE, FALSE} ELSE {FALSE}) :
       IF passed \/ late
         THEN /\ Doom("Timeout")
              /\ acts' = IF TopAct.st = "time" THEN Pop(acts) ELSE SetTop([TopAct EXCEPT !.st = "dead"])
         ELSE UNCHANGED doomed /\ acts' = SetTop([TopAct EXCEPT !.st = IF TopAct.st = "time" THEN "frame" ELSE "tail"])
    /\ grant' = Settle(grant)
    /\ UNCHANGED <<phase, lim, perm, acct, live, calls, frames, idleBase>>

\* frame creation; the root scope is the only frame without an activation
Frame(t, h, limit) ==
    /\ Active
    /\ h = Len(frames)                       \* height = number of enclosing live frames
    /\ limit = lim.depth
    /\ IF acts = <<>>
         THEN phase = "Inst" /\ frames = <<>> /\ UNCHANGED acts
         ELSE /\ TopAct.st = "frame" /\ TopAct.tmpl = t /\ TopAct.fh = h
              /\ acts' = SetTop([TopAct EXCEPT !.st =
                              IF lim.depth # NoLimit /\ h >= lim.depth THEN "failed" ELSE "entering"])
    /\ frames' = Append(frames, [tmpl |-> t, h |-> h, entered |-> FALSE])
    /\ IF lim.depth # NoLimit /\ h >= lim.depth
         THEN Doom("MaximumStackDepth") ELSE UNCHANGED doomed
    /\ grant' = Settle(grant)
    /\ UNCHANGED <<phase, lim, perm, acct, live, calls, idleBase>>

FrameIn(t, h) ==
    /\ Active
    /\ (lim.depth # NoLimit => h < lim.depth) \* not reached when the depth check failed
    /\ frames # <<>>
    /\ LET f == frames[Len(frames)] IN f.tmpl = t /\ f.h = h /\ ~f.entered
    /\ frames' = [frames EXCEPT ![Len(frames)].entered = TRUE]
    /\ IF acts = <<>> THEN UNCHANGED acts
       ELSE TopAct.st = "entering" /\ acts' = SetTop([TopAct EXCEPT !.st = "body"])
    /\ grant' = Settle(grant)
    /\ UNCHANGED <<phase, lim, perm, acct, live, calls, doomed, idleBase>>

\* trampoline iteration: only the frame's own template, only while its body is the innermost
\* thing running, at unchanged height
TailIter(t, rec, limit) ==
    /\ Active
    /\ acts # <<>> /\ TopAct.st = "body" /\ TopAct.tmpl = t
    /\ Len(frames) = TopAct.fh + 1           \* no nested frame alive: height unchanged
    /\ limit = lim.recursion
    /\ rec = TopAct.rec + 1
    /\ IF lim.recursion # NoLimit /\ rec > lim.recursion
         THEN Doom("MaximumRecursion") /\ acts' = SetTop([TopAct EXCEPT !.rec = rec, !.st = "dead"])
         ELSE UNCHANGED doomed /\ acts' = SetTop([TopAct EXCEPT !.rec = rec,
                                                        !.st = IF lim.calls # NoLimit THEN "tinc" ELSE "ttime"])
    /\ grant' = Settle(grant)
    /\ UNCHANGED <<phase, lim, perm, acct, live, calls, frames, idleBase>>

\* a frame dies (normal return, trampoline re-entry, or unwinding)
Leave(t, h) ==
    /\ phase \in {"Inst", "Running", "Idle"}
    /\ frames # <<>>
    /\ LET f == frames[Len(frames)] IN f.tmpl = t /\ f.h = h
    /\ frames' = SubSeq(frames, 1, Len(frames) - 1)
    /\ IF acts = <<>> \/ TopAct.fh # h
         THEN UNCHANGED acts                 \* the root scope
         ELSE IF TopAct.st = "tail"
                THEN acts' = SetTop([TopAct EXCEPT !.st = "frame"])   \* next iteration follows
                ELSE /\ TopAct.st \in {"body", "failed", "dead"}       \* return or unwinding
                     /\ acts' = Pop(acts)
    /\ grant' = Settle(grant)
    /\ UNCHANGED <<phase, lim, perm, acct, live, calls, doomed, idleBase>>

----------------------------------------------------------------------------
(* Permissions and effects *)

Perm(id, allowed) ==
    /\ Active
    /\ id \in PermIds
    /\ allowed = Allowed(id)                 \* configured value, else the documented default
    /\ IF allowed
         THEN grant' = [Settle(grant) EXCEPT ![id] = @ + 1] /\ UNCHANGED doomed
         ELSE grant' = Settle(grant) /\ Doom(PermViolation(id))
    /\ UNCHANGED <<phase, lim, perm, acct, live, calls, frames, acts, idleBase>>

Effect(kind) ==
    /\ Active
    /\ PermsFor(kind) # {}
    /\ \E p \in PermsFor(kind) :             \* only after its permission check passed
          /\ Allowed(p)
          /\ \/ InUse(grant, p) /\ UNCHANGED grant                       \* same run of effects
             \/ /\ \A q \in PermsFor(kind) : ~InUse(grant, q)
                /\ grant[p] >= 1
                /\ grant' = [Settle(grant) EXCEPT ![p] = -@]               \* consume one: n -> -(n-1+1)
    /\ UNCHANGED <<phase, lim, perm, acct, live, calls, frames, acts, doomed, idleBase>>

----------------------------------------------------------------------------
(* State invariants (checked by TLC on the bounded model and at every step of every trace) *)

AcctConservation == acct = BagSum(live)
AcctWithinLimit == (lim.size # NoLimit /\ doomed = "none") => acct <= lim.size
NoUnderflow == acct >= 0
DepthWithinLimit ==
    (lim.depth # NoLimit /\ doomed = "none") =>
        \A i \in 1..Len(frames) : frames[i].h < lim.depth
HeightsExact == \A i \in 1..Len(frames) : frames[i].h = i - 1
RecWithinLimit ==
    (lim.recursion # NoLimit /\ doomed = "none") =>
        \A i \in 1..Len(acts) : acts[i].rec <= lim.recursion
QuietWhenNotActive == phase \in {"Fresh", "Compiling", "Dropped"} => acts = <<>> /\ doomed = "none"
CompileIsSilent == phase = "Compiling" => acct = 0 /\ frames = <<>> /\ calls = 0
BaselineRestoredOnDrop == phase = "Dropped" => acct = 0 /\ live = EmptyBag

RuntimeInv ==
    /\ AcctConservation /\ AcctWithinLimit /\ NoUnderflow
    /\ DepthWithinLimit /\ HeightsExact /\ RecWithinLimit /\ QuietWhenNotActive
    /\ CompileIsSilent /\ BaselineRestoredOnDrop
=============================================================================
