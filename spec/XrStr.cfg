SPECIFICATION Spec
CONSTANT Steps = 14
INVARIANT Emit
INVARIANT CaseMapIdempotent
INVARIANT SplitJoinInverse
CHECK_DEADLOCK FALSE
