"""Typed generator of core-language programs (ASTs) + renderer to xray source text.

The generator produces *inputs*: well-typed programs of the fragment whose meaning
spec/XrEval.tla defines.  It never computes an expected value; TLC does (XrCore).
AST node shapes are documented in XrEval.tla (Ev / EvDecls)."""
import random

INT, BOOL, STR = "int", "bool", "str"


def seq(t):
    return ("seq", t)


def opt(t):
    return ("opt", t)


def tup(ts):
    return ("tup", tuple(ts))


def fn(ps, r):
    return ("fn", tuple(ps), r)


def tyname(t):
    if isinstance(t, str):
        return t
    if t[0] == "seq":
        return "Sequence<%s>" % tyname(t[1])
    if t[0] == "opt":
        return "Optional<%s>" % tyname(t[1])
    if t[0] == "tup":
        return "(%s)" % ", ".join(tyname(x) for x in t[1])
    if t[0] == "fn":
        return "(%s)->(%s)" % (", ".join(tyname(x) for x in t[1]), tyname(t[2]))
    if t[0] in ("struct", "union"):
        return t[1]
    raise ValueError(t)


def tag(t):
    return t if isinstance(t, str) else t[0]


OPS = {"add": "+", "sub": "-", "mul": "*", "mod": "%", "pow": "**", "and": "&&", "or": "||",
       "lt": "<", "gt": ">", "le": "<=", "ge": ">=", "eq": "==", "ne": "!="}
UNOPS = {"neg": "-", "not": "!"}

# strict builtins: name -> list of (arg types, ret type)
BUILTINS = [
    ("add", [INT, INT], INT), ("sub", [INT, INT], INT), ("mul", [INT, INT], INT),
    ("mod", [INT, INT], INT), ("neg", [INT], INT), ("abs", [INT], INT), ("sign", [INT], INT),
    ("eq", [INT, INT], BOOL), ("ne", [INT, INT], BOOL), ("lt", [INT, INT], BOOL),
    ("le", [INT, INT], BOOL), ("gt", [INT, INT], BOOL), ("ge", [INT, INT], BOOL),
    ("cmp", [INT, INT], INT), ("not", [BOOL], BOOL), ("eq", [BOOL, BOOL], BOOL),
    ("add", [STR, STR], STR), ("eq", [STR, STR], BOOL), ("len", [STR], INT),
    ("to_str", [INT], STR), ("to_str", [BOOL], STR), ("indicator", [BOOL], INT),
    ("assert", [BOOL], BOOL),
    # the relations derived from cmp, on other types than int (equal operands matter: a >= a)
    ("ge", [BOOL, BOOL], BOOL), ("le", [BOOL, BOOL], BOOL), ("lt", [BOOL, BOOL], BOOL), ("gt", [BOOL, BOOL], BOOL),
    ("ge", [("tup", (INT, BOOL)), ("tup", (INT, BOOL))], BOOL), ("le", [("tup", (INT, INT)), ("tup", (INT, INT))], BOOL),
    ("gt", [("tup", (INT, INT)), ("tup", (INT, INT))], BOOL), ("lt", [("tup", (BOOL, INT)), ("tup", (BOOL, INT))], BOOL),
    ("ge", [("seq", INT), ("seq", INT)], BOOL), ("lt", [("seq", INT), ("seq", INT)], BOOL), ("le", [("seq", INT), ("seq", INT)], BOOL),
    ("cmp", [("tup", (INT, INT)), ("tup", (INT, INT))], INT), ("cmp", [("seq", INT), ("seq", INT)], INT), ("cmp", [BOOL, BOOL], INT),
    ("ge", [STR, STR], BOOL), ("le", [STR, STR], BOOL),
]


# builtins of the table that the standard library implements in xray itself: they consume user
# calls and depth, so programs whose counters are predicted exactly avoid them
XRAY_DEFINED = {"abs", "sign", "indicator"}


class Gen:
    def __init__(self, seed, max_depth=4, n_decls=8, p_err=0.08, p_disp=0.15, callbacks=True,
                 native_only=False, scope_heavy=False):
        self.native_only = native_only
        self.scope_heavy = scope_heavy
        self.r = random.Random(seed)
        self.max_depth = max_depth
        self.n_decls = n_decls
        self.p_err = p_err
        self.p_disp = p_disp
        self.callbacks = callbacks
        self.uid = 0
        self.err_id = 0

    # ---------------------------------------------------------------- helpers
    def fresh(self, p="v"):
        self.uid += 1
        return "%s%d" % (p, self.uid)

    def lit(self, t):
        r = self.r
        if t == INT:
            return {"k": "lit", "ty": "int", "v": r.choice([0, 1, 2, 3, 5, 7, 10, -1, -3, 12])}
        if t == BOOL:
            return {"k": "lit", "ty": "bool", "v": r.random() < 0.5}
        if t == STR:
            return {"k": "lit", "ty": "str", "v": r.choice(["", "a", "b", "ab", "xyz", "q r"])}
        raise ValueError(t)

    def lit_nat(self):
        return {"k": "lit", "ty": "int", "v": self.r.choice([0, 0, 1, 2])}

    def call(self, f, args, sty=None, **kw):
        n = {"k": "call", "f": f, "args": args, "sty": sty or "fn"}
        n.update(kw)
        return n

    def pure(self):
        """context flag: inside callbacks of lazy builtins nothing observable may happen"""
        return getattr(self, "_pure", 0) > 0

    # ---------------------------------------------------------------- expressions
    def expr(self, t, d, sc):
        """an expression of type t; sc = scope: {'vars': [(n,t)], 'fns': [(n,ps,r,ndef)]}"""
        r = self.r
        if not self.pure():
            if r.random() < self.p_err and d < self.max_depth and tag(t) != "fn":
                self.err_id += 1
                return self.call("error", [{"k": "lit", "ty": "str", "v": "E%d" % self.err_id}], cast=tyname(t))
            if r.random() < self.p_disp and t in (INT, BOOL, STR) and d < self.max_depth:
                return self.call("display", [self.expr(t, d + 1, sc)], r.choice(["fn", "method"]))
        cands = [v for v in sc["vars"] if v[1] == t]
        if d >= self.max_depth or r.random() < 0.15:
            if cands and r.random() < 0.6:
                return {"k": "var", "n": r.choice(cands)[0]}
            return self.atom(t, d, sc)
        choices = []
        if cands:
            choices += ["var"] * 2
        choices += ["builtin"] * 4 + ["if"] * 2
        ufs = [f for f in sc["fns"] if f[2] == t]
        if ufs and not self.pure():
            choices += ["ufn"] * 3
        fvars = [v for v in sc["vars"] if tag(v[1]) == "fn" and v[1][2] == t]
        if fvars and not self.pure():
            choices += ["callv"] * 2
        if t == BOOL:
            choices += ["andor"] * 2 + ["is_error"]
        if tag(t) == "seq":
            choices += ["arr"] * 3 + ["seqop"] * 3
        if tag(t) == "opt":
            choices += ["optop"] * 4
        if tag(t) == "tup":
            choices += ["tup"] * 4
        if tag(t) == "fn":
            choices += ["lam"] * 4
        if t in (INT, BOOL, STR) or tag(t) in ("seq", "opt"):
            choices += ["if_error", "member", "get", "value"]
        if t in (INT, BOOL, STR) and (getattr(self, "structs", None) or getattr(self, "unions", None)):
            choices += ["compound"] * 2
        if t == INT and getattr(self, "recs", None) and not self.pure():
            choices += ["rec"] * 2
        ch = r.choice(choices)
        if ch == "var":
            return {"k": "var", "n": r.choice(cands)[0]}
        if ch == "compound":
            e = self.compound_expr(t, d, sc)
            return e if e is not None else self.atom(t, d, sc)
        if ch == "rec":
            live = [f for f in sc["fns"] if f[0] in self.recs]
            if not live:
                return self.atom(t, d, sc)
            f = r.choice(live)
            return self.call(f[0], [{"k": "lit", "ty": "int", "v": r.choice([0, 1, 2, 3, 6, 9])}])
        if ch == "builtin":
            bs = [b for b in BUILTINS if b[2] == t and not (self.native_only and b[0] in XRAY_DEFINED)]
            if not bs:
                return self.atom(t, d, sc)
            name, ats, _ = r.choice(bs)
            args = [self.expr(a, d + 1, sc) for a in ats]
            if name == "mul":       # keep magnitudes inside the model's arithmetic
                args[1] = self.lit(INT)
            stys = ["fn", "method"]
            if name in OPS or name in UNOPS:
                stys += ["op", "op"]
            return self.call(name, args, r.choice(stys))
        if ch == "if":
            return self.call("if", [self.expr(BOOL, d + 1, sc), self.expr(t, d + 1, sc),
                                    self.expr(t, d + 1, sc)], r.choice(["fn", "method"]))
        if ch == "andor":
            return self.call(r.choice(["and", "or"]), [self.expr(BOOL, d + 1, sc), self.expr(BOOL, d + 1, sc)],
                             r.choice(["fn", "method", "op", "op"]))
        if ch == "is_error":
            return self.call("is_error", [self.expr(r.choice([INT, STR, BOOL]), d + 1, sc)])
        if ch == "if_error":
            return self.call("if_error", [self.expr(t, d + 1, sc), self.expr(t, d + 1, sc)])
        if ch == "ufn":
            name, ps, _, ndef = r.choice(ufs)
            n = len(ps) - (r.randint(0, ndef) if ndef else 0)
            args = [self.expr(p, d + 1, sc) for p in ps[:n]]
            sty = r.choice(["fn", "method"]) if args else "fn"
            return self.call(name, args, sty)
        if ch == "callv":
            v = r.choice(fvars)
            return {"k": "callv", "fe": {"k": "var", "n": v[0]},
                    "args": [self.expr(p, d + 1, sc) for p in v[1][1]]}
        if ch == "arr":
            n = r.randint(0, 3)
            if n == 0:
                # an empty literal has element type unknown; annotate through the binding instead
                n = 1
            return {"k": "arr", "items": [self.expr(t[1], d + 1, sc) for _ in range(n)]}
        if ch == "seqop":
            op = r.choice(["push", "rpush", "add", "map_arr", "take_while", "skip_until"])
            if op in ("take_while", "skip_until"):
                if t[1] not in (INT, BOOL) or not self.callbacks:
                    return self.atom(t, d, sc)
                return self.call(op, [self.expr(t, d + 1, sc), self.lam([t[1]], BOOL, d + 1, sc, pure=True)], "method")
            if op in ("push", "rpush"):
                return self.call(op, [self.expr(t, d + 1, sc), self.expr(t[1], d + 1, sc)], "method")
            if op == "add":
                return self.call("add", [self.expr(t, d + 1, sc), self.expr(t, d + 1, sc)],
                                 r.choice(["fn", "method", "op"]))
            src_t = r.choice([INT, BOOL]) if self.callbacks else None
            if src_t is None:
                return self.atom(t, d, sc)
            return self.call("map_arr", [self.expr(seq(src_t), d + 1, sc), self.lam([src_t], t[1], d + 1, sc, pure=True)])
        if ch == "optop":
            op = r.choice(["some", "none", "then", "opt_or", "opt_and", "opt_map", "nth"])
            if op == "nth":
                if t[1] not in (INT, BOOL) or not self.callbacks:
                    return self.atom(t, d, sc)
                return self.call("nth", [self.expr(seq(t[1]), d + 1, sc), self.lit_nat(),
                                         self.lam([t[1]], BOOL, d + 1, sc, pure=True)], "method")
            if op == "some":
                return self.call("some", [self.expr(t[1], d + 1, sc)])
            if op == "none":
                return self.call("none", [], cast=tyname(t))
            if op == "then":
                return self.call("then", [self.expr(BOOL, d + 1, sc), self.expr(t[1], d + 1, sc)], r.choice(["fn", "method"]))
            if op in ("opt_or", "opt_and"):
                return self.call(op, [self.expr(t, d + 1, sc), self.expr(t, d + 1, sc)], r.choice(["fn", "method", "op"]))
            src_t = r.choice([INT, BOOL])
            return self.call("opt_map", [self.expr(opt(src_t), d + 1, sc), self.lam([src_t], t[1], d + 1, sc, pure=True)], "method")
        if ch == "tup":
            return {"k": "tup", "items": [self.expr(x, d + 1, sc) for x in t[1]]}
        if ch == "lam":
            return self.lam(list(t[1]), t[2], d + 1, sc)
        if ch == "member":
            ts = [r.choice([INT, BOOL, STR]) for _ in range(r.randint(1, 3))]
            i = r.randrange(len(ts))
            ts[i] = t
            return {"k": "member", "e": self.expr(tup(ts), d + 1, sc), "idx": i, "name": "item%d" % i}
        if ch == "get":
            return self.call("get", [self.expr(seq(t), d + 1, sc), self.expr(INT, d + 1, sc)],
                             r.choice(["fn", "method", "index"]))
        if ch == "value":
            if r.random() < 0.5:
                return self.call("value", [self.expr(opt(t), d + 1, sc)], r.choice(["fn", "method"]))
            return self.call("opt_or_val", [self.expr(opt(t), d + 1, sc), self.expr(t, d + 1, sc)],
                             r.choice(["fn", "method", "op"]))
        return self.atom(t, d, sc)

    def atom(self, t, d, sc):
        r = self.r
        if t in (INT, BOOL, STR):
            return self.lit(t)
        if tag(t) == "seq":
            return {"k": "arr", "items": [self.atom(t[1], d + 1, sc) for _ in range(r.randint(1, 2))]}
        if tag(t) == "opt":
            if r.random() < 0.6:
                return self.call("some", [self.atom(t[1], d + 1, sc)])
            return self.call("none", [], cast=tyname(t))
        if tag(t) == "tup":
            return {"k": "tup", "items": [self.atom(x, d + 1, sc) for x in t[1]]}
        if tag(t) == "fn":
            return self.lam(list(t[1]), t[2], d + 1, sc)
        raise ValueError(t)

    def lam(self, pts, rt, d, sc, pure=False):
        ps = [{"n": self.fresh("p"), "ty": tyname(p), "hasdef": False} for p in pts]
        inner = {"vars": sc["vars"] + [(p["n"], t) for p, t in zip(ps, pts)], "fns": sc["fns"]}
        if pure:
            self._pure = getattr(self, "_pure", 0) + 1
            inner = {"vars": [v for v in inner["vars"] if v[1] in (INT, BOOL, STR)], "fns": []}
        try:
            body = self.expr(rt, max(d, self.max_depth - 1), inner)
        finally:
            if pure:
                self._pure -= 1
        return {"k": "lam", "ps": ps, "decls": [], "ret": body, "rty": tyname(rt)}

    # ---------------------------------------------------------------- declarations
    def random_type(self, depth=0):
        r = self.r
        x = r.random()
        if x < 0.55 or depth >= 2:
            return r.choice([INT, INT, BOOL, STR])
        if x < 0.7:
            return seq(self.random_type(depth + 1))
        if x < 0.82:
            return opt(self.random_type(depth + 1))
        if x < 0.92:
            return tup([self.random_type(depth + 1) for _ in range(r.randint(1, 3))])
        return fn([r.choice([INT, BOOL])], r.choice([INT, BOOL, STR]))

    def compound_decls(self, sc, decls):
        """one struct and one union over primitive fields, with values of them in scope"""
        r = self.r
        sn, un = self.fresh("S"), self.fresh("U")
        fts = [r.choice([INT, BOOL, STR]) for _ in range(r.randint(1, 3))]
        fields = [("m%d" % i, tyname(t)) for i, t in enumerate(fts)]
        decls.append({"k": "struct", "n": sn, "fields": fields})
        vts = [r.choice([INT, BOOL, STR]) for _ in range(r.randint(2, 3))]
        vfields = [("w%d" % i, tyname(t)) for i, t in enumerate(vts)]
        decls.append({"k": "union", "n": un, "fields": vfields})
        self.structs.append((sn, fts))
        self.unions.append((un, vts))

    def compound_expr(self, t, d, sc):
        """member / variant access producing a primitive t, or None"""
        r = self.r
        opts = []
        for sn, fts in self.structs:
            for i, ft in enumerate(fts):
                if ft == t:
                    opts.append(("m", sn, fts, i))
        for un, vts in self.unions:
            for i, vt in enumerate(vts):
                if vt == t:
                    opts.append(("v", un, vts, i))
        if not opts:
            return None
        kind, name, ts, i = r.choice(opts)
        if kind == "m":
            cons = {"k": "cons", "name": name, "items": [self.expr(x, d + 1, sc) for x in ts]}
            return {"k": "member", "e": cons, "idx": i, "name": "m%d" % i}
        j = r.randrange(len(ts))
        var = {"k": "variant", "uname": name, "idx": j, "vname": "w%d" % j, "e": self.expr(ts[j], d + 1, sc)}
        if r.random() < 0.5:
            return {"k": "vget", "e": var, "idx": i, "name": "w%d" % i, "opt": False}
        return self.call("opt_or_val", [{"k": "vget", "e": var, "idx": i, "name": "w%d" % i, "opt": True},
                                        self.expr(t, d + 1, sc)], "fn")

    def rec_fn(self, sc):
        """a self-recursive counter loop, tail or not, through a random carrier"""
        r = self.r
        n = self.fresh("r")
        tail = r.random() < 0.6
        pn, pa = self.fresh("p"), self.fresh("p")
        V = lambda x: {"k": "var", "n": x}
        L = lambda v: {"k": "lit", "ty": "int", "v": v}
        stop = self.call("le", [V(pn), L(0)], "op")
        dec = self.call("sub", [V(pn), L(1)], "op")
        if tail:
            step = self.call(n, [dec, self.call("add", [V(pa), V(pn)], "op")])
            base = V(pa)
            ps = [{"n": pn, "ty": "int", "hasdef": False}, {"n": pa, "ty": "int", "hasdef": True, "def": L(0)}]
            pts, ndef = [INT, INT], 1
        else:
            step = self.call("add", [V(pn), self.call(n, [dec])], "op")
            base = L(0)
            ps = [{"n": pn, "ty": "int", "hasdef": False}]
            pts, ndef = [INT], 0
        carrier = r.choice(["if", "if", "or_not", "and"]) if tail else "if"
        if carrier == "if":
            body = self.call("if", [stop, base, step], r.choice(["fn", "method"]))
        else:
            body = self.call("if", [stop, base, step], "fn")
        sc["fns"].append((n, pts, INT, ndef))
        self.recs.append(n)
        return {"k": "fn", "n": n, "ps": ps, "rty": "int", "decls": [], "ret": body, "ovl": False}

    def program(self, pid):
        r = self.r
        sc = {"vars": [], "fns": []}
        decls = []
        self.structs, self.unions, self.recs = [], [], []
        if r.random() < 0.5:
            self.compound_decls(sc, decls)
        for _ in range(self.n_decls):
            x = r.random()
            if x < 0.08:
                decls.append(self.rec_fn(sc))
            elif x < 0.33:
                decls.append(self.fndecl(sc))
            else:
                t = self.random_type()
                n = self.fresh("x")
                if self.scope_heavy and sc["vars"] and r.random() < 0.3:
                    # shadow an earlier top-level binding: earlier uses keep their meaning
                    n = r.choice([v[0] for v in sc["vars"]])
                    sc["vars"] = [v for v in sc["vars"] if v[0] != n]
                e = self.expr(t, 0, sc)
                decls.append({"k": "let", "n": n, "e": e, "ty": tyname(t), "annot": r.random() < 0.5})
                sc["vars"].append((n, t))
        zero = [f for f in sc["fns"] if len(f[1]) - f[3] == 0]
        calls = [{"op": "run", "fn": f[0]} for f in zero[:3]]
        return {"id": pid, "decls": decls, "calls": calls,
                "lim": {"calls": -1, "depth": -1, "rec": -1, "search": -1}}

    def fndecl(self, sc):
        r = self.r
        n = self.fresh("f")
        np_ = r.randint(0, 3)
        pts = [r.choice([INT, INT, BOOL, STR]) for _ in range(np_)]
        ndef = r.randint(0, np_) if r.random() < 0.4 else 0
        ps = []
        for i, t in enumerate(pts):
            p = {"n": self.fresh("p"), "ty": tyname(t), "hasdef": i >= np_ - ndef}
            if p["hasdef"]:
                p["def"] = self.expr(t, self.max_depth - 1, sc)
            ps.append(p)
        rt = r.choice([INT, INT, BOOL, STR, seq(INT), opt(INT)])
        if self.scope_heavy and r.random() < 0.35:
            rt = fn([r.choice([INT, BOOL])], r.choice([INT, BOOL, STR]))     # an escaping closure
        inner = {"vars": sc["vars"] + [(p["n"], t) for p, t in zip(ps, pts)], "fns": list(sc["fns"])}
        idecls = []
        if r.random() < (0.7 if self.scope_heavy else 0.25) and getattr(self, "_nest", 0) < (4 if self.scope_heavy else 2):
            self._nest = getattr(self, "_nest", 0) + 1
            try:
                idecls.append(self.fndecl(inner))      # nested function: a closure over this scope
            finally:
                self._nest -= 1
        for _ in range(r.randint(0, 2)):
            t = r.choice([INT, BOOL, STR])
            # sometimes shadow an existing variable of the enclosing scopes
            shadow = [v[0] for v in inner["vars"] if v[0][0] in "xl"]
            ln = r.choice(shadow) if shadow and r.random() < 0.25 else self.fresh("l")
            inner["vars"] = [v for v in inner["vars"] if v[0] != ln]
            idecls.append({"k": "let", "n": ln, "e": self.expr(t, 1, inner), "ty": tyname(t), "annot": False})
            inner["vars"].append((ln, t))
        if tag(rt) == "fn":
            # return a nested function (by name) or a lambda: both capture this frame
            cands = [f for f in inner["fns"] if f not in sc["fns"] and list(f[1]) == list(rt[1]) and f[2] == rt[2] and f[3] == 0]
            if cands and r.random() < 0.6:
                body = {"k": "var", "n": r.choice(cands)[0]}
            else:
                body = self.lam(list(rt[1]), rt[2], 1, inner)
        else:
            body = self.expr(rt, 1, inner)
        sc["fns"].append((n, pts, rt, ndef))
        return {"k": "fn", "n": n, "ps": ps, "rty": tyname(rt), "decls": idecls, "ret": body, "ovl": False}


# ------------------------------------------------------------------------------------------
# renderer (the only place concrete syntax lives)

def q(s):
    return '"' + s.replace("\\", "\\\\").replace('"', '\\"') + '"'


SPECIAL_RENDER = {"opt_or": "or", "opt_or_val": "or", "opt_and": "and", "opt_map": "map"}


def rexpr(e):
    k = e["k"]
    if k == "lit":
        if e["ty"] == "int":
            return str(e["v"]) if e["v"] >= 0 else "(-%d)" % -e["v"]
        if e["ty"] == "bool":
            return "true" if e["v"] else "false"
        return q(e["v"])
    if k == "var":
        return e["n"]
    if k == "raw":
        return e["src"]
    if k == "call":
        f = e["f"]
        args = [rexpr(a) for a in e["args"]]
        sty = e.get("sty", "fn")
        if f == "map_arr":
            return "%s.map(%s).to_array()" % (patom(e["args"][0]), args[1])
        if e.get("cast"):
            # error(..) and none() have the bottom type: state the intended type explicitly
            return "cast<%s>(%s(%s))" % (e["cast"], f, ", ".join(args))
        name = SPECIAL_RENDER.get(f, f)
        opname = name
        if sty == "op" and opname in OPS and len(args) == 2:
            return "(%s %s %s)" % (patom(e["args"][0]), OPS[opname], patom(e["args"][1]))
        if sty == "op" and opname in UNOPS and len(args) == 1:
            return "(%s%s)" % (UNOPS[opname], patom(e["args"][0]))
        if sty == "index" and name == "get":
            return "%s[%s]" % (patom(e["args"][0]), args[1])
        if sty == "method" and args:
            return "%s.%s(%s)" % (patom(e["args"][0]), name, ", ".join(args[1:]))
        return "%s(%s)" % (name, ", ".join(args))
    if k == "callv":
        return "%s(%s)" % (patom(e["fe"]), ", ".join(rexpr(a) for a in e["args"]))
    if k == "arr":
        return "[%s]" % ", ".join(rexpr(a) for a in e["items"])
    if k == "tup":
        items = [rexpr(a) for a in e["items"]]
        return "(%s,)" % items[0] if len(items) == 1 else "(%s)" % ", ".join(items)
    if k == "cons":
        return "%s(%s)" % (e["name"], ", ".join(rexpr(a) for a in e["items"]))
    if k == "variant":
        return "%s::%s(%s)" % (e["uname"], e["vname"], rexpr(e["e"]))
    if k == "member":
        return "%s::%s" % (patom(e["e"]), e["name"])
    if k == "vget":
        return "%s%s%s" % (patom(e["e"]), "?:" if e["opt"] else "!:", e["name"])
    if k == "lam":
        ps = ", ".join("%s: %s" % (p["n"], p["ty"]) + (" ?= " + rexpr(p["def"]) if p.get("hasdef") else "")
                       for p in e["ps"])
        return "(%s) -> {%s%s}" % (ps, "".join(rdecl(d) + " " for d in e["decls"]), rexpr(e["ret"]))
    raise ValueError(k)


def patom(e):
    """render as a postfix-safe atom"""
    s = rexpr(e)
    if e["k"] in ("var", "arr", "tup", "cons") or (e["k"] == "lit" and not s.startswith("(")):
        return s
    if e["k"] == "lit" and e["ty"] in ("bool", "str"):
        return s
    if s.startswith("(") and s.endswith(")") and e["k"] in ("call", "lit"):
        return s
    if e["k"] == "call" and e.get("sty", "fn") in ("fn",) and e["f"] != "map_arr":
        return s
    return "(" + s + ")"


def rdecl(d):
    k = d["k"]
    if k == "let":
        ann = ": " + d["ty"] if d.get("annot") and d.get("ty") else ""
        return "let %s%s = %s;" % (d["n"], ann, rexpr(d["e"]))
    if k == "fn":
        ps = ", ".join("%s: %s" % (p["n"], p["ty"]) + (" ?= " + rexpr(p["def"]) if p.get("hasdef") else "")
                       for p in d["ps"])
        body = "".join("    " + rdecl(x) + "\n" for x in d["decls"])
        return "fn %s(%s)->%s {\n%s    %s\n}" % (d["n"], ps, d["rty"], body, rexpr(d["ret"]))
    if k == "fwd":
        ps = ", ".join("%s: %s" % (p["n"], p["ty"]) for p in d["ps"])
        return "forward fn %s(%s)->%s;" % (d["n"], ps, d["rty"])
    if k == "struct":
        return "struct %s(%s)" % (d["n"], ", ".join("%s: %s" % (f, t) for f, t in d["fields"]))
    if k == "union":
        return "union %s(%s)" % (d["n"], ", ".join("%s: %s" % (f, t) for f, t in d["fields"]))
    raise ValueError(k)


def render(prog):
    return "\n".join(rdecl(d) for d in prog["decls"]) + "\n"


def strip_render_fields(prog):
    """the JSON handed to TLC: drop keys TLC never reads (keeps the file small)"""
    return prog
