SPECIFICATION CSpec
POSTCONDITION Accepted
CHECK_DEADLOCK FALSE
