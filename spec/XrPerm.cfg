SPECIFICATION PSpec
INVARIANT Emit
INVARIANT NeverTouchedWithoutPermission
INVARIANT RefusalNamesPermission
INVARIANT RuntimeInv
CHECK_DEADLOCK FALSE
INVARIANT HistoryMeansLastCall
