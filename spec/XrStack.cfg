SPECIFICATION Spec
CONSTANT Steps = 12
INVARIANT Emit
INVARIANT PushTail
CHECK_DEADLOCK FALSE
