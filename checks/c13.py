"""C13 - Floats are always finite.

Decided by XrShape.AllFinite (trace acceptor): every value exported by an accepted program is
recorded with the IEEE-754 class of every float inside it (recursively through sequences,
tuples/structs, unions, optionals, mappings); a float of class inf or nan has no action, nor
has a panic.  Inputs: every literal spelling family, every float-related signature of the
root scope swept over edge classes of the double range per parameter (pairs for binary
functions), huge integers into int->float paths, every distribution constructor x parameter
edges x every distribution method x argument edges, and generated operator compositions."""
import itertools
import json
import random
import re

import surface
import vf
from checks import c01

LEVEL = "model_checking"

F_EDGES = ["0.0", "(-0.0)", "5e-324", "2.2250738585072014e-308", "1e-300", "1e-155", "0.5", "(-0.5)", "0.9999999999999999", "1.0",
           "1.0000000000000002", "(-1.0)", "1.5", "2.0", "(-2.0)", "3.141592653589793", "1.5707963267948966", "170.0", "171.7", "172.0",
           "709.0", "710.0", "(-745.0)", "(-746.0)", "1e16", "9007199254740993.0", "1e154", "1.4e154", "1e155", "1e300", "1e308", "(-1e308)",
           "1.7976931348623157e308", "(-1.7976931348623157e308)"]
F_SMALL = ["0.0", "(-0.0)", "5e-324", "1e-300", "0.5", "1.0", "(-1.0)", "2.0", "171.7", "710.0", "(-746.0)", "1e155", "1e308", "(-1e308)", "1.7976931348623157e308"]
I_EDGES = ["0", "1", "(-1)", "2", "(-2)", "3", "1023", "1024", "1075", "(-1075)", "(2**53+1)", "(2**64)", "(10**308)", "(10**309)", "(2**1023)", "(2**1024-1)",
           "(2**1024)", "(-(2**1024))", "(10**400)", "(-(10**400))"]
I_SMALL = ["0", "1", "(-1)", "2", "1024", "(2**64)", "(10**309)", "(2**1024)", "(-(10**400))"]

CPLX = ["Complex(0.0, 0.0)", "Complex(1.0, 0.0)", "Complex((-1.0), 0.0)", "Complex(0.0, 1.0)", "Complex(1e308, 1e308)", "Complex((-1e308), 1e308)",
        "Complex(1e-300, 5e-324)", "Complex(1.7976931348623157e308, 0.0)", "Complex(1e155, 1e155)", "Complex(710.0, 1.0)", "Complex(1.5, (-2.5))"]
DUR = ["Duration(0.0)", "Duration(1.0)", "Duration(1e308)", "Duration((-1e308))", "Duration(5e-324)", "Duration(1.7976931348623157e308)", "seconds(86400.5)"]
DATETIME = ["datetime(0.0)", "datetime(1e308)", "datetime((-1e308))", "Datetime(Date(2001, 2, 3), 4, 5, 1e308)", "Datetime(Date(10**400, 1, 1), 0, 0, 0.0)", "datetime(86400.5)"]
DATE = ["Date(2000, 1, 2)", "Date(10**400, 1, 1)", "Date(-(10**400), 1, 1)"]
FRAC = ["fraction(1, 2)", "fraction(10**400, 3)", "fraction(1, 10**400)", "fraction(-(10**309), 7)", "fraction(2**1024, 3)", "fraction(0)"]
SEQ_F = ["[1.5, 2.5]", "cast<Sequence<float>>([])", "[1e308, 1e308]", "[1.7976931348623157e308, 1.7976931348623157e308, (-1e308)]", "[5e-324, 5e-324]", "[0.0, 0.0]", "[1.0]",
         "[1e155, 1e155, 1e155]", "[(-1e308), (-1e308)]", "[1e308, (-1e308), 1e308]"]
SEQ_I = ["[1, 2, 3]", "cast<Sequence<int>>([])", "[10**400]", "[2**1024, -(2**1024)]", "[1]", "[0, 0]", "[10**308, 10**308, 10**308]", "[2**1023, 2**1023]"]
SEQ_FF = ["[(1.0, 2.0), (2.0, 4.5), (3.0, 5.0)]", "cast<Sequence<(float, float)>>([])", "[(1.0, 1.0)]", "[(1e308, 1e308), ((-1e308), (-1e308))]", "[(0.0, 0.0), (0.0, 0.0)]",
          "[(1.0, 5.0), (1.0, 7.0)]", "[(1e155, 1e155), (2e155, 2e155)]", "[(5e-324, 0.0), (0.0, 5e-324)]"]
SEQ_IF = ["[(1, 0.5), (2, 0.5)]", "[(1, 0.0)]", "[(1, 1e308), (2, 1e308)]", "[(1, 5e-324)]", "cast<Sequence<(int, float)>>([])", "[(1, (-1.0)), (2, 2.0)]", "[(10**400, 1.0)]"]

CD_CTORS = ["normal_distribution", "beta_distribution", "exp_distribution", "chisq_distribution", "fisher_snedecor_distribution", "gamma_distribution",
            "lognormal_distribution", "rectangular_distribution", "students_t_distribution", "triangular_distribution", "weibull_distribution", "standard_uniform_distribution"]
DD_CTORS = ["binomial_distribution", "geometric_distribution", "hypergeometric_distribution", "negative_binomial_distribution", "poisson_distribution",
            "uniform_distribution", "custom_distribution", "sample_distribution"]


def tname(t):
    return surface.render_type(t)


def pool_for(t, small):
    """edge inhabitants for a parameter type, or None to fall back on the canonical ones"""
    n = tname(t)
    m = {"float": F_SMALL if small else F_EDGES, "int": I_SMALL if small else I_EDGES, "Complex": CPLX, "Duration": DUR, "Datetime": DATETIME, "Date": DATE,
         "Fraction": FRAC, "Sequence<float>": SEQ_F, "Sequence<int>": SEQ_I, "Sequence<(float, float)>": SEQ_FF, "Sequence<(int, float)>": SEQ_IF,
         "Generator<float>": [s + ".to_generator()" for s in SEQ_F], "Generator<(float, float)>": [s + ".to_generator()" for s in SEQ_FF]}
    return m.get(n)


def relevant(sig):
    return any(w in sig["text"] for w in ("float", "Complex", "Duration", "Datetime", "Distribution", "Fraction", "LinearRegression", "Matrix<float>"))


def dist_values(sigs, tier, rnd):
    """source texts constructing distributions with edge parameters"""
    out = {"ContinuousDistribution": [], "DiscreteDistribution": []}
    for sig in sigs:
        if sig["name"] not in CD_CTORS + DD_CTORS:
            continue
        kind = "ContinuousDistribution" if sig["name"] in CD_CTORS else "DiscreteDistribution"
        pts, _ = surface.instantiate(sig)
        pools = []
        for p in pts:
            q = pool_for(p, True)
            if q is None:
                try:
                    q = surface.inhabitants(p)[:2]
                except surface.NoInhabitant:
                    q = None
            pools.append(q)
        if any(q is None for q in pools):
            continue
        nreq = sum(1 for _, r in sig["params"] if r)
        for k in range(nreq, len(pts) + 1):
            combos = list(itertools.product(*pools[:k]))
            if len(combos) > (40 if tier == "quick" else 400):
                combos = rnd.sample(combos, 40 if tier == "quick" else 400)
            for c in combos:
                out[kind].append("%s(%s)" % (sig["name"], ", ".join(c)))
    # weight tables whose running sums overflow, vanish or are zero (the constructor sums natively)
    for w in ("[(1, 1e308), (2, 1e308), (3, 1e308)]", "[(1, 1.7976931348623157e308), (2, 1.7976931348623157e308)]", "[(1, 5e-324), (2, 5e-324)]",
              "[(1, 0.0), (2, 0.0)]", "[(1, 1.0), (2, 1e308)]", "[(1, 1e-320), (2, 1.0), (3, 1e308), (4, 1e308)]"):
        out["DiscreteDistribution"].append("custom_distribution(%s)" % w)
    return out


def literal_cases():
    lits = ["1e308", "1.7976931348623157e308", "1.7976931348623159e308", "1e309", "1e999", "1E999", "0.1e400", "1e-999", "5e-324", "1e-400",
            "123456789012345678901234567890123456789012345678901234567890e300", "1" + "0" * 400 + ".0", "1" + "0" * 308 + ".0", "1" + "0" * 309 + ".5",
            "1_0e3_0_8", "1_0e3_0_9", "0.0e999",
            # whole decimal literals beyond the integer literal range are read as floats: they must be finite too
            "2" + "0" * 308, "1" + "0" * 309, "9" * 400, "17976931348623157" + "0" * 292, "17976931348623159" + "0" * 292, "1" + "0" * 45, "1_" + "0" * 320, "9" * 400 + "e-100", "179769313486231580793728971405303415079934132710037826936173778980444968292764750946649017977587207096330286416692887910946555547851940402630657488671505820681908902000708383676273854845817711531764475730270069855571366959622842914819860834936475292719074168444365510704342711559699508093042880177904174667898.0"]
    out = []
    for i, x in enumerate(lits):
        out.append(("literal " + x[:40], "let v = %s;\n" % x))
        out.append(("negated literal " + x[:40], "let v = -%s;\n" % x))
        out.append(("literal in a container " + x[:40], "let v = [(%s, some(%s))];\n" % (x, x)))
        out.append(("literal default/param " + x[:40], "fn f(a: float ?= %s)->float { a }\nlet v = f();\n" % x))
    for s in ['"1e999"', '"inf"', '"NaN"', '"-inf"', '"1e308"', '"infinity"', '"1e-999"', '"nan"']:
        out.append(("json text " + s, "let v = json_deserialize(%s);\n" % s))
        out.append(("json number in array " + s, "let v = json_deserialize(\"[\" + %s + \"]\");\n" % s))
    return out


OPS2 = ["+", "-", "*", "/", "**", "%"]
FN1 = ["sqrt", "ln", "exp", "sin", "cos", "tan", "atan", "asin", "acos", "sinh", "cosh", "tanh", "asinh", "acosh", "atanh", "gamma", "gammaln", "erf", "erfc", "cbrt",
       "expm1", "log1p", "abs", "neg", "sign"]


def compose(rnd, depth):
    if depth == 0 or rnd.random() < 0.25:
        c = rnd.random()
        if c < 0.6:
            return rnd.choice(F_EDGES)
        if c < 0.8:
            return rnd.choice(I_EDGES) + ".to_float()"
        return "(%s / %s)" % (rnd.choice(I_EDGES), rnd.choice(I_EDGES))
    c = rnd.random()
    if c < 0.5:
        return "(%s %s %s)" % (compose(rnd, depth - 1), rnd.choice(OPS2), compose(rnd, depth - 1))
    if c < 0.85:
        return "%s(%s)" % (rnd.choice(FN1), compose(rnd, depth - 1))
    if c < 0.9:
        return "if_error(%s, %s)" % (compose(rnd, depth - 1), compose(rnd, depth - 1))
    if c < 0.95:
        return "[%s, %s].sum()" % (compose(rnd, depth - 1), compose(rnd, depth - 1))
    return "log(%s, %s)" % (compose(rnd, depth - 1), compose(rnd, depth - 1))


def sweep(sigs, tier, rnd, dists):
    """(label, [call source]) per signature"""
    out = []
    for sig in sigs:
        name = sig["name"]
        if name.startswith("__std_sleep") or name in surface.SKIP or name in ("now", "__std_unix_now", "__std_json_deserialize"):
            continue
        if not relevant(sig):
            continue
        pts, _ = surface.instantiate(sig, surface.FLOAT)
        canon, pools = [], []
        ok = True
        for p in pts:
            n = tname(p)
            base = n.split("<")[0]
            if base in dists:
                q = dists[base]
                q = q if tier == "thorough" else rnd.sample(q, min(len(q), 60))
                pools.append(q)
                canon.append(surface.inhabitants(p)[0])
                continue
            q = pool_for(p, False)
            try:
                inh = surface.inhabitants(p)
            except surface.NoInhabitant:
                inh = None
            if q is None and inh is None:
                ok = False
                break
            pools.append(q if q is not None else inh[:3])
            canon.append((inh or q)[0])
        if not ok:
            continue
        calls = set()
        nreq = sum(1 for _, r in sig["params"] if r)
        for k in range(nreq, len(pts) + 1):
            calls.add(tuple(canon[:k]))
            for i in range(k):
                for alt in pools[i]:
                    v = list(canon[:k])
                    v[i] = alt
                    calls.add(tuple(v))
            # pairs of edge arguments
            for i, j in itertools.combinations(range(k), 2):
                pi = pool_for(pts[i], tier == "quick") or pools[i]
                pj = pool_for(pts[j], tier == "quick") or pools[j]
                pairs = list(itertools.product(pi, pj))
                cap = 150 if tier == "quick" else 1500
                if len(pairs) > cap:
                    pairs = rnd.sample(pairs, cap)
                for a, b in pairs:
                    v = list(canon[:k])
                    v[i], v[j] = a, b
                    calls.add(tuple(v))
        out.append((sig["text"], ["%s(%s)" % (name, ", ".join(c)) for c in sorted(calls)]))
    return out


def run(chk, tier, seed):
    rnd = random.Random(seed)
    sigs = surface.static_signatures()
    dists = dist_values(sigs, tier, rnd)
    jobs, meta = [], {}
    LIM = {"calls": 200000, "depth": 200, "search": 5000, "size": 500000000}

    def add(label, src_lines, jid):
        # chunks of 60 bindings per program
        for b in range(0, len(src_lines), 60):
            part = src_lines[b:b + 60]
            src = "".join("let v%d = %s;\n" % (i, e) for i, e in enumerate(part))
            j = {"id": "%s_%d" % (jid, b), "src": src, "observe": ["v%d" % i for i in range(len(part))], "limits": LIM, "timeout_ms": 10000, "max_elems": 16, "rng_seed": 7}
            jobs.append(j)
            meta[j["id"]] = (label, part)
    for si, (label, calls) in enumerate(sweep(sigs, tier, rnd, dists)):
        add(label, calls, "s%d" % si)
    n = 600 if tier == "quick" else 20000
    add("composition", [compose(rnd, rnd.randint(1, 4)) for _ in range(n)], "c")
    lit = literal_cases()
    for i, (label, src) in enumerate(lit):
        j = {"id": "lit%d" % i, "src": src, "observe": ["v"], "limits": LIM, "timeout_ms": 10000}
        jobs.append(j)
        meta[j["id"]] = (label, None)
    res = vf.run_jobs(jobs, "c13", timeout_ms=10000)
    # programs that do not compile / die as a whole are split into single calls
    solo = []
    for j in list(jobs):
        label, part = meta[j["id"]]
        if part is not None and vf.job_outcome(res[j["id"]]) != "ok":
            for i, e in enumerate(part):
                s = {"id": "%s_%d" % (j["id"], i), "src": "let v0 = %s;\n" % e, "observe": ["v0"], "limits": LIM, "timeout_ms": 10000, "max_elems": 16, "rng_seed": 7}
                solo.append(s)
                meta[s["id"]] = (label, [e])
    res.update(vf.run_jobs(solo, "c13-solo", timeout_ms=10000))
    final = [j for j in jobs if meta[j["id"]][1] is None or vf.job_outcome(res[j["id"]]) == "ok"] + solo
    events, owner = [], []
    per_sig = {}
    accepted = rejected = 0
    for j in final:
        o = res[j["id"]]
        oc = vf.job_outcome(o)
        label, part = meta[j["id"]]
        if oc == "compile_err":
            rejected += 1
            continue
        if oc != "ok":
            chk.count(1)
            detail = {k: v for k, v in o.items() if k in ("compile", "inst", "crash", "timeout")}
            msg = json.dumps(detail)[:300]
            if oc.startswith("inst_") and oc != "inst_panic":
                # a limit tripped while computing: not a float, nothing to check
                continue
            loc = re.search(r"@ (/repo/src/[^\"]+)", msg)
            lib = re.search(r"/(statrs-[^\"]+)", msg)
            ctor = re.search(r"(\w+_distribution)\(", j["src"])
            if loc:
                key = "panic:" + loc.group(1)
            else:
                # a panic / hang inside the statistics library: identified by constructor, method and site
                key = "%s:%s(%s)" % (lib.group(1) if lib else oc, label.split("(")[0], ctor.group(1) if ctor else "?")
            chk.violation("%s: %s %s" % (label, oc, msg), {"kind": "float", "source": j["src"], "observed": oc}, finding_key=key)
            continue
        for name in j["observe"]:
            d = o["values"].get(name)
            if d is None or "lookup_err" in d:
                continue
            chk.count(1)
            accepted += 1
            expr = part[int(name[1:])] if part is not None else j["src"]
            chk.nontrivial(expr)
            if "dump_panic" in d:
                chk.violation("%s: dumping the value of %s panicked: %s" % (label, expr, d["dump_panic"][:200]), {"kind": "float", "source": "let v0 = %s;\n" % expr if part is not None else j["src"]},
                              finding_key="panic:dump")
                continue
            per_sig[label] = per_sig.get(label, 0) + 1
            events.append({"ev": "Finite", "v": c01.shape_value(d)})
            owner.append((label, expr, part is not None, d))
    B = 6000
    for b in range(0, len(events), B):
        base = b
        chunk = events[b:b + B]
        while chunk:
            d = vf.workdir("c13-shape")
            path = d + "/values.ndjson"
            with open(path, "w") as f:
                for e in chunk:
                    f.write(json.dumps(e) + "\n")
            r = vf.tlc("XrShape", "XrShape.cfg", "c13-shape-tlc", workers=1, env={"TRACE": path}, dfs=True, xmx="4g")
            chk.add_tlc(r)
            chk.cov["traces_validated_against_impl"] += 1
            if '"TRACE_ACCEPTED"' in r.out:
                break
            m = re.search(r'<<"TRACE_REJECTED_AT", (\d+),', r.out)
            if not m:
                raise vf.ToolError("XrShape failed:\n" + r.out[-2000:])
            k = int(m.group(1)) - 1
            label, expr, is_expr, dump = owner[base + k]
            fn = label.split("(")[0]
            chk.violation("%s: %s is not finite: %s" % (label, expr[:160], json.dumps(dump)[:200]),
                          {"kind": "float", "source": "let v0 = %s;\n" % expr if is_expr else expr, "value": dump}, finding_key="nonfinite:" + label)
            base += k + 1
            chunk = chunk[k + 1:]
    chk.part("inputs", signatures=len(per_sig), distribution_values={k: len(v) for k, v in dists.items()}, literals=len(lit), accepted_values=accepted, rejected_programs=rejected)
    if owner:
        label, expr, _, dump = owner[len(owner) // 2]
        chk.sample({"signature": label, "expression": expr, "value": dump})
    chk.cov["rule"] = ("every root-scope signature that mentions float/Complex/Duration/Datetime/Fraction/distributions, each parameter swept over %d float / %d int edge "
                       "values (0, -0, subnormal, +-1, domain edges, overflow thresholds of exp/gamma/squares, 1e308-scale, ints up to 10^400), pairs of parameters, every "
                       "distribution constructor x edge parameters x every method; literal spellings (overflowing exponents, 300-400 digit mantissas, underscores, defaults, "
                       "JSON text); random operator/function compositions of depth <= 4; non-trivial = distinct accepted expression" % (len(F_EDGES), len(I_EDGES)))
    chk.assumptions += ["lazy sequences are forced for their first 16 elements", "dynamic overloads (mean, median, ... when dispatched dynamically) are reached only through compositions",
                        "random draws use the harness' deterministic generator (seed 7)"]


def replay(chk, path):
    rp = json.load(open(path))
    names = re.findall(r"(?m)^let (\w+)", rp["source"])
    o = vf.run_jobs([{"id": "r", "src": rp["source"], "observe": names, "limits": {"calls": 200000, "depth": 200, "search": 5000, "size": 500000000}, "max_elems": 16, "rng_seed": 7}], "replay")["r"]
    oc = vf.job_outcome(o)
    chk.count(1)
    chk.nontrivial("replay")
    chk.nontrivial(rp["source"])
    chk.sample({"source": rp["source"][:300], "outcome": oc, "values": {k: v for k, v in list(o.get("values", {}).items())[:3]}})
    if oc in ("crash", "timeout", "missing") or oc.endswith("panic"):
        chk.violation("still fails: " + oc, rp)
    else:
        def bad(v):
            s = c01.shape_value(v)

            def walk(x):
                if isinstance(x, dict):
                    if x.get("t") == "float" and not x.get("finite"):
                        return True
                    return any(walk(y) for y in x.values())
                if isinstance(x, list):
                    return any(walk(y) for y in x)
                return False
            return walk(s)
        if any(bad(v) for v in o.get("values", {}).values() if "lookup_err" not in v and "dump_panic" not in v):
            chk.violation("still not finite", rp)
    return chk.finish()
