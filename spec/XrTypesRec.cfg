INIT Init
NEXT Next
INVARIANT Emit
INVARIANT SelfAssignable
INVARIANT RegularKeepsType
CHECK_DEADLOCK FALSE
