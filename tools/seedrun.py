#!/usr/bin/env python3
"""Apply a seeded change to /repo, run checks against it, revert.  Never commits anything in /repo.

  tools/seedrun.py seeded/C02-1 C02 [C01 ...] [--tier quick|thorough] [--suite]

Writes seeded/<name>/result.json: per check exit code, violation count, wall time."""
import json
import os
import subprocess
import sys
import time

ROOT = os.path.dirname(os.path.dirname(os.path.abspath(__file__)))
REPO = os.environ.get("VERIF_REPO", "/repo")   # a snapshot of /repo when run in the background (vp run --with-repo)


def sh(cmd, **kw):
    return subprocess.run(cmd, shell=True, capture_output=True, text=True, **kw)


def main():
    args = [a for a in sys.argv[1:] if not a.startswith("--")]
    tier = "quick"
    if "--tier" in sys.argv:
        tier = sys.argv[sys.argv.index("--tier") + 1]
        args.remove(tier)
    d = os.path.join(ROOT, args[0]) if not os.path.isabs(args[0]) else args[0]
    checks = args[1:]
    patch = os.path.join(d, "patch.diff")
    st = sh("git -C " + REPO + " status --porcelain").stdout.strip()
    if st:
        print("refusing: /repo is not clean:\n" + st)
        return 2
    r = sh("git -C " + REPO + " apply --check %s" % patch)
    if r.returncode != 0:
        print("patch does not apply:", r.stderr)
        return 2
    out = {"patch": os.path.relpath(patch, ROOT), "tier": tier, "checks": {}}
    resfile = os.path.join(d, "result.json")
    if os.path.exists(resfile):
        try:
            old = json.load(open(resfile))
            out["checks"] = old.get("checks", {})
            if "suite" in old:
                out["suite"] = old["suite"]
        except Exception:
            pass
    try:
        sh("git -C " + REPO + " apply %s" % patch)
        if "--suite" in sys.argv:
            t = time.time()
            r = sh("cd " + REPO + " && cargo test --workspace --no-fail-fast --offline 2>&1 | grep -E '^test result'")
            out["suite"] = {"lines": r.stdout.strip().split("\n"), "wall_s": round(time.time() - t, 1)}
            print("suite:", out["suite"]["lines"])
        for c in checks:
            t = time.time()
            r = sh("cd %s && bin/check %s --tier %s" % (ROOT, c, tier))
            viol = [l for l in r.stdout.split("\n") if l.startswith("VIOLATION")]
            first = ""
            lines = r.stdout.split("\n")
            for i, l in enumerate(lines):
                if l.startswith("VIOLATION") and i + 1 < len(lines):
                    first = lines[i + 1].strip()[:300]
                    break
            out["checks"]["%s:%s" % (c, tier)] = {"exit": r.returncode, "violations": len(viol), "first": first, "wall_s": round(time.time() - t, 1),
                                                  "tail": "" if r.returncode in (0, 1) else (r.stdout + r.stderr)[-600:]}
            print("%s %s: exit %d, %d violation lines  %s" % (c, tier, r.returncode, len(viol), first[:160]))
    finally:
        sh("git -C " + REPO + " checkout -- .")
        sh("git -C " + REPO + " clean -fdq -- src tests test_scripts")
        # evidence and replays written against the mutated tree are not evidence about /repo
        sh("cd %s && git checkout -- evidence && git clean -fdq -- replays" % ROOT)
    json.dump(out, open(resfile, "w"), indent=1)
    st = sh("git -C " + REPO + " status --porcelain").stdout.strip()
    if st:
        print("WARNING: /repo not clean after revert:\n" + st)
        return 2
    return 0


if __name__ == "__main__":
    sys.exit(main())
