------------------------------ MODULE XrStrRepr ------------------------------
(***************************************************************************)
(* Representation layer of M6 (strings): a str value is a UTF-8 buffer     *)
(* plus, for text that is not pure ASCII, a table with the byte offset at  *)
(* which every character starts (src/util/fenced_string.rs).  Everything   *)
(* len / get / substring / find do afterwards goes through that table, so  *)
(* a value whose table disagrees with its text answers in bytes instead of *)
(* characters.  For every observed string value (hook verif_dump):         *)
(*   w      UTF-8 width of each character of the text, in order            *)
(*   len    what len() reports                                             *)
(*   bytes  size of the buffer                                             *)
(*   table  the char-start table                                           *)
(* the value is well-formed iff len is the number of characters, bytes is  *)
(* the sum of the widths, and the table is either exactly the prefix sums  *)
(* of the widths or absent for pure ASCII text.                            *)
(*   env TRACE = ndjson of {ev:"Str", w, len, bytes, table}                *)
(***************************************************************************)
EXTENDS Integers, Sequences, TLC, Json, IOUtils

Rec == ndJsonDeserialize(IOEnv.TRACE)
VARIABLE l

RECURSIVE Sum(_, _)
Sum(w, k) == IF k = 0 THEN 0 ELSE Sum(w, k - 1) + w[k]        \* bytes before character k+1

StrOK(e) ==
    /\ \A i \in 1..Len(e.w) : e.w[i] \in 1..4
    /\ e.len = Len(e.w)
    /\ e.bytes = Sum(e.w, Len(e.w))
    /\ \/ e.table = <<>> /\ \A i \in 1..Len(e.w) : e.w[i] = 1
       \/ Len(e.table) = Len(e.w) /\ \A i \in 1..Len(e.w) : e.table[i] = Sum(e.w, i - 1)

Init == l = 1
Next == l <= Len(Rec) /\ Rec[l].ev = "Str" /\ StrOK(Rec[l]) /\ l' = l + 1
Spec == Init /\ [][Next]_l
Accepted ==
    LET d == TLCGet("stats").diameter
    IN IF d - 1 = Len(Rec) THEN PrintT(<<"TRACE_ACCEPTED", Len(Rec)>>)
       ELSE PrintT(<<"TRACE_REJECTED_AT", d, ToJson(Rec[d])>>) /\ FALSE
=============================================================================
