-------------------------------- MODULE XrSeq --------------------------------
(***************************************************************************)
(* M5 (sequences): every Sequence value behaves as the finite or infinite  *)
(* list of its elements, whichever lazy representation the implementation  *)
(* picked (std/sequence.md).  The machine grows a pool of sequence-valued  *)
(* and scalar-valued bindings: each step applies one library operation to  *)
(* earlier bindings (so slices of slices, chains of chains, maps over zips *)
(* arise by themselves) and records the list-semantics result.  A          *)
(* behaviour is one program: all bindings are read back at the end, the    *)
(* operands too - no operation may alter the sequences it was applied to.  *)
(* Infinite sequences are carried as a long valid prefix; whatever the     *)
(* documentation leaves open (to_array of an infinite sequence, insert at  *)
(* len, negative index into an infinite sequence, ...) is never generated. *)
(* Walked with `tlc -simulate`.                                            *)
(***************************************************************************)
EXTENDS XrEval, Json, SequencesExt, FiniteSets

CONSTANT Steps               \* operations per program
PL == 40                     \* valid prefix carried for infinite sequences

\* a pool entry: [n (name), k ("seq"|"int"|"bool"|"opt"), ety ("int"|"pair"), inf, v, term]
\*   v: for seq = list of element values; for scalars = the value; v = ErrV("?") for error results
Fin(xs) == [inf |-> FALSE, xs |-> xs]
Norm(i, n) == IF i < 0 THEN n + i ELSE i

IntsFrom(a, n) == [i \in 1..n |-> IntV(a + i - 1)]
RangeList(a, b, s) ==
    \* range(a, b, s), s # 0
    LET cnt == IF s > 0 THEN (IF a < b THEN 1 + (b - 1 - a) \div s ELSE 0)
                        ELSE (IF a > b THEN 1 + (a - 1 - b) \div (-s) ELSE 0)
    IN [i \in 1..cnt |-> IntV(a + (i - 1) * s)]

Fns == <<"inc", "dbl", "neg">>
ApplyFn(f, x) == CASE f = "inc" -> IntV(x.v + 1) [] f = "dbl" -> IntV(x.v * 2) [] f = "neg" -> IntV(-x.v)
Preds == <<"lt3", "even", "pos">>
ApplyPred(p, x) == CASE p = "lt3" -> x.v < 3 [] p = "even" -> x.v % 2 = 0 [] p = "pos" -> x.v > 0

RECURSIVE Repeat(_, _), InsertSorted(_, _), SortInts(_), TakeWhile(_, _, _), SkipUntil(_, _, _),
          CountIf(_, _, _), NthMatch(_, _, _, _)
Repeat(xs, n) == IF n <= 0 THEN <<>> ELSE xs \o Repeat(xs, n - 1)
InsertSorted(x, ys) == IF ys = <<>> THEN <<x>>
                       ELSE IF x.v < Head(ys).v THEN <<x>> \o ys ELSE <<Head(ys)>> \o InsertSorted(x, Tail(ys))
SortInts(xs) == IF xs = <<>> THEN <<>> ELSE InsertSorted(Head(xs), SortInts(Tail(xs)))
TakeWhile(p, xs, i) == IF i > Len(xs) \/ ~ApplyPred(p, xs[i]) THEN i - 1 ELSE TakeWhile(p, xs, i + 1)
SkipUntil(p, xs, i) == IF i > Len(xs) \/ ApplyPred(p, xs[i]) THEN i - 1 ELSE SkipUntil(p, xs, i + 1)
CountIf(p, xs, i) == IF i > Len(xs) THEN 0 ELSE (IF ApplyPred(p, xs[i]) THEN 1 ELSE 0) + CountIf(p, xs, i + 1)
NthMatch(p, xs, i, left) ==
    IF i > Len(xs) THEN NoneV
    ELSE IF ApplyPred(p, xs[i]) THEN (IF left = 0 THEN SomeV(xs[i]) ELSE NthMatch(p, xs, i + 1, left - 1))
    ELSE NthMatch(p, xs, i + 1, left)
RECURSIVE SumAll(_, _), LastMatch(_, _, _), Filter(_, _, _)
SumAll(xs, i) == IF i > Len(xs) THEN 0 ELSE xs[i].v + SumAll(xs, i + 1)
LastMatch(p, xs, i) == IF i < 1 THEN NoneV ELSE IF ApplyPred(p, xs[i]) THEN SomeV(xs[i]) ELSE LastMatch(p, xs, i - 1)
Filter(p, xs, i) == IF i > Len(xs) THEN <<>>
                    ELSE (IF ApplyPred(p, xs[i]) THEN <<xs[i]>> ELSE <<>>) \o Filter(p, xs, i + 1)
MinOf(xs) == CHOOSE x \in {xs[j].v : j \in 1..Len(xs)} : \A j \in 1..Len(xs) : x <= xs[j].v
MaxOf(xs) == CHOOSE x \in {xs[j].v : j \in 1..Len(xs)} : \A j \in 1..Len(xs) : x >= xs[j].v
\* a run of take / skip operations applied one after the other (slices of slices of slices)
RECURSIVE SliceRun(_, _, _), SliceTerm(_, _, _)
SliceRun(xs, ops, i) ==
    IF i > Len(ops) THEN xs
    ELSE LET k == ops[i][2]  n == Len(xs)  c == IF k > n THEN n ELSE k
         IN SliceRun(IF ops[i][1] = "take" THEN SubSeq(xs, 1, c) ELSE SubSeq(xs, c + 1, n), ops, i + 1)
SliceTerm(t, ops, i) ==
    IF i > Len(ops) THEN t
    ELSE SliceTerm([k |-> "call", f |-> ops[i][1], args |-> <<t, [k |-> "lit", ty |-> "int", v |-> ops[i][2]]>>, sty |-> "method"], ops, i + 1)
Zip2(xs, ys) == [i \in 1..(IF Len(xs) < Len(ys) THEN Len(xs) ELSE Len(ys)) |-> StructV(<<xs[i], ys[i]>>)]

\* k-element subsequences / k-permutations of a list of pairwise distinct elements (std/sequence.md: combinations,
\* permutations; the ORDER in which they are listed is not documented - compared as sets - but combination(i, k)
\* and permutation(i, k) must be the i-th entries of those listings)
RECURSIVE Combs(_, _), Perms(_, _), SetSeq(_)
Combs(xs, k) == IF k = 0 THEN {<<>>}
                ELSE IF Len(xs) < k THEN {}
                ELSE {<<xs[1]>> \o c : c \in Combs(Tail(xs), k - 1)} \cup Combs(Tail(xs), k)
Without(xs, i) == SubSeq(xs, 1, i - 1) \o SubSeq(xs, i + 1, Len(xs))
Perms(xs, k) == IF k = 0 THEN {<<>>}
                ELSE UNION {{<<xs[i]>> \o q : q \in Perms(Without(xs, i), k - 1)} : i \in 1..Len(xs)}
SetSeq(S) == IF S = {} THEN <<>> ELSE LET x == CHOOSE y \in S : TRUE IN <<x>> \o SetSeq(S \ {x})
Distinct(xs) == \A a, b \in 1..Len(xs) : a # b => xs[a] # xs[b]

VARIABLES pool, step, r
svars == <<pool, step, r>>

\* all randomness of a step is drawn once, into the state (r), and every choice below is a
\* deterministic function of it
Ch(S, x) == SetToSortSeq(S, LAMBDA a, b : a < b)[(x % Cardinality(S)) + 1]
SeqEntries(ety, infOK) == {i \in 1..Len(pool) : pool[i].k = "seq" /\ ~pool[i].err /\ (ety = "any" \/ pool[i].ety = ety)
                                             /\ (infOK \/ ~pool[i].inf)}
Name(i) == "s" \o ToString(i)
V(i) == [k |-> "var", n |-> pool[i].n]
Lit(x) == [k |-> "lit", ty |-> "int", v |-> x]
LitArr(xs) == [k |-> "arr", items |-> [i \in 1..Len(xs) |-> Lit(xs[i].v)]]
Call(f, as) == [k |-> "call", f |-> f, args |-> as, sty |-> "method"]
Lam(f) == [k |-> "raw", src |-> CASE f = "inc" -> "(x: int) -> {x + 1}" [] f = "dbl" -> "(x: int) -> {x * 2}"
                                 [] f = "neg" -> "(x: int) -> {-x}" [] f = "lt3" -> "(x: int) -> {x < 3}"
                                 [] f = "even" -> "(x: int) -> {x % 2 == 0}" [] f = "pos" -> "(x: int) -> {x > 0}"]

NewSeq(xs, inf, ety, term) == [n |-> Name(Len(pool) + 1), k |-> "seq", ety |-> ety, inf |-> inf, err |-> FALSE, v |-> xs, term |-> term]
NewVal(k, v, term) == [n |-> Name(Len(pool) + 1), k |-> k, ety |-> "int", inf |-> FALSE, err |-> FALSE, v |-> v, term |-> term]
NewErr(k, ety, term) == [n |-> Name(Len(pool) + 1), k |-> k, ety |-> ety, inf |-> FALSE, err |-> TRUE, v |-> <<>>, term |-> term]

\* candidate index arguments around the interesting places
Idx(n, x) == Ch({-n - 1, -n, -1, 0, 1, n - 1, n, n + 1, 2}, x)

Source(rr) ==
    LET c == Ch(1..6, rr[1])
    IN IF c = 1 THEN LET n == Ch(0..4, rr[2]) xs == [i \in 1..n |-> IntV(Ch(-2..5, rr[2 + i]))]
                     IN IF n = 0 THEN NewSeq(<<>>, FALSE, "int", Call("range", <<Lit(1), Lit(1)>>) )
                        ELSE NewSeq(xs, FALSE, "int", LitArr(xs))
       ELSE IF c = 2 THEN LET a == Ch(-3..4, rr[2]) b == Ch(-3..6, rr[3]) s == Ch({-3, -2, -1, 1, 2, 3}, rr[4])
                          IN NewSeq(RangeList(a, b, s), FALSE, "int", [k |-> "call", f |-> "range", sty |-> "fn",
                                                                        args |-> <<Lit(a), Lit(b), Lit(s)>>])
       ELSE IF c = 3 THEN LET b == Ch(0..5, rr[2])
                          IN NewSeq(RangeList(0, b, 1), FALSE, "int", [k |-> "call", f |-> "range", sty |-> "fn", args |-> <<Lit(b)>>])
       ELSE IF c = 4 THEN NewSeq(IntsFrom(0, PL), TRUE, "int", [k |-> "call", f |-> "count", sty |-> "fn", args |-> <<>>])
       ELSE LET n == Ch(1..3, rr[2]) xs == [i \in 1..n |-> IntV(Ch(0..3, rr[2 + i]))] IN NewSeq(xs, FALSE, "int", LitArr(xs))

\* one library operation on earlier bindings; Source when nothing suitable exists
Op(rr) ==
    LET S == SeqEntries("any", TRUE)
    IN IF S = {} THEN Source(rr)
    ELSE
    LET i == Ch(S, rr[1])  e == pool[i]  xs == e.v  n == Len(xs)
        o == Ch(1..47, rr[2])
    IN
    IF e.inf THEN
        \* operations that are meaningful on an infinite sequence
        LET q == Ch(1..10, rr[2])
        IN IF q = 1 THEN LET k == Ch(0..6, rr[3]) IN NewSeq(SubSeq(xs, 1, k), FALSE, e.ety, Call("take", <<V(i), Lit(k)>>))
           ELSE IF q = 2 /\ n > 16 THEN LET k == Ch(0..4, rr[3]) IN NewSeq(SubSeq(xs, k + 1, n), TRUE, e.ety, Call("skip", <<V(i), Lit(k)>>))
           ELSE IF q = 3 /\ e.ety = "int" THEN LET f == Fns[Ch(1..3, rr[3])]
                               IN NewSeq([j \in 1..n |-> ApplyFn(f, xs[j])], TRUE, "int", Call("map", <<V(i), Lam(f)>>))
           ELSE IF q = 4 THEN LET k == Ch(0..5, rr[3]) IN NewVal(IF e.ety = "int" THEN "int" ELSE "pair", xs[k + 1], Call("get", <<V(i), Lit(k)>>))
           ELSE IF q = 5 THEN NewErr("int", "int", Call("len", <<V(i)>>))
           ELSE IF q = 8 THEN NewVal("bool", BoolV(TRUE), Call("is_infinite", <<V(i)>>))
           ELSE IF q \in {9, 10} /\ n > 30
                  THEN LET ops == [j \in 1..3 |-> <<IF (rr[4] \div (2 ^ j)) % 2 = 0 THEN "skip" ELSE "take", (rr[4 + j] % 6)>>]
                           takes == \E j \in 1..3 : ops[j][1] = "take"
                       IN NewSeq(SliceRun(xs, ops, 1), ~takes, e.ety, SliceTerm(V(i), ops, 1))
           ELSE IF q = 7 /\ {j \in SeqEntries(e.ety, FALSE) : Len(pool[j].v) = 0} # {}
                  THEN \* concatenation with an empty right operand is the left operand, infinite or not,
                       \* however the empty operand came about
                       LET j == Ch({j \in SeqEntries(e.ety, FALSE) : Len(pool[j].v) = 0}, rr[3])
                       IN NewSeq(xs, TRUE, e.ety, Call("add", <<V(i), V(j)>>))
           ELSE IF q = 6 /\ SeqEntries(e.ety, FALSE) # {}
                  THEN LET j == Ch(SeqEntries(e.ety, FALSE), rr[3])
                       IN IF Len(pool[j].v) + n >= 12
                            THEN NewSeq(SubSeq(pool[j].v \o xs, 1, IF Len(pool[j].v) + n < PL THEN Len(pool[j].v) + n ELSE PL), TRUE, e.ety, Call("add", <<V(j), V(i)>>))
                            ELSE Source(rr)
           ELSE IF SeqEntries("int", FALSE) # {} /\ e.ety = "int"
                  THEN LET j == Ch(SeqEntries("int", FALSE), rr[3])
                       IN NewSeq(Zip2(xs, pool[j].v), FALSE, "pair", [k |-> "call", f |-> "zip", sty |-> "fn", args |-> <<V(i), V(j)>>])
           ELSE Source(rr)
    ELSE
    CASE o = 1 -> NewVal("int", IntV(n), Call("len", <<V(i)>>))
      [] o = 2 -> LET k == Idx(n, rr[3]) j == Norm(k, n)
                  IN IF j < 0 \/ j >= n THEN NewErr(IF e.ety = "int" THEN "int" ELSE "pair", e.ety, Call("get", <<V(i), Lit(k)>>))
                     ELSE NewVal(IF e.ety = "int" THEN "int" ELSE "pair", xs[j + 1], Call("get", <<V(i), Lit(k)>>))
      [] o = 3 -> LET k == Ch({-1, 0, 1, n - 1, n, n + 1, 2}, rr[3])
                  IN IF k < 0 THEN NewErr("seq", e.ety, Call("take", <<V(i), Lit(k)>>))
                     ELSE NewSeq(SubSeq(xs, 1, IF k > n THEN n ELSE k), FALSE, e.ety, Call("take", <<V(i), Lit(k)>>))
      [] o = 4 -> LET k == Ch({-1, 0, 1, n - 1, n, n + 1, 2}, rr[3])
                  IN IF k < 0 THEN NewErr("seq", e.ety, Call("skip", <<V(i), Lit(k)>>))
                     ELSE NewSeq(SubSeq(xs, (IF k > n THEN n ELSE k) + 1, n), FALSE, e.ety, Call("skip", <<V(i), Lit(k)>>))
      [] o = 5 -> LET S2 == SeqEntries(e.ety, FALSE) j == Ch(S2, rr[3])
                  IN IF n + Len(pool[j].v) > 40 THEN Source(rr)       \* stay inside what the harness dumps (64 elements)
                     ELSE NewSeq(xs \o pool[j].v, FALSE, e.ety, [k |-> "call", f |-> "add", sty |-> "op", args |-> <<V(i), V(j)>>])
      [] o = 6 /\ e.ety = "int" -> LET f == Fns[Ch(1..3, rr[3])]
                  IN NewSeq([j \in 1..n |-> ApplyFn(f, xs[j])], FALSE, "int", Call("map", <<V(i), Lam(f)>>))
      [] o = 7 /\ e.ety = "int" -> LET S2 == SeqEntries("int", TRUE) j == Ch(S2, rr[3])
                  IN NewSeq(Zip2(xs, pool[j].v), FALSE, "pair", [k |-> "call", f |-> "zip", sty |-> "fn", args |-> <<V(i), V(j)>>])
      [] o = 8 /\ e.ety = "int" -> LET x == Ch(-2..5, rr[3]) IN NewSeq(Append(xs, IntV(x)), FALSE, "int", Call("push", <<V(i), Lit(x)>>))
      [] o = 9 /\ e.ety = "int" -> LET x == Ch(-2..5, rr[3]) IN NewSeq(<<IntV(x)>> \o xs, FALSE, "int", Call("rpush", <<V(i), Lit(x)>>))
      [] o = 10 /\ e.ety = "int" ->
                  LET k == Idx(n, rr[3]) j == Norm(k, n) x == Ch(-2..5, rr[4])
                  IN IF j = n THEN Source(rr)           \* insert at len: not documented
                     ELSE IF j < 0 \/ j > n THEN NewErr("seq", "int", Call("insert", <<V(i), Lit(k), Lit(x)>>))
                     ELSE NewSeq(SubSeq(xs, 1, j) \o <<IntV(x)>> \o SubSeq(xs, j + 1, n), FALSE, "int",
                                 Call("insert", <<V(i), Lit(k), Lit(x)>>))
      [] o = 11 -> LET k == Idx(n, rr[3]) j == Norm(k, n)
                   IN IF j < 0 \/ j >= n THEN NewErr("seq", e.ety, Call("pop", <<V(i), Lit(k)>>))
                      ELSE NewSeq(SubSeq(xs, 1, j) \o SubSeq(xs, j + 2, n), FALSE, e.ety, Call("pop", <<V(i), Lit(k)>>))
      [] o = 12 /\ e.ety = "int" ->
                   LET k == Idx(n, rr[3]) j == Norm(k, n) x == Ch(-2..5, rr[4])
                   IN IF j < 0 \/ j >= n THEN NewErr("seq", "int", Call("set", <<V(i), Lit(k), Lit(x)>>))
                      ELSE NewSeq([xs EXCEPT ![j + 1] = IntV(x)], FALSE, "int", Call("set", <<V(i), Lit(k), Lit(x)>>))
      [] o = 13 -> LET k1 == Idx(n, rr[3]) k2 == Idx(n, rr[4]) j1 == Norm(k1, n) j2 == Norm(k2, n)
                   IN IF j1 < 0 \/ j1 >= n \/ j2 < 0 \/ j2 >= n THEN NewErr("seq", e.ety, Call("swap", <<V(i), Lit(k1), Lit(k2)>>))
                      ELSE NewSeq([xs EXCEPT ![j1 + 1] = xs[j2 + 1], ![j2 + 1] = xs[j1 + 1]], FALSE, e.ety,
                                  Call("swap", <<V(i), Lit(k1), Lit(k2)>>))
      [] o = 14 -> NewSeq(Reverse(xs), FALSE, e.ety, Call("reverse", <<V(i)>>))
      [] o = 15 -> LET k == Ch({-1, 0, 1, 2, 3}, rr[3])
                   IN IF k < 0 /\ n = 0 THEN Source(rr)       \* not documented: negative count of an empty sequence
                      ELSE IF k < 0 THEN NewErr("seq", e.ety, Call("repeat", <<V(i), Lit(k)>>))
                      ELSE IF n * k > 16 THEN Source(rr)
                      ELSE NewSeq(Repeat(xs, k), FALSE, e.ety, Call("repeat", <<V(i), Lit(k)>>))
      [] o = 16 -> LET k == Ch({0, 1, 2}, rr[3])
                   IN IF n * k > 16 THEN Source(rr)
                      ELSE NewSeq(Repeat(xs, k), FALSE, e.ety, [k |-> "call", f |-> "mul", sty |-> "op", args |-> <<V(i), Lit(k)>>])
      [] o = 17 -> NewSeq(xs, FALSE, e.ety, Call("to_array", <<V(i)>>))
      [] o = 18 /\ e.ety = "int" -> LET p == Preds[Ch(1..3, rr[3])] k == Ch(0..2, rr[4])
                   IN NewVal("opt", NthMatch(p, xs, 1, k), Call("nth", <<V(i), Lit(k), Lam(p)>>))
      [] o = 19 /\ e.ety = "int" -> LET p == Preds[Ch(1..3, rr[3])]
                   IN NewSeq(SubSeq(xs, 1, TakeWhile(p, xs, 1)), FALSE, "int", Call("take_while", <<V(i), Lam(p)>>))
      [] o = 20 /\ e.ety = "int" -> LET p == Preds[Ch(1..3, rr[3])]
                   IN NewSeq(SubSeq(xs, SkipUntil(p, xs, 1) + 1, n), FALSE, "int", Call("skip_until", <<V(i), Lam(p)>>))
      [] o = 21 /\ e.ety = "int" -> NewSeq([j \in 1..n |-> StructV(<<IntV(j - 1), xs[j]>>)], FALSE, "pair", Call("enumerate", <<V(i)>>))
      [] o = 22 /\ e.ety = "int" -> LET p == Preds[Ch(1..3, rr[3])]
                   IN NewVal("int", IntV(CountIf(p, xs, 1)), Call("count", <<V(i), Lam(p)>>))
      [] o = 23 /\ e.ety = "int" -> LET x == Ch(-2..5, rr[3])
                   IN NewVal("bool", BoolV(\E j \in 1..n : xs[j].v = x), Call("contains", <<V(i), Lit(x)>>))
      [] o = 24 /\ e.ety = "int" -> NewSeq(SortInts(xs), FALSE, "int", Call("sort", <<V(i)>>))
      \* ---- second batch (std/sequence.md) ----
      [] o = 25 /\ e.ety = "int" -> LET p == Preds[Ch(1..3, rr[3])]
                   IN NewVal("bool", BoolV(\A j \in 1..n : ApplyPred(p, xs[j])), Call("all", <<V(i), Lam(p)>>))
      [] o = 26 /\ e.ety = "int" -> LET p == Preds[Ch(1..3, rr[3])]
                   IN NewVal("bool", BoolV(\E j \in 1..n : ApplyPred(p, xs[j])), Call("any", <<V(i), Lam(p)>>))
      [] o = 27 /\ e.ety = "int" -> LET p == Preds[Ch(1..3, rr[3])]
                   IN NewVal("opt", NthMatch(p, xs, 1, 0), Call("first", <<V(i), Lam(p)>>))
      [] o = 28 /\ e.ety = "int" -> LET p == Preds[Ch(1..3, rr[3])]
                   IN NewVal("opt", LastMatch(p, xs, n), Call("last", <<V(i), Lam(p)>>))
      [] o = 29 /\ e.ety = "int" -> LET a == Ch(-2..3, rr[3])
                   IN NewVal("int", IntV(a + SumAll(xs, 1)), Call("reduce", <<V(i), Lit(a), [k |-> "raw", src |-> "(a: int, b: int) -> {a + b}"]>>))
      [] o = 30 /\ e.ety = "int" /\ n >= 1 ->
                   NewVal("int", IntV(SumAll(xs, 1)), Call("reduce", <<V(i), [k |-> "raw", src |-> "(a: int, b: int) -> {a + b}"]>>))
      [] o = 31 /\ e.ety = "int" -> LET a == Ch(-2..3, rr[3])
                   IN NewVal("int", IntV(a + SumAll(xs, 1)), Call("sum", <<V(i), Lit(a)>>))
      [] o = 32 /\ e.ety = "int" -> LET a == Ch(-2..3, rr[3]) d == Ch({-2, -1, 1, 2, 3}, rr[4])
                   IN NewSeq([j \in 1..n |-> StructV(<<IntV(a + (j - 1) * d), xs[j]>>)], FALSE, "pair",
                             Call("enumerate", <<V(i), Lit(a), Lit(d)>>))
      [] o = 33 /\ n >= 1 -> NewSeq(SubSeq(Repeat(xs, 1 + PL \div n), 1, PL), TRUE, e.ety, Call("repeat", <<V(i)>>))
      \* bisect: the sequence must start with the items that satisfy the predicate (sorted ints, lt3)
      [] o = 34 /\ e.ety = "int" -> LET ys == SortInts(xs)
                   IN NewVal("int", IntV(CountIf("lt3", ys, 1)),
                             Call("bisect", <<Call("sort", <<V(i)>>), Lam("lt3")>>))
      [] o = 35 /\ e.ety = "int" /\ n >= 1 -> NewVal("int", IntV(MinOf(xs)), Call("min", <<V(i)>>))
      [] o = 36 /\ e.ety = "int" /\ n >= 1 -> NewVal("int", IntV(MaxOf(xs)), Call("max", <<V(i)>>))
      [] o = 37 /\ e.ety = "int" -> NewSeq(Reverse(SortInts(xs)), FALSE, "int", Call("sort_reverse", <<V(i)>>))
      [] o = 38 -> NewVal("bool", BoolV(FALSE), Call("is_infinite", <<V(i)>>))
      [] o = 39 /\ e.ety = "int" -> LET p == Preds[Ch(1..3, rr[3])]
                   IN NewSeq(Filter(p, xs, 1), FALSE, "int", Call("to_array", <<Call("filter", <<V(i), Lam(p)>>)>>))
      [] o = 40 /\ e.ety = "int" /\ n >= 1 ->
                   LET RECSUM[j \in 1..n] == IF j = 1 THEN xs[1].v ELSE RECSUM[j - 1] + xs[j].v
                   IN NewSeq([j \in 1..n |-> IntV(RECSUM[j])], FALSE, "int",
                             Call("to_array", <<Call("aggregate", <<V(i), [k |-> "raw", src |-> "(a: int, b: int) -> {a + b}"]>>)>>))
      \* three or four take / skip operations in a row on one sequence (any representation underneath)
      [] o \in {41, 42, 43} ->
                   LET m == 3 + (rr[3] % 2)
                       ops == [j \in 1..m |-> <<IF (rr[4] \div (2 ^ j)) % 2 = 0 THEN "skip" ELSE "take", (rr[4 + j] % (n + 2))>>]
                   IN NewSeq(SliceRun(xs, ops, 1), FALSE, e.ety, SliceTerm(V(i), ops, 1))
      \* ---- combinatorics written in the language (over short lists of distinct ints) ----
      [] o = 44 /\ e.ety = "int" /\ n <= 5 /\ Distinct(xs) ->
                   LET k == Ch(0..(n + 1), rr[3])
                   IN IF k > n THEN NewErr("seq", "int", Call("to_array", <<Call("combinations", <<V(i), Lit(k)>>)>>))
                      ELSE [NewSeq([j \in 1..Cardinality(Combs(xs, k)) |-> SeqV(SetSeq(Combs(xs, k))[j])], FALSE, "bag",
                                   Call("to_array", <<Call("combinations", <<V(i), Lit(k)>>)>>)) EXCEPT !.k = "bag"]
      [] o = 45 /\ e.ety = "int" /\ n <= 4 /\ Distinct(xs) ->
                   LET k == Ch(0..n, rr[3])
                   IN [NewSeq([j \in 1..Cardinality(Perms(xs, k)) |-> SeqV(SetSeq(Perms(xs, k))[j])], FALSE, "bag",
                              Call("to_array", <<Call("permutations", <<V(i), Lit(k)>>)>>)) EXCEPT !.k = "bag"]
      \* the i-th combination / permutation is the i-th entry of the listing
      [] o = 46 /\ e.ety = "int" /\ n <= 5 /\ n >= 1 /\ Distinct(xs) ->
                   LET k == Ch(1..n, rr[3])  c == Cardinality(Combs(xs, k))  idx == Ch(0..(c - 1), rr[4])
                   IN NewVal("bool", BoolV(TRUE), [k |-> "call", f |-> "eq", sty |-> "op",
                             args |-> <<Call("combination", <<V(i), Lit(idx), Lit(k)>>),
                                        Call("get", <<Call("to_array", <<Call("combinations", <<V(i), Lit(k)>>)>>), Lit(idx)>>)>>])
      [] o = 47 /\ e.ety = "int" /\ n <= 4 /\ n >= 1 /\ Distinct(xs) ->
                   LET k == Ch(1..n, rr[3])  c == Cardinality(Perms(xs, k))  idx == Ch(0..(c - 1), rr[4])
                   IN NewVal("bool", BoolV(TRUE), [k |-> "call", f |-> "eq", sty |-> "op",
                             args |-> <<Call("permutation", <<V(i), Lit(idx), Lit(k)>>),
                                        Call("get", <<Call("to_array", <<Call("permutations", <<V(i), Lit(k)>>)>>), Lit(idx)>>)>>])
      [] OTHER -> Source(rr)

Init == pool = <<>> /\ step = 0 /\ r = <<>>
Next == /\ step < Steps
        /\ r' = [j \in 1..8 |-> RandomElement(0..5039)]
        /\ pool' = Append(pool, IF step < 2 THEN Source(r') ELSE Op(r'))
        /\ step' = step + 1
Spec == Init /\ [][Next]_svars

ProjE(e) ==
    IF e.err THEN [t |-> "err", m |-> "?"]
    ELSE IF e.k = "bag" THEN [t |-> "bagseq", v |-> [i \in 1..Len(e.v) |-> Proj(e.v[i])]]
    ELSE IF e.k = "seq" THEN [t |-> "seq", inf |-> e.inf, v |-> [i \in 1..(IF e.inf THEN 10 ELSE Len(e.v)) |-> Proj(e.v[i])]]
    ELSE Proj(e.v)

Emit ==
    (step = Steps) =>
        PrintT(<<"CASE", ToJson([binds |-> [i \in 1..Len(pool) |-> [n |-> pool[i].n, term |-> pool[i].term, v |-> ProjE(pool[i])]]])>>)

\* list-semantics laws checked on every generated pool (design level)
TakeSkipPartition ==
    \A i \in 1..Len(pool) : (pool[i].k = "seq" /\ ~pool[i].inf /\ ~pool[i].err) =>
        \A k \in 0..Len(pool[i].v) : SubSeq(pool[i].v, 1, k) \o SubSeq(pool[i].v, k + 1, Len(pool[i].v)) = pool[i].v
ReverseInvolutive ==
    \A i \in 1..Len(pool) : (pool[i].k = "seq" /\ ~pool[i].inf /\ ~pool[i].err) =>
        Reverse(Reverse(pool[i].v)) = pool[i].v
=============================================================================
