------------------------------- MODULE XrCore -------------------------------
(***************************************************************************)
(* Program-level machine over XrEval: a run of a program is                *)
(*   Instantiate: one transition per top-level declaration, in order       *)
(*   Host calls : run_function(f) / reset_calls, on the same runtime       *)
(* The behaviours of this machine - values of all top-level bindings,      *)
(* output lines, violation kinds, counter values - are printed as CASE     *)
(* records and replayed into the real interpreter.                         *)
(*   env PROGS = ndjson file of programs (ASTs), one per line              *)
(***************************************************************************)
EXTENDS XrScope, Json, IOUtils

Progs == ndJsonDeserialize(IOEnv.PROGS)

VARIABLES pi,    \* index of the program being run
          di,    \* next top-level declaration
          hi,    \* next host call
          env, st, binds, runs

cvars == <<pi, di, hi, env, st, binds, runs>>

P == Progs[pi]
LimOf(p) == [calls |-> p.lim.calls, depth |-> p.lim.depth, rec |-> p.lim.rec,
             search |-> p.lim.search]
EmptyEnv == [x \in {} |-> Nil]

Start(i) ==
    /\ pi' = i /\ di' = 1 /\ hi' = 1
    /\ env' = EmptyEnv
    /\ st' = St0(LimOf(Progs[i]))
    /\ binds' = <<>> /\ runs' = <<>>

Init == /\ pi = 1 /\ di = 1 /\ hi = 1 /\ env = EmptyEnv /\ st = St0(LimOf(Progs[1]))
        /\ binds = <<>> /\ runs = <<>>

\* instantiate: evaluate the next top-level declaration
Decl ==
    /\ pi <= Len(Progs) /\ di <= Len(P.decls) /\ ~Dead(st)
    /\ LET d == P.decls[di]
           r == EvDecls(<<d>>, env, st)
       IN /\ env' = r.env /\ st' = r.st
          /\ binds' = IF d.k = "let" /\ ~Dead(r.st)
                        THEN Append(binds, [n |-> d.n, v |-> Proj(r.env[d.n])]) ELSE binds
    /\ di' = di + 1
    /\ UNCHANGED <<pi, hi, runs>>

InstDone == di > Len(P.decls) \/ Dead(st)

\* host protocol after a successful instantiation
HostCall ==
    /\ pi <= Len(Progs) /\ InstDone /\ st.viol = "none" /\ ~st.taint /\ di > Len(P.decls)
    /\ hi <= Len(P.calls)
    /\ LET c == P.calls[hi]
       IN IF c.op = "reset_calls"
            THEN /\ st' = [st EXCEPT !.calls = 0]
                 /\ runs' = Append(runs, [op |-> "reset_calls"])
            ELSE LET r == Apply(env[c.fn], <<>>, st)
                 IN /\ st' = [r.st EXCEPT !.viol = "none"]       \* the violation ended this call only
                    /\ runs' = Append(runs,
                          [op |-> "run", fn |-> c.fn, viol |-> r.st.viol, taint |-> r.st.taint,
                           v |-> IF Dead(r.st) THEN [t |-> "unknown"] ELSE Proj(r.r),
                           calls |-> r.st.calls])
    /\ hi' = hi + 1
    /\ UNCHANGED <<pi, di, env, binds>>

HostDone == InstDone /\ (Dead(st) \/ di <= Len(P.decls) \/ hi > Len(P.calls) \/ st.taint)

Emit ==
    /\ pi <= Len(Progs) /\ HostDone
    /\ ~(di <= Len(P.decls) /\ ~Dead(st))
    /\ PrintT(<<"CASE", ToJson([id |-> P.id, taint |-> st.taint, viol |-> st.viol,
                                static |-> IF P.hasfwd THEN StaticCheck(P.decls) ELSE "ok",
                                binds |-> binds, out |-> st.out, calls |-> st.calls,
                                maxdepth |-> st.maxdepth, maxrec |-> st.maxrec,
                                maxsearch |-> st.maxsearch, runs |-> runs])>>)
    /\ IF pi < Len(Progs) THEN Start(pi + 1)
       ELSE /\ pi' = pi + 1 /\ UNCHANGED <<di, hi, env, st, binds, runs>>

Next == Decl \/ (HostCall /\ ~HostDone) \/ Emit
Spec == Init /\ [][Next]_cvars

\* type soundness of the documented semantics on everything evaluated: no binding is Nil
\* or an internal tail-call token
NoInternalValueEscapes ==
    \A i \in 1..Len(binds) : binds[i].v.t \in
        {"int", "bool", "str", "seq", "struct", "opt", "union", "err", "fn"}
=============================================================================
