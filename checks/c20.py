"""C20 - Documented conversions are mutually inverse and canonical.

Decided by XrConv (day-step calendar machine walked by TLC; closed forms checked against it,
then used to predict date <-> Julian day <-> weekday over +-3,000,000 days and the day part of
Unix times), XrBigInt (fractions: results by cross-multiplication in limb arithmetic, lowest
terms, positive denominator), and replayed inverse laws for radix text (bases 2..36),
code points and JSON (an independent JSON parser reads the serialised text)."""
import json
import random

import vf
from checks import c14

LEVEL = "model_checking"


def calendar(chk, tier, seed, rnd):
    jd = {0, 1, -1, 2440588, 2451545, 3000000, -3000000, 2999999, -2999999, 1721060, 1721426, 1721425, 1721424}
    # every century boundary of the range, both sides; year 0 and negative years
    for y in range(-12900, 3500, 100):
        approx = 1721060 + int(y * 365.2425)
        for off in (-1, 0, 1, 59, 60, 365, 366):
            jd.add(approx + off)
    n = 1500 if tier == "quick" else 40000
    for _ in range(n):
        jd.add(rnd.randint(-3000000, 3000000))
    udays = [0, -1, 1, 10957, -10957, 1157407, -1157407, 365, -366, 19000] + [rnd.randint(-1157407, 1157407) for _ in range(60 if tier == "quick" else 1500)]
    jd |= {2440588 + x for x in udays}
    jd = sorted(x for x in jd if -3000000 <= x <= 3000000)
    d = vf.workdir("c20-cal")
    with open(d + "/days.ndjson", "w") as f:
        for x in jd:
            f.write(json.dumps({"jdn": x}) + "\n")
    r = vf.tlc("XrConv", "XrConv.cfg" if tier == "quick" else "XrConv_thorough.cfg", "c20-cal", workers=4, env={"DAYS": d + "/days.ndjson"}, timeout=3000, xmx="6g")
    if not r.ok:
        raise vf.ToolError("XrConv failed (closed forms disagree with the day-step machine?):\n" + r.out[-2000:])
    chk.add_tlc(r)
    cases = {c["jdn"]: c for c in r.cases()}
    jobs = []
    B = 80
    keys = sorted(cases)
    for b in range(0, len(keys), B):
        L = []
        for k, j in enumerate(keys[b:b + B]):
            c = cases[j]
            L.append("let d%d = date(%s);\nlet j%d = julian_day(Date(%s, %d, %d));\nlet w%d = weekday(Date(%s, %d, %d));" %
                     (k, "(%d)" % j if j < 0 else j, k, "(%d)" % c["y"] if c["y"] < 0 else c["y"], c["m"], c["d"], k,
                      "(%d)" % c["y"] if c["y"] < 0 else c["y"], c["m"], c["d"]))
        src = "\n".join(L) + "\n"
        jobs.append({"id": "cal%d" % b, "src": src, "observe": [x.split(" ")[1] for x in src.split("\n") if x.startswith("let ")],
                     "_keys": keys[b:b + B], "limits": {"calls": 10 ** 7}})
    res = vf.run_jobs([{k: v for k, v in j.items() if not k.startswith("_")} for j in jobs], "c20-cal")
    for j in jobs:
        o = res[j["id"]]
        if vf.job_outcome(o) != "ok":
            chk.violation("calendar program: %s %s" % (vf.job_outcome(o), str(o.get("compile", {}).get("msg") or o.get("inst"))[:300]), {"kind": "calendar", "source": j["src"]})
            continue
        for k, jdn in enumerate(j["_keys"]):
            c = cases[jdn]
            chk.count(1)
            chk.nontrivial(jdn)
            v = o["values"]
            dd = v["d%d" % k]
            got_date = [int(x["v"]) for x in dd["v"]] if dd.get("t") == "struct" and all(x.get("t") == "int" for x in dd["v"]) else dd
            gj = v["j%d" % k].get("v")
            gw = v["w%d" % k].get("v")
            bad = None
            if got_date != [c["y"], c["m"], c["d"]]:
                bad = "date(%d) expected Date(%d, %d, %d), observed %s" % (jdn, c["y"], c["m"], c["d"], got_date)
            elif gj != str(jdn):
                bad = "julian_day(Date(%d, %d, %d)) expected %d, observed %s" % (c["y"], c["m"], c["d"], jdn, gj)
            elif gw != str(c["wd"]):
                bad = "weekday(Date(%d, %d, %d)) expected %d, observed %s" % (c["y"], c["m"], c["d"], c["wd"], gw)
            if bad:
                region = "negative-jdn" if jdn < 0 else "positive-jdn"
                chk.violation(bad, {"kind": "calendar", "source": "let d0 = date(%s);\nlet j0 = julian_day(Date(%s, %d, %d));\n" %
                                    ("(%d)" % jdn if jdn < 0 else jdn, "(%d)" % c["y"] if c["y"] < 0 else c["y"], c["m"], c["d"]),
                                    "expected": c}, finding_key="calendar:" + region)
    # Unix time: day part predicted by the calendar machine, seconds of the day split by the harness
    ujobs = []
    days = udays
    L, meta = [], []
    for k, day in enumerate(days):
        sod = rnd.choice([0, 1, 59, 60, 3599, 3600, 43200, 86399])
        frac = rnd.choice([0.0, 0.5, 0.25])
        u = 86400 * day + sod + frac
        c = cases.get(2440588 + day)
        if c is None:
            continue
        L.append("let t%d = datetime(%s);\nlet u%d = unix(t%d);" % (k, "(%r)" % u if u < 0 else repr(u), k, k))
        meta.append((k, u, c, sod, frac))
    # the day numbers used above need predictions too
    src = "\n".join(L) + "\n"
    if meta:
        o = vf.run_jobs([{"id": "unix", "src": src, "observe": [x.split(" ")[1] for x in src.split("\n") if x.startswith("let ")], "limits": {"calls": 10 ** 7}}], "c20-unix")["unix"]
        if vf.job_outcome(o) != "ok":
            chk.violation("unix-time program: %s %s" % (vf.job_outcome(o), str(o.get("compile", {}).get("msg") or o.get("inst"))[:300]), {"kind": "calendar", "source": src})
        else:
            for k, u, c, sod, frac in meta:
                chk.count(1)
                chk.nontrivial(["unix", u])
                t = o["values"]["t%d" % k]
                try:
                    dt = t["v"]
                    got = ([int(x["v"]) for x in dt[0]["v"]], int(dt[1]["v"]), int(dt[2]["v"]), float(dt[3]["v"]))
                except Exception:
                    got = t
                want = ([c["y"], c["m"], c["d"]], sod // 3600, (sod % 3600) // 60, (sod % 60) + frac)
                back = o["values"]["u%d" % k]
                if got != want:
                    chk.violation("datetime(%r) expected %s, observed %s" % (u, want, got), {"kind": "calendar", "source": "let t0 = datetime(%s);\n" % ("(%r)" % u if u < 0 else repr(u))},
                                  finding_key="unix:" + ("negative" if u < 0 else "positive"))
                elif back.get("t") != "float" or float(back["v"]) != u:
                    chk.violation("unix(datetime(%r)) = %s" % (u, back.get("v")), {"kind": "calendar", "source": "let t0 = datetime(%r);\nlet u0 = unix(t0);\n" % u},
                                  finding_key="unix-back:" + ("negative" if u < 0 else "positive"))
    chk.part("calendar", days=len(cases), unix=len(meta))


def fractions(chk, tier, seed, rnd):
    def big():
        c = rnd.random()
        if c < 0.3:
            return rnd.randint(-20, 20)
        if c < 0.6:
            return rnd.randint(-2 ** 40, 2 ** 40)
        return rnd.choice([-1, 1]) * rnd.getrandbits(70)
    n = 120 if tier == "quick" else 1200
    jobs = []
    for i in range(n):
        n1, d1, n2, d2 = big(), big() or 3, big(), big() or -7
        L = ["let a = fraction(%s, %s);" % (c14.lit(n1), c14.lit(d1)), "let b = fraction(%s, %s);" % (c14.lit(n2), c14.lit(d2)),
             "let s = a + b;", "let t = a - b;", "let m = a * b;", "let q = a / b;", "let c = cmp(a, b);"]
        k = rnd.choice([-3, -2, -1, -1, 0, 1, 2, 3])
        L += ["let p = a ** %s;" % ("(%d)" % k if k < 0 else k), "let ng = -a;", "let ab = abs(a);", "let sg = sign(a);", "let e = a == b;",
              "let e2 = a == fraction(%s, %s);" % (c14.lit(n1 * 3), c14.lit(d1 * 3)),
              "let fl = floor(a);", "let ce = ceil(a);", "let tr = trunc(a);", "let md = a % b;", "let mq = floor(a / b);"]
        for nm in ("a", "b", "s", "t", "m", "q", "p", "ng", "ab", "md"):
            L.append("let %s_n = %s::n;\nlet %s_d = %s::d;\nlet %s_g = gcd(%s::n, %s::d) == 1;" % (nm, nm, nm, nm, nm, nm, nm))
        src = "\n".join(L) + "\n"
        jobs.append({"id": "fr%d" % i, "src": src, "observe": c14.NAMES.findall(src), "_v": (n1, d1, n2, d2), "_k": k, "limits": {"calls": 10 ** 7}})
    fl = [0.5, -0.75, 3.0, 0.1, 1e-3, 2.0 ** -40, 123456.789, -1e10] + [rnd.uniform(-100, 100) for _ in range(4 if tier == "quick" else 60)]
    fsrc = "".join("let f%d = fraction(%s);\nlet f%d_n = f%d::n;\nlet f%d_d = f%d::d;\nlet f%d_g = gcd(f%d::n, f%d::d) == 1;\n" % (i, "(%r)" % x if x < 0 else repr(x), i, i, i, i, i, i, i) for i, x in enumerate(fl))
    jobs.append({"id": "frfloat", "src": fsrc, "observe": c14.NAMES.findall(fsrc), "_fl": fl, "limits": {"calls": 10 ** 7}})
    res = vf.run_jobs([{k: v for k, v in j.items() if not k.startswith("_")} for j in jobs], "c20-frac")
    events, owner = [], []
    for j in jobs:
        o = res[j["id"]]
        if "_fl" in j:
            if vf.job_outcome(o) != "ok":
                chk.violation("fraction(float) program: %s" % vf.job_outcome(o), {"kind": "fraction", "source": j["src"]})
                continue
            for i, x in enumerate(j["_fl"]):
                chk.count(1)
                chk.nontrivial(["float", x])
                pn, pd = x.as_integer_ratio()
                vn, vd = o["values"]["f%d_n" % i], o["values"]["f%d_d" % i]
                if vn.get("t") != "int" or vd.get("t") != "int":
                    chk.violation("fraction(%r) is not a fraction: %s" % (x, o["values"]["f%d" % i]), {"kind": "fraction", "source": j["src"]})
                    continue
                events.append({"ev": "fnew", "n": c14.limbs(pn), "d": c14.limbs(pd), "rn": c14.limbs(vn["v"]), "rd": c14.limbs(vd["v"])}); owner.append((j, "fraction(%r)" % x))
                events.append({"ev": "fnorm", "rd": c14.limbs(vd["v"]), "gcd1": o["values"]["f%d_g" % i].get("v") is True}); owner.append((j, "normal form of fraction(%r)" % x))
            continue
        n1, d1, n2, d2 = j["_v"]
        chk.count(1)
        chk.nontrivial(j["_v"])
        if vf.job_outcome(o) != "ok":
            chk.violation("fraction program: %s %s" % (vf.job_outcome(o), str(o.get("compile", {}).get("msg") or o.get("inst"))[:300]), {"kind": "fraction", "source": j["src"]})
            continue
        v = o["values"]

        def num(name):
            d = v[name]
            return c14.limbs(d["v"]) if d.get("t") == "int" else None
        parts = {nm: (num(nm + "_n"), num(nm + "_d"), v[nm + "_g"].get("v") is True) for nm in ("a", "b", "s", "t", "m", "q", "p", "ng", "ab", "md")}
        if parts["a"][0] is None or parts["b"][0] is None:
            chk.violation("fraction(%d, %d) did not construct: %s" % (n1, d1, v["a"]), {"kind": "fraction", "source": j["src"]})
            continue
        L = c14.limbs
        events.append({"ev": "fnew", "n": L(n1), "d": L(d1), "rn": parts["a"][0], "rd": parts["a"][1]}); owner.append((j, "fraction(%d, %d)" % (n1, d1)))
        events.append({"ev": "fnew", "n": L(n2), "d": L(d2), "rn": parts["b"][0], "rd": parts["b"][1]}); owner.append((j, "fraction(%d, %d)" % (n2, d2)))
        an, ad = parts["a"][0], parts["a"][1]
        bn, bd = parts["b"][0], parts["b"][1]
        for nm, evn in (("s", "fadd"), ("t", "fsub"), ("m", "fmul"), ("q", "fdiv")):
            rn, rd, g1 = parts[nm]
            if rn is None:
                if nm == "q" and n2 == 0:
                    continue
                chk.violation("%s of fractions is not a fraction: %s" % (evn, v[nm]), {"kind": "fraction", "source": j["src"]})
                continue
            if nm == "q" and n2 == 0:
                continue
            events.append({"ev": evn, "n1": an, "d1": ad, "n2": bn, "d2": bd, "rn": rn, "rd": rd}); owner.append((j, "%s(%d/%d, %d/%d)" % (evn, n1, d1, n2, d2)))
            events.append({"ev": "fnorm", "rd": rd, "gcd1": g1}); owner.append((j, "normal form of %s(%d/%d, %d/%d)" % (evn, n1, d1, n2, d2)))
        for nm in ("a", "b"):
            events.append({"ev": "fnorm", "rd": parts[nm][1], "gcd1": parts[nm][2]}); owner.append((j, "normal form of fraction %s" % nm))
        # unary operations, powers, rounding, equality, modulo
        k = j["_k"]
        desc = "%d/%d" % (n1, d1)
        if n1 == 0 and k == 0:
            pass        # 0 ** 0: an error value for ints (std/int.md); std/fraction.md does not say - left open
        elif parts["p"][0] is None:
            if not (n1 == 0 and k < 0):
                chk.violation("(%s) ** %d is not a fraction: %s" % (desc, k, v["p"]), {"kind": "fraction", "source": j["src"]}, finding_key="fraction:fpow")
        elif n1 == 0 and k < 0:
            chk.violation("(0/%d) ** %d should be an error value, observed %s/%s" % (d1, k, v["p_n"].get("v"), v["p_d"].get("v")), {"kind": "fraction", "source": j["src"]}, finding_key="fraction:fpow0")
        else:
            events.append({"ev": "fpow", "n1": an, "d1": ad, "k": k, "rn": parts["p"][0], "rd": parts["p"][1]}); owner.append((j, "(%s) ** %d" % (desc, k)))
            events.append({"ev": "fnorm", "rd": parts["p"][1], "gcd1": parts["p"][2]}); owner.append((j, "normal form of (%s) ** %d" % (desc, k)))
        for nm, evn in (("ng", "fneg"), ("ab", "fabs")):
            if parts[nm][0] is None:
                chk.violation("%s(%s) is not a fraction: %s" % (evn, desc, v[nm]), {"kind": "fraction", "source": j["src"]})
                continue
            events.append({"ev": evn, "n1": an, "d1": ad, "rn": parts[nm][0], "rd": parts[nm][1]}); owner.append((j, "%s(%s)" % (evn, desc)))
            events.append({"ev": "fnorm", "rd": parts[nm][1], "gcd1": parts[nm][2]}); owner.append((j, "normal form of %s(%s)" % (evn, desc)))
        if v["sg"].get("t") == "int":
            events.append({"ev": "fsign", "n1": an, "d1": ad, "r": int(v["sg"]["v"])}); owner.append((j, "sign(%s)" % desc))
        else:
            chk.violation("sign(%s) is not an int: %s" % (desc, v["sg"]), {"kind": "fraction", "source": j["src"]})
        if v["e"].get("t") == "bool":
            events.append({"ev": "feq", "n1": an, "d1": ad, "n2": bn, "d2": bd, "r": v["e"]["v"]}); owner.append((j, "%s == %d/%d" % (desc, n2, d2)))
        if v["e2"].get("v") is not True:
            chk.violation("%s == %d/%d (the same number, unreduced) is %s" % (desc, n1 * 3, d1 * 3, v["e2"]), {"kind": "fraction", "source": j["src"]}, finding_key="fraction:feq")
        for nm, evn in (("fl", "ffloor"), ("ce", "fceil"), ("tr", "ftrunc")):
            if v[nm].get("t") == "int":
                events.append({"ev": evn, "n1": an, "d1": ad, "r": c14.limbs(v[nm]["v"])}); owner.append((j, "%s(%s)" % (evn, desc)))
            else:
                chk.violation("%s(%s) is not an int: %s" % (evn, desc, v[nm]), {"kind": "fraction", "source": j["src"]})
        if n2 != 0:
            if parts["md"][0] is None or v["mq"].get("t") != "int":
                chk.violation("%s %% %d/%d is not a fraction: %s" % (desc, n2, d2, v["md"]), {"kind": "fraction", "source": j["src"]})
            else:
                events.append({"ev": "fmod", "n1": an, "d1": ad, "n2": bn, "d2": bd, "q": c14.limbs(v["mq"]["v"]), "rn": parts["md"][0], "rd": parts["md"][1]})
                owner.append((j, "(%s) %% (%d/%d)" % (desc, n2, d2)))
                events.append({"ev": "fnorm", "rd": parts["md"][1], "gcd1": parts["md"][2]}); owner.append((j, "normal form of (%s) %% (%d/%d)" % (desc, n2, d2)))
                if parts["q"][0] is not None:
                    events.append({"ev": "ffloor", "n1": parts["q"][0], "d1": parts["q"][1], "r": c14.limbs(v["mq"]["v"])}); owner.append((j, "floor((%s) / (%d/%d))" % (desc, n2, d2)))
        cv = v["c"]
        if cv.get("t") == "int":
            cs = (int(cv["v"]) > 0) - (int(cv["v"]) < 0)
            events.append({"ev": "fcmp", "n1": an, "d1": ad, "n2": bn, "d2": bd, "r": cs}); owner.append((j, "cmp(%d/%d, %d/%d)" % (n1, d1, n2, d2)))
    d = vf.workdir("c20-frac-tr")
    todo = list(zip(events, owner))
    rounds = 0
    while todo and rounds < 12:
        rounds += 1
        with open(d + "/ev.ndjson", "w") as f:
            for e, _ in todo:
                f.write(json.dumps(e) + "\n")
        r = vf.tlc("XrBigInt", "XrBigInt.cfg", "c20-frac-tlc", workers=1, env={"TRACE": d + "/ev.ndjson"}, dfs=True, xmx="3g")
        chk.add_tlc(r)
        chk.cov["traces_validated_against_impl"] += 1
        if '"TRACE_ACCEPTED"' in r.out:
            break
        import re
        m = re.search(r'<<"TRACE_REJECTED_AT", (\d+),', r.out)
        if not m:
            raise vf.ToolError("XrBigInt (fractions) failed:\n" + r.out[-2000:])
        k = int(m.group(1)) - 1
        e, (j, what) = todo[k]
        chk.violation("%s is wrong: %s" % (what, json.dumps(e)[:240]), {"kind": "fraction", "source": j["src"], "event": e}, finding_key="fraction:" + e["ev"])
        todo = todo[k + 1:]
    chk.part("fractions", programs=len(jobs), events=len(events))


def radix_codepoints(chk, tier, seed, rnd):
    L = ['let alphabet = "0123456789abcdefghijklmnopqrstuvwxyz";',
         "fn text(x: int, b: int)->str { (x == 0).if(\"0\", digits(x, b).reverse().map((d: int) -> {alphabet[d]}).join()) }"]
    xs = [0, 1, 35, 36, 255, 2 ** 31, 2 ** 63, 2 ** 64 + 1, 10 ** 30] + [rnd.getrandbits(rnd.choice([8, 40, 70, 130])) for _ in range(6 if tier == "quick" else 60)]
    k = 0
    names = []
    for x in xs:
        for b in (range(2, 37) if tier == "thorough" or x in (0, 255, 2 ** 64 + 1) else [2, 3, 7, 10, 16, 35, 36]):
            L.append("let r%d = to_int(text(%s, %d), %d) == %s;" % (k, c14.lit(x), b, b, c14.lit(x)))
            names.append(("r%d" % k, "to_int(text(%d, %d), %d)" % (x, b, b)))
            k += 1
        for mode, b in (("x", 16), ("o", 8), ("b", 2)):
            for sx in (x, -x):
                L.append('let r%d = to_int(format(%s, "%s"), %d) == %s;' % (k, c14.lit(sx), mode, b, c14.lit(sx)))
                names.append(("r%d" % k, 'to_int(format(%d, "%s"), %d)' % (sx, mode, b)))
                k += 1
        L.append("let r%d = to_int(to_str(%s)) == %s;" % (k, c14.lit(-x), c14.lit(-x)))
        names.append(("r%d" % k, "to_int(to_str(%d))" % -x))
        k += 1
    cps = [0, 1, 65, 127, 128, 255, 0x7FF, 0x800, 0xD7FF, 0xE000, 0xFFFF, 0x10000, 0x10FFFF] + [rnd.randint(0, 0x10FFFF) for _ in range(30 if tier == "quick" else 600)]
    cps = [c for c in cps if not 0xD800 <= c <= 0xDFFF]
    for c in cps:
        L.append("let r%d = chr(%d).code_point() == %d && chr(%d).len() == 1;" % (k, c, c, c))
        names.append(("r%d" % k, "chr(%d).code_point()" % c))
        k += 1
    for c in (0xD800, 0xDBFF, 0xDC00, 0xDFFF, 0x110000, -1, 2 ** 40):
        L.append("let r%d = is_error(chr(%s));" % (k, c14.lit(c)))
        names.append(("r%d" % k, "chr(%d) must be an error" % c))
        k += 1
    for s in ("é", "中", "\U0001F600", "a"):
        L.append('let r%d = chr("%s".code_point()) == "%s";' % (k, s, s))
        names.append(("r%d" % k, "chr(code_point(%r))" % s))
        k += 1
    src = "\n".join(L) + "\n"
    o = vf.run_jobs([{"id": "radix", "src": src, "observe": [n for n, _ in names], "limits": {"calls": 10 ** 7}}], "c20-radix")["radix"]
    if vf.job_outcome(o) != "ok":
        chk.violation("radix program: %s %s" % (vf.job_outcome(o), str(o.get("compile", {}).get("msg") or o.get("inst"))[:300]), {"kind": "radix", "source": src})
        return
    for n, what in names:
        chk.count(1)
        chk.nontrivial(what)
        if o["values"][n].get("v") is not True:
            line = [x for x in L if x.startswith("let %s " % n)][0]
            chk.violation("%s: round trip fails (%s)" % (what, o["values"][n]), {"kind": "radix", "source": "\n".join(L[:2]) + "\n" + line + "\n"}, finding_key="radix:" + what.split("(")[0])
    chk.part("radix", laws=len(names))


def xstr(t):
    """an xray string literal for the text t"""
    esc = {'"': '\\"', "\\": "\\\\", "\n": "\\n", "\t": "\\t", "\r": "\\r"}
    return '"' + "".join(esc.get(c) or (c if ord(c) >= 32 else "\\u{%x}" % ord(c)) for c in t) + '"'


def json_docs(chk, tier, seed, rnd):
    def doc(depth):
        c = rnd.random()
        if depth >= 5 or c < 0.35:
            k = rnd.randrange(6)
            if k == 0:
                return rnd.choice([0, 1, -1, 42, 2 ** 31, -2 ** 40, 10 ** 15])
            if k == 1:
                return rnd.choice([0.5, -2.25, 1e10, 1.5e-5, 3.0, 0.1, 1e300, -1e-300, 5e-324, 1.7976931348623157e308, 2.2250738585072014e-308, 123456789.125, 1e21, 1e-7, rnd.uniform(-1e6, 1e6), rnd.random() * 10.0 ** rnd.randint(-300, 300)])
            if k == 2:
                return rnd.choice([True, False])
            if k == 3:
                return None
            return "".join(rnd.choice(["a", "Z", " ", '"', "\\", "/", "\n", "\t", "\u0001", "é", "中", "\U0001F600", "{", "]"]) for _ in range(rnd.randint(0, 5)))
        if c < 0.7:
            return [doc(depth + 1) for _ in range(rnd.randint(0, 3))]
        return {"k%d%s" % (i, rnd.choice(["", "é", '"'])): doc(depth + 1) for i in range(rnd.randint(0, 3))}

    def render(dv):
        if dv is None:
            return "json(())"
        if isinstance(dv, bool):
            return "json(%s)" % ("true" if dv else "false")
        if isinstance(dv, int):
            return "json(%s)" % c14.lit(dv)
        if isinstance(dv, float):
            return ("json(%r)" % dv if dv >= 0 else "json((%r))" % dv).replace("e+", "e")
        if isinstance(dv, str):
            return "json(%s)" % xstr(dv)
        if isinstance(dv, list):
            return "json([%s])" % ", ".join(render(x) for x in dv) if dv else "json(cast<Sequence<JSON>>([]))"
        items = ", ".join("(%s, %s)" % (xstr(k), render(x)) for k, x in dv.items())
        return "json(mapping<str>().update([%s]))" % items if dv else "json(cast<Mapping<str, JSON>>(mapping<str>()))"
    docs = [doc(0) for _ in range(60 if tier == "quick" else 1500)]
    # every control character, the characters JSON escapes, and the edges of the planes: alone (so that nothing
    # else in the string forces an escaping path), inside a word, and as an object key
    special = [chr(c) for c in list(range(0, 0x21)) + [0x22, 0x2f, 0x5c, 0x7f, 0x80, 0x9f, 0xa0, 0x2028, 0x2029, 0xd7ff, 0xe000, 0xfffd, 0xffff, 0x10000, 0x10ffff]]
    for ch in special:
        docs.append(ch)
        docs.append(["a" + ch + "b", {ch: 1, "k" + ch: [ch]}])
    jobs = [{"id": "js%d" % i, "src": "let d = %s;\nlet s = serialize(d);\nlet back = json_deserialize(s) == d;\n" % render(dv),
             "observe": ["s", "back"], "limits": {"calls": 10 ** 7}, "_doc": dv} for i, dv in enumerate(docs)]
    res = vf.run_jobs([{k: v for k, v in j.items() if not k.startswith("_")} for j in jobs], "c20-json")
    for j in jobs:
        o = res[j["id"]]
        chk.count(1)
        chk.nontrivial(j["src"])
        oc = vf.job_outcome(o)
        if oc != "ok":
            chk.violation("JSON program: %s %s" % (oc, str(o.get("compile", {}).get("msg") or o.get("inst"))[:300]), {"kind": "json", "source": j["src"]})
            continue
        s = o["values"]["s"]
        try:
            parsed = json.loads(s["v"])
        except Exception as e:
            chk.violation("serialize produced text an independent JSON parser rejects: %r (%s)" % (s.get("v"), e), {"kind": "json", "source": j["src"]}, finding_key="json:invalid-text")
            continue
        if parsed != j["_doc"]:
            chk.violation("serialize produced %r which reads as %r, expected %r" % (s["v"], parsed, j["_doc"]), {"kind": "json", "source": j["src"]}, finding_key="json:different-document")
        elif o["values"]["back"].get("v") is not True:
            chk.violation("json_deserialize(serialize(d)) != d for %r" % (j["_doc"],), {"kind": "json", "source": j["src"]}, finding_key="json:roundtrip")
    chk.part("json", documents=len(jobs))


def run(chk, tier, seed):
    rnd = random.Random(seed)
    calendar(chk, tier, seed, rnd)
    fractions(chk, tier, seed, rnd)
    radix_codepoints(chk, tier, seed, rnd)
    json_docs(chk, tier, seed, rnd)
    chk.sample({"calendar": "date(jdn) / julian_day / weekday for century boundaries, range ends and random days in +-3,000,000",
                "fractions": "fraction(n, d) with n, d up to 2^70, + - * / cmp, normal form",
                "radix": "to_int(text(x, b), b) for b in 2..36; format modes x/o/b; chr/code_point", "json": "serialize -> independent parser -> same document; deserialize(serialize(d)) == d"})
    chk.cov["rule"] = ("Julian days: both range ends, every century boundary +-1/59/60/365/366 days, random days; Unix times as "
                       "(day, second of day, fraction in {0, .25, .5}); fraction operand pairs up to 70 bits incl. negative and "
                       "zero numerators; ints x bases 2..36; scalar values incl. surrogate edges; random JSON documents "
                       "(nesting <= 5, escapes, controls, non-BMP, duplicate-free objects); non-trivial = distinct case")
    chk.assumptions += ["JSON numbers are integers and a fixed set of exactly representable floats; fraction(float) is not covered",
                        "the JSON inverse law uses Python's json module as the independent parser (not TLA+)"]


def replay(chk, path):
    rp = json.load(open(path))
    import re
    names = re.findall(r"let (\w+)", rp["source"])
    o = vf.run_jobs([{"id": "r", "src": rp["source"], "observe": names, "limits": {"calls": 10 ** 7}}], "replay")["r"]
    oc = vf.job_outcome(o)
    chk.count(1)
    chk.nontrivial("replay")
    chk.nontrivial(rp["source"])
    chk.sample({"source": rp["source"][:300], "outcome": oc, "values": {k: v.get("v") for k, v in o.get("values", {}).items()}})
    if oc != "ok":
        chk.violation("still fails: " + oc, rp)
    elif rp["kind"] == "calendar" and "expected" in rp:
        c = rp["expected"]
        dd = o["values"].get("d0", {})
        got = [int(x["v"]) for x in dd.get("v", [])] if dd.get("t") == "struct" else None
        if got != [c["y"], c["m"], c["d"]] or o["values"].get("j0", {}).get("v") != str(c["jdn"]):
            chk.violation("still deviates", rp)
    elif rp["kind"] == "radix":
        if any(v.get("v") is not True for k, v in o["values"].items() if k.startswith("r")):
            chk.violation("still deviates", rp)
    return chk.finish()
