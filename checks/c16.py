"""C16 - Generators denote fixed lazy streams.

Decided by XrGen: TLC random-walks a pool machine over generator operations (to_generator, map,
filter, take, skip, take_while, skip_until, zip, add, aggregate, enumerate, windows, chunks,
group, distinct, with_count, repeat (finite and infinite), len, last, get, reduce) on finite and
infinite sources (count(), successors) and records every stream by list semantics; every
generator is then consumed twice and both consumptions must give the recorded elements; taking
a finite prefix of an infinite pipeline must terminate.

Laziness is decided by XrBound's provenance model: for every pipeline over an infinite source
whose successor function prints, TLC computes how many source elements the demanded elements
need; the number actually evaluated (lines printed) must lie between that and that plus a
constant look-ahead per adaptor."""
import json
import random

import poolcheck
import vf

LEVEL = "model_checking"
LIM = {"search": 3000, "calls": 30000, "size": 60000000, "depth": 300, "recursion": 400}


def laziness(chk, tier, seed):
    rnd = random.Random(seed)
    r = vf.tlc("XrBound", "XrBound_quick.cfg" if tier == "quick" else "XrBound.cfg", "c16-bound", workers=8, timeout=3000, xmx="8g")
    if not r.ok:
        raise vf.ToolError("XrBound failed:\n" + r.out[-2500:])
    chk.add_tlc(r)
    cases = [c for c in r.cases() if c["source"] == "obs" and c["verdict"]["v"] == "value" and c["need"] >= 0]
    if len(cases) > 4000:
        cases = rnd.sample(cases, 4000)
    jobs = [{"id": "lz%d" % i, "src": "let v0 = %s;\n" % c["src"], "observe": ["v0"], "limits": LIM, "timeout_ms": 20000, "max_elems": 64} for i, c in enumerate(cases)]
    res = vf.run_jobs(jobs, "c16-lazy", timeout_ms=20000)
    within = over = 0
    for j, c in zip(jobs, cases):
        o = res[j["id"]]
        oc = vf.job_outcome(o)
        chk.count(1)
        chk.nontrivial(c["src"])
        key = "lazy:" + c["sink"] + ":" + ".".join(x.split("(")[0] for x in c["src"].split(").")[1:-1])
        if oc != "ok":
            chk.violation("%s needs %d source elements but evaluation ended with %s" % (c["src"], c["need"], oc),
                          {"kind": "lazy", "source": j["src"], "need": c["need"], "slack": c["slack"], "value": c["verdict"]["x"]}, finding_key=key)
            continue
        lines = len([x for x in (o.get("stdout") or "").split("\n") if x != ""])
        lo, hi = max(c["need"] - 1, 0), max(c["need"] - 1, 0) + c["slack"]
        if lo <= lines <= hi:
            within += 1
        else:
            over += 1
            chk.violation("%s: %d source elements were evaluated, the demanded elements need %d (look-ahead allowance %d)" % (c["src"], lines + 1, c["need"], c["slack"]),
                          {"kind": "lazy", "source": j["src"], "need": c["need"], "slack": c["slack"], "value": c["verdict"]["x"], "evaluated": lines + 1}, finding_key=key)
    chk.part("laziness", pipelines=len(cases), within_bound=within, outside=over)
    if cases:
        chk.sample({"lazy_pipeline": cases[len(cases) // 2]})


def run(chk, tier, seed):
    n = 3000 if tier == "quick" else 10000
    poolcheck.run_pool(chk, "XrGen", "XrGen.cfg", "c16", n, 11, seed, kind="generator",
                       limits={"calls": 200000, "depth": 400})
    laziness(chk, tier, seed)
    chk.cov["rule"] = ("TLC -simulate walks of the XrGen pool machine: 9 operations per program, every generator consumed "
                       "twice (to_array / take(6).to_array()); XrBound: every pipeline of <= 1 (quick) / 2 (thorough) adaptors x 14 sinks over "
                       "a printing infinite source with the model's needed-prefix; non-trivial = distinct rendered program")
    chk.assumptions += ["evaluated prefixes are observed through a successor function that prints (one line per evaluated element); "
                        "the allowance is 1 element per adaptor (k + 1 for windows / chunks of k) plus 1 for the source"]


def replay(chk, path):
    rp = json.load(open(path))
    if rp.get("kind") != "lazy":
        return poolcheck.replay_pool(chk, path)
    o = vf.run_jobs([{"id": "r", "src": rp["source"], "observe": ["v0"], "limits": LIM, "timeout_ms": 20000, "max_elems": 64}], "replay")["r"]
    oc = vf.job_outcome(o)
    lines = len([x for x in (o.get("stdout") or "").split("\n") if x != ""])
    chk.count(1)
    chk.nontrivial("replay")
    chk.nontrivial(rp["source"])
    chk.sample({"source": rp["source"], "outcome": oc, "evaluated": lines + 1, "need": rp["need"], "slack": rp["slack"]})
    lo = max(rp["need"] - 1, 0)
    if oc != "ok" or not (lo <= lines <= lo + rp["slack"]):
        chk.violation("still outside the bound", rp)
    return chk.finish()
