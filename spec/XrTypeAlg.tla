------------------------------- MODULE XrTypeAlg ------------------------------
(***************************************************************************)
(* M2 of DESIGN.md: the type algebra of xray as documented (lang/types.md, *)
(* lang/lambda_functions.md, property C04):                                *)
(*   Assignable(req, sup)  identical types; the bottom type `unknown` (of  *)
(*                         errors and empty containers) into anything;     *)
(*                         native containers, tuples and compounds         *)
(*                         component-wise and name-wise; callables by      *)
(*                         exact arity and component types; generic        *)
(*                         parameters bound consistently                   *)
(*   CommonType(a, b)      the least common type (inference of containers, *)
(*                         generic calls and generic compounds)            *)
(* TLC enumerates a universe of types, checks the lattice laws on it, and  *)
(* emits every (required, supplied) pair with its verdict and every pair   *)
(* with its common type for replay against the compiler.                   *)
(***************************************************************************)
EXTENDS Naturals, Sequences, FiniteSets, TLC, Json

Prim(n) == [k |-> n]
Int == Prim("int")  Str == Prim("str")  Bool == Prim("bool")  Unknown == Prim("unknown")
SeqT(a) == [k |-> "seq", a |-> a]
OptT(a) == [k |-> "opt", a |-> a]
GenT(a) == [k |-> "gen", a |-> a]
MapT(a, b) == [k |-> "map", a |-> a, b |-> b]
TupT(xs) == [k |-> "tup", items |-> xs]
FnT(ps, r) == [k |-> "fn", ps |-> ps, r |-> r]
CompT(name, args) == [k |-> "comp", name |-> name, args |-> args]   \* user struct / union
VarT(n) == [k |-> "var", n |-> n]                                   \* generic parameter

Base == {Int, Str, Bool, Unknown}
Ground == {Int, Str, Bool}

\* user compounds of the universe: name -> number of generic parameters
CompArity == [S0 |-> 0, S1 |-> 1, S2 |-> 2, U1 |-> 1]

Level1 ==
    Base
    \cup {SeqT(a) : a \in Base} \cup {OptT(a) : a \in Base} \cup {GenT(a) : a \in Base}
    \cup {MapT(Int, b) : b \in Base}
    \cup {TupT(<<>>)} \cup {TupT(<<a>>) : a \in Base} \cup {TupT(<<a, b>>) : a \in Base, b \in Base}
    \cup {FnT(<<>>, r) : r \in Base} \cup {FnT(<<a>>, r) : a \in {Int, Str}, r \in Base}
    \cup {FnT(<<a, b>>, r) : a \in {Int, Str}, b \in {Int}, r \in {Int, Str, Unknown}}
    \cup {CompT("S0", <<>>)} \cup {CompT("S1", <<a>>) : a \in Base} \cup {CompT("U1", <<a>>) : a \in Base}
    \cup {CompT("S2", <<a, b>>) : a \in Base, b \in Base}
    \* two-parameter compounds whose arguments differ in kind (so a swap cannot go unnoticed)
    \cup {CompT("S2", <<a, b>>) : a \in {OptT(Unknown), OptT(Str)}, b \in {SeqT(Unknown), SeqT(Int)}}

\* a second level over a thinner slice of the first
Slice == {Int, Unknown, SeqT(Int), SeqT(Unknown), OptT(Str), OptT(Unknown), TupT(<<Int, Str>>),
          TupT(<<Unknown, Str>>), CompT("S1", <<Int>>), CompT("S1", <<Unknown>>), CompT("S2", <<Int, Str>>),
          FnT(<<Int>>, Int), FnT(<<Int>>, Unknown), FnT(<<Int, Int>>, Int)}
Level2 ==
    {SeqT(a) : a \in Slice} \cup {OptT(a) : a \in Slice} \cup {TupT(<<a, b>>) : a \in Slice, b \in {Int, SeqT(Unknown)}}
    \cup {CompT("S1", <<a>>) : a \in Slice} \cup {FnT(<<Int>>, a) : a \in Slice}

----------------------------------------------------------------------------
RECURSIVE Assignable(_, _), AllAssignable(_, _), HasUnknown(_), AnyUnknown(_)

AllAssignable(rs, ss) == Len(rs) = Len(ss) /\ \A i \in 1..Len(rs) : Assignable(rs[i], ss[i])

\* `sup` can be supplied where `req` is required (generic variables only as rigid parameters of an
\* enclosing generic function; binding of a callee's own parameters is XrOverload's business)
Assignable(req, sup) ==
    IF sup.k = "unknown" THEN TRUE                       \* the bottom type fits anything
    ELSE IF req.k # sup.k THEN FALSE
    ELSE CASE req.k \in {"int", "str", "bool", "float"} -> TRUE
           [] req.k \in {"seq", "opt", "gen"} -> Assignable(req.a, sup.a)
           [] req.k = "map" -> Assignable(req.a, sup.a) /\ Assignable(req.b, sup.b)
           [] req.k = "tup" -> AllAssignable(req.items, sup.items)
           [] req.k = "comp" -> req.name = sup.name /\ AllAssignable(req.args, sup.args)
           [] req.k = "fn" -> AllAssignable(req.ps, sup.ps) /\ Assignable(req.r, sup.r)   \* exact arity
           \* inside the body of a generic function its own type parameters are opaque ("rigid"):
           \* T is assignable to T and to nothing else, and nothing else to T
           [] req.k = "var" -> req.n = sup.n
           [] OTHER -> FALSE

AnyUnknown(xs) == \E i \in 1..Len(xs) : HasUnknown(xs[i])
HasUnknown(t) ==
    CASE t.k = "unknown" -> TRUE
      [] t.k \in {"seq", "opt", "gen"} -> HasUnknown(t.a)
      [] t.k = "map" -> HasUnknown(t.a) \/ HasUnknown(t.b)
      [] t.k = "tup" -> AnyUnknown(t.items)
      [] t.k = "comp" -> AnyUnknown(t.args)
      [] t.k = "fn" -> AnyUnknown(t.ps) \/ HasUnknown(t.r)
      [] OTHER -> FALSE

RECURSIVE HasFn(_)
HasFn(t) ==
    CASE t.k = "fn" -> TRUE
      [] t.k \in {"seq", "opt", "gen"} -> HasFn(t.a)
      [] t.k = "map" -> HasFn(t.a) \/ HasFn(t.b)
      [] t.k = "tup" -> \E i \in 1..Len(t.items) : HasFn(t.items[i])
      [] t.k = "comp" -> \E i \in 1..Len(t.args) : HasFn(t.args[i])
      [] OTHER -> FALSE

None == [k |-> "none"]        \* "no common type"
RECURSIVE CommonType(_, _), CommonAll(_, _, _)
CommonAll(xs, ys, i) ==
    \* component-wise common types, or None if any component has none
    IF i > Len(xs) THEN <<>>
    ELSE LET c == CommonType(xs[i], ys[i])  rest == CommonAll(xs, ys, i + 1)
         IN IF c.k = "none" \/ (rest # <<>> /\ rest[1].k = "none") THEN <<None>> ELSE <<c>> \o rest
Failed(cs, n) == Len(cs) # n \/ \E i \in 1..Len(cs) : cs[i].k = "none"

\* the least type both a and b are assignable to
CommonType(a, b) ==
    IF a = b THEN a
    ELSE IF a.k = "unknown" THEN b
    ELSE IF b.k = "unknown" THEN a
    ELSE IF a.k # b.k THEN None
    ELSE CASE a.k \in {"seq", "opt", "gen"} ->
                LET c == CommonType(a.a, b.a) IN IF c.k = "none" THEN None ELSE [k |-> a.k, a |-> c]
           [] a.k = "map" ->
                LET c == CommonType(a.a, b.a)  d == CommonType(a.b, b.b)
                IN IF c.k = "none" \/ d.k = "none" THEN None ELSE MapT(c, d)
           [] a.k = "tup" ->
                IF Len(a.items) # Len(b.items) THEN None
                ELSE LET cs == CommonAll(a.items, b.items, 1)
                     IN IF Failed(cs, Len(a.items)) THEN None ELSE TupT(cs)
           [] a.k = "comp" ->
                IF a.name # b.name THEN None
                ELSE LET cs == CommonAll(a.args, b.args, 1)
                     IN IF Failed(cs, Len(a.args)) THEN None ELSE CompT(a.name, cs)
           [] OTHER -> None       \* distinct primitives; callables have no join in the documentation

----------------------------------------------------------------------------
(* shape of runtime values: what the canonical dump of a value of static type t may look like *)
RECURSIVE HasShape(_, _), AllShape(_, _)
AllShape(vs, ts) == Len(vs) = Len(ts) /\ \A i \in 1..Len(vs) : HasShape(vs[i], ts[i])
HasShape(v, t) ==
    IF v.t = "err" THEN TRUE                      \* an error value inhabits every type
    ELSE IF v.t = "violation" THEN TRUE           \* forcing a lazy element may trip a limit
    ELSE CASE t.k = "unknown" -> FALSE            \* only errors have the bottom type
           [] t.k = "int" -> v.t = "int"
           [] t.k = "str" -> v.t = "str"
           [] t.k = "bool" -> v.t = "bool"
           [] t.k = "float" -> v.t = "float" /\ v.finite       \* no NaN, no infinity (C13)
           [] t.k = "seq" -> v.t = "seq" /\ \A i \in 1..Len(v.v) : HasShape(v.v[i], t.a)
           [] t.k = "stack" -> v.t = "stack" /\ \A i \in 1..Len(v.v) : HasShape(v.v[i], t.a)
           [] t.k = "set" -> v.t = "set" /\ \A i \in 1..Len(v.v) : HasShape(v.v[i], t.a)
           [] t.k = "opt" -> v.t = "opt" /\ (v.has => HasShape(v.v, t.a))
           [] t.k = "gen" -> v.t = "gen"
           [] t.k = "map" -> v.t = "map" /\ \A i \in 1..Len(v.v) :
                                  HasShape(v.v[i][1], t.a) /\ HasShape(v.v[i][2], t.b)
           [] t.k = "tup" -> v.t = "struct" /\ AllShape(v.v, t.items)
           [] t.k = "comp" -> v.t \in {"struct", "union"}
           [] t.k = "fn" -> v.t = "fn"
           [] t.k = "native" -> v.t = "native"
           [] OTHER -> TRUE                       \* free generic parameter: nothing is known

=============================================================================
