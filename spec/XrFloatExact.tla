---------------------------- MODULE XrFloatExact ----------------------------
(***************************************************************************)
(* Float arithmetic on values where it is exact (std/float.md: add, sub,   *)
(* mul, pow, sqrt, floor, ceil "return" the mathematical result; IEEE-754   *)
(* arithmetic and a faithful libm return it exactly whenever it is a       *)
(* double).  TLC has no reals: a value is a dyadic rational n / 2^k, kept  *)
(* in lowest terms (n odd or k = 0), with n small enough for 32 bits.      *)
(*                                                                         *)
(* Acceptor over records observed from the interpreter (env TRACE):        *)
(*   {ev:"Fx", op, a:{n,k}, b:{n,k}, r:{err, big, n, k}}                    *)
(*   op in add sub mul pow powi sqrt floor ceil neg abs; b is the second   *)
(*   operand (powi: b.n is the integer exponent, b.k = 0); r.big = the     *)
(*   result is a double that is not a small dyadic (never right here).     *)
(* Left open (std/float.md is silent): 0 ** 0, 0 ** negative, a negative   *)
(* base with an exponent below 1 (the implementation answers with an error *)
(* value, also for (-7.0) ** 0.0), sqrt of a negative number.              *)
(***************************************************************************)
EXTENDS Integers, Sequences, TLC, Json, IOUtils

Rec == ndJsonDeserialize(IOEnv.TRACE)
VARIABLE l

RECURSIVE P2(_), IPow(_, _), Norm(_, _), ISqrt(_, _)
P2(k) == IF k = 0 THEN 1 ELSE 2 * P2(k - 1)
IPow(n, p) == IF p = 0 THEN 1 ELSE n * IPow(n, p - 1)
Norm(n, k) == IF k > 0 /\ n % 2 = 0 THEN Norm(n \div 2, k - 1) ELSE [n |-> n, k |-> k]
ISqrt(n, c) == IF c * c >= n THEN c ELSE ISqrt(n, c + 1)          \* least c with c*c >= n

Max(a, b) == IF a > b THEN a ELSE b
Abs(n) == IF n < 0 THEN -n ELSE n
Add(a, b) == LET K == Max(a.k, b.k) IN Norm(a.n * P2(K - a.k) + b.n * P2(K - b.k), K)
Neg(a) == [n |-> -a.n, k |-> a.k]
Mul(a, b) == Norm(a.n * b.n, a.k + b.k)
PowI(a, p) == Norm(IPow(a.n, p), a.k * p)
IsInt(a) == a.k = 0
Floor(a) == a.n \div P2(a.k)                                        \* TLA+ \div floors
Ceil(a) == -((-a.n) \div P2(a.k))
\* square root of a dyadic that is a perfect square (k made even first)
EvenK(a) == IF a.k % 2 = 0 THEN a ELSE [n |-> 2 * a.n, k |-> a.k + 1]
IsSquare(a) == a.n >= 0 /\ LET e == EvenK(a) c == ISqrt(e.n, 0) IN c * c = e.n
Sqrt(a) == LET e == EvenK(a) IN Norm(ISqrt(e.n, 0), e.k \div 2)
Half == [n |-> 1, k |-> 1]

Is(r, v) == ~r.err /\ ~r.big /\ r.n = v.n /\ r.k = v.k
IsIntRes(r, i) == ~r.err /\ ~r.big /\ r.n = i /\ r.k = 0

FxOK(e) ==
    LET a == e.a  b == e.b  r == e.r IN
    CASE e.op = "add"   -> Is(r, Add(a, b))
      [] e.op = "sub"   -> Is(r, Add(a, Neg(b)))
      [] e.op = "mul"   -> Is(r, Mul(a, b))
      [] e.op = "neg"   -> Is(r, Neg(a))
      [] e.op = "abs"   -> Is(r, [n |-> Abs(a.n), k |-> a.k])
      [] e.op = "floor" -> IsIntRes(r, Floor(a))
      [] e.op = "ceil"  -> IsIntRes(r, Ceil(a))
      [] e.op = "sqrt"  -> IF a.n < 0 THEN r.err
                           ELSE IF IsSquare(a) THEN Is(r, Sqrt(a)) ELSE ~r.err
      [] e.op = "powi"  -> IF b.n > 0 THEN Is(r, PowI(a, b.n))
                           ELSE IF b.n = 0 /\ a.n > 0 THEN Is(r, [n |-> 1, k |-> 0])
                           ELSE TRUE
      [] e.op = "pow"   -> IF IsInt(b) /\ b.n > 0 THEN Is(r, PowI(a, b.n))
                           ELSE IF b.n = 0 /\ a.n > 0 THEN Is(r, [n |-> 1, k |-> 0])
                           ELSE IF a.n = 0 /\ b.n > 0 THEN Is(r, [n |-> 0, k |-> 0])   \* 0 ** positive = 0
                           ELSE IF b = Half /\ IsSquare(a) THEN Is(r, Sqrt(a))
                           ELSE IF a.n > 0 /\ b.n > 0 THEN ~r.err                      \* defined: a value
                           ELSE TRUE

Init == l = 1
Next == l <= Len(Rec) /\ Rec[l].ev = "Fx" /\ FxOK(Rec[l]) /\ l' = l + 1
Spec == Init /\ [][Next]_l
Accepted ==
    LET d == TLCGet("stats").diameter
    IN IF d - 1 = Len(Rec) THEN PrintT(<<"TRACE_ACCEPTED", Len(Rec)>>)
       ELSE PrintT(<<"TRACE_REJECTED_AT", d, ToJson(Rec[d])>>) /\ FALSE
=============================================================================
