"""C09 - Size limit is enforced and memory accounting balances.

Decided by: XrRuntime (spec/XrRuntime.tla).  (1) TLC model-checks the accounting design on
its own (MC_XrRuntime).  (2) Fault enumeration: every program is run with L = "infinity"
(2^30) recording the cumulative totals T_1, T_2, ...; it is re-run with L = T_i and
L = T_i - 1 for the selected allocation points i; every trace - including every failing one -
is validated by TLC against XrRuntime (conservation at every event, ok <=> total <= L, payload
covered, no underflow, bytes of a refused allocation not kept, nothing accumulates between
runs, accounted total back to zero after dropping everything, the host receives exactly the
first violation).  (3) L-independence: a limited run that passes must give the results of the unlimited run, and
raising L never turns a passing run into a failing one.  (Traces themselves are not compared
across runs: set/mapping bucket order depends on a randomly keyed hasher.)
"""
import json

import corpus
import progs
import vf

LEVEL = "fault_enumeration"
BIG = 2 ** 30


def strip(ev):
    e = dict(ev)
    e.pop("limit", None)
    e.pop("limits", None)
    e.pop("tmpl", None)      # template ids come from a process-global counter
    return e


def first_refusal(evs, L):
    for i, e in enumerate(evs):
        if e["ev"] == "Alloc" and e["total"] > L:
            return i
        if e["ev"] == "CanAlloc" and e["total"] + e["req"] > L:
            return i
    return None


def programs(tier, seed):
    ps = []
    nv = 1 if tier == "quick" else 4
    for name, src in progs.resource_programs(seed, nv):
        ps.append({"name": name, "src": src, "limits": {}, "perms": {}, "main": True})
    scr = [s for s in corpus.scripts() if not s["cfg"].get("expected_compilation_error")]
    if tier == "quick":
        step = max(1, len(scr) // 24)
        scr = scr[(seed % step)::step]
    for s in scr:
        ps.append({"name": "script" + s["num"], "src": s["src"], "limits": s["limits"],
                   "perms": s["perms"], "main": True, "now": s["cfg"].get("now")})
    return ps


def mkjob(p, L, jid, repeat=1):
    lim = dict(p["limits"])
    lim["size"] = L
    j = {"id": jid, "src": p["src"], "limits": lim, "perms": p["perms"], "trace": True,
         "calls": [{"op": "run", "fn": "main"}] * repeat, "observe": []}
    if p.get("now") is not None:
        j["now"] = p["now"]
    return j


def run(chk, tier, seed):
    # (1) the design on its own
    r = vf.tlc("MC_XrRuntime", "MC_XrRuntime_quick.cfg" if tier == "quick" else "MC_XrRuntime.cfg",
               "c09-mc", coverage=True, timeout=3000)
    if not r.ok:
        raise vf.ToolError("MC_XrRuntime failed:\n" + r.out[-2000:])
    chk.add_tlc(r)
    chk.part("model", states=r.distinct, generated=r.generated, vacuous=r.coverage_zero())

    ps = programs(tier, seed)
    # (2a) unlimited runs (twice main on one runtime: nothing accumulates)
    base_jobs = [mkjob(p, BIG, "%s@inf" % p["name"], repeat=2) for p in ps]
    base = vf.run_jobs(base_jobs, "c09-base", timeout_ms=120000)
    base2_jobs = [dict(j, id=j["id"] + "#2", trace=False) for j in base_jobs]
    base2 = vf.run_jobs(base2_jobs, "c09-base2", timeout_ms=120000)
    empty = vf.run_jobs([{"id": "empty", "src": "", "limits": {"size": BIG}, "trace": True}],
                        "c09-empty")["empty"]
    n_std_allocs = sum(1 for e in empty["events"] if e["ev"] == "Alloc")
    sweep_jobs = []
    meta = {}
    per_prog = 8 if tier == "quick" else 120
    for p, j in zip(ps, base_jobs):
        r0 = base[j["id"]]
        if "events" not in r0 or vf.job_outcome(r0) in ("crash", "timeout", "compile_err"):
            continue
        evs = r0["events"]
        totals = [e["total"] for e in evs if e["ev"] == "Alloc"]
        user = totals[n_std_allocs:]
        pts = sorted(set(user))
        if not pts:
            continue
        if len(pts) > per_prog:
            stepf = len(pts) / float(per_prog)
            pts = sorted(set(pts[int(k * stepf)] for k in range(per_prog)) | {pts[0], pts[-1]})
        std_pts = [totals[n_std_allocs // 2]] if n_std_allocs > 2 else []
        for T in pts + std_pts:
            for L in (T, T - 1):
                jid = "%s@%d" % (p["name"], L)
                if jid in meta:
                    continue
                sweep_jobs.append(mkjob(p, L, jid, repeat=2))
                meta[jid] = (p, L, j["id"])
    res = vf.run_jobs(sweep_jobs, "c09-sweep", timeout_ms=120000)
    chk.count(len(base_jobs) + len(sweep_jobs))

    # (2a') host histories on one runtime: run, reset the call budget, run again, reset the timeout, run - resets
    # may not touch the accounting, and dropping everything afterwards brings it back to zero
    hist_jobs = []
    for p in ps:
        lim = dict(p["limits"])
        lim["size"] = BIG
        lim.setdefault("calls", 10 ** 9)
        j = {"id": "%s@hist" % p["name"], "src": p["src"], "limits": lim, "perms": p["perms"], "trace": True, "observe": [],
             "calls": [{"op": "run", "fn": "main"}, {"op": "reset_calls"}, {"op": "run", "fn": "main"}, {"op": "reset_timeout"}, {"op": "run", "fn": "main"}]}
        if p.get("now") is not None:
            j["now"] = p["now"]
        hist_jobs.append(j)
    if tier == "quick":
        hist_jobs = hist_jobs[:12] + hist_jobs[12::3]
    hres = vf.run_jobs(hist_jobs, "c09-hist", timeout_ms=120000)
    chk.count(len(hist_jobs))
    vf.validate_job_traces(chk, hist_jobs, hres, "c09-hist", "run / reset history")
    for j in hist_jobs:
        o = hres[j["id"]]
        if vf.job_outcome(o) in ("crash", "timeout") or vf.job_outcome(o).endswith("panic") or "drop_panic" in o:
            chk.violation("run / reset history ended in %s %s" % (vf.job_outcome(o), str(o.get("drop_panic", ""))[:200]),
                          {"kind": "trace", "job": j, "observation": {k: v for k, v in o.items() if k != "events"}})
    # (2b) every trace is validated by the specification
    vf.validate_job_traces(chk, base_jobs, base, "c09-base", "unlimited run")
    vf.validate_job_traces(chk, sweep_jobs, res, "c09-sweep", "size-limited run")

    # (3) L-independence and monotonicity against the unlimited run
    passing = {}
    for j in sweep_jobs:
        p, L, bid = meta[j["id"]]
        r = res.get(j["id"])
        r0 = base[bid]
        oc = vf.job_outcome(r)
        if oc in ("crash", "timeout") or oc.endswith("panic"):
            chk.violation("size-limited run ended in %s" % oc,
                          {"kind": "trace", "job": j, "observation": {k: v for k, v in (r or {}).items() if k != "events"}})
            continue
        evs = r["events"]
        cut = first_refusal(evs, L)
        refused = cut is not None
        if refused:
            chk.nontrivial([p["name"], L])
        if not refused:
            same = (r.get("calls") == r0.get("calls") and r.get("stdout") == r0.get("stdout")
                    and vf.job_outcome(r) == vf.job_outcome(r0))
            # programs whose two unlimited runs already differ (set/mapping iteration order is
            # unspecified and the hasher is randomly keyed) are not comparable
            rb = base2.get(bid + "#2")
            stable = rb is not None and rb.get("calls") == r0.get("calls") and rb.get("stdout") == r0.get("stdout")
            if stable and not same:
                chk.violation("passing run under L=%d gives different results than unlimited" % L,
                              {"kind": "trace", "job": j, "reason": "result depends on L",
                               "limited": r.get("calls"), "unlimited": r0.get("calls")})
            passing.setdefault(p["name"], []).append((L, True))
        else:
            if not vf.job_outcome(r).endswith("AllocationLimitReached"):
                chk.violation("an allocation was refused under L=%d but the host got %s" % (L, vf.job_outcome(r)),
                              {"kind": "trace", "job": j, "reason": "refusal not reported"})
            passing.setdefault(p["name"], []).append((L, False))
    for name, lst in passing.items():
        lst.sort()
        seen_pass = None
        for L, ok in lst:
            if ok and seen_pass is None:
                seen_pass = L
            if seen_pass is not None and not ok:
                chk.violation("raising L from %d to %d turned a passing run of %s into a failing one" % (seen_pass, L, name),
                              {"kind": "monotonicity", "program": name, "runs": lst})
                break
    chk.cov["rule"] = ("programs = resource pool (ints across 2^63, strings, sequences, stacks, mappings, sets, "
                       "closures, compounds, generators, errors) + shipped scripts; each run twice on one runtime with "
                       "L=2^30, then with L=T_i and T_i-1 for allocation points T_i of the unlimited run; "
                       "non-trivial = distinct (program, L) whose run had an allocation refused")
    ex = sweep_jobs[len(sweep_jobs) // 2] if sweep_jobs else None
    if ex:
        r = res[ex["id"]]
        chk.sample({"program": ex["id"], "limits": ex["limits"], "outcome": vf.job_outcome(r),
                    "events": len(r.get("events", [])), "src": ex["src"][:300]})
    chk.part("sweep", programs=len(ps), runs=len(sweep_jobs), std_allocs=n_std_allocs)
    chk.assumptions += ["XrRuntime trace acceptor soundness; hooks log state at allocate/deallocate (src/runtime.rs)",
                        "search trips are not instrumented (MaximumSearch may surface without an earlier doom event)"]


def replay(chk, path):
    rp = json.load(open(path))
    return vf.replay_trace_job(chk, rp)
