INIT Init
NEXT Next
INVARIANT EmitPair
INVARIANT Reflexive
INVARIANT RigidIsOpaque
INVARIANT NothingElseIntoRigid
INVARIANT Transitive
CHECK_DEADLOCK FALSE
