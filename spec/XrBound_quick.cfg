INIT Init
NEXT Next
CONSTANT MaxAdaptors = 1
INVARIANT Emit
INVARIANT FiniteNeverDiverges
CHECK_DEADLOCK FALSE
