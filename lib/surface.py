"""The library surface: every root-scope signature exported by the implementation itself
(hook `verif_signatures`), a parser for the rendered type strings, and canonical
inhabitant expressions so that type-correct calls can be synthesised for any signature.
Inputs only: what a call must yield is decided by the specifications."""
import re

import vf


# ---------------------------------------------------------------------------------- type parser
class T:
    def __init__(self, kind, name=None, args=None, ret=None, opt=None):
        self.kind, self.name, self.args, self.ret, self.opt = kind, name, args or [], ret, opt or []

    def __repr__(self):
        return render_type(self)


def _tokens(s):
    return re.findall(r"->|[A-Za-z_][A-Za-z_0-9]*|[()<>,?]", s)


def parse_type(s):
    toks = _tokens(s)
    pos = [0]

    def peek():
        return toks[pos[0]] if pos[0] < len(toks) else None

    def take(x=None):
        t = toks[pos[0]]
        if x is not None and t != x:
            raise ValueError("expected %s got %s in %s" % (x, t, s))
        pos[0] += 1
        return t

    def ty():
        t = peek()
        if t == "?":
            take()
            return T("unknown")
        if t == "(":
            take("(")
            items, opts = [], []
            while peek() != ")":
                items.append(ty())
                if peek() == "?":
                    take()
                    opts.append(True)
                else:
                    opts.append(False)
                if peek() == ",":
                    take()
            take(")")
            if peek() == "->":
                take()
                if peek() == "(":
                    # XCallable renders its return type in parentheses
                    save = pos[0]
                    take("(")
                    r = ty()
                    if peek() == ")":
                        take(")")
                        # "(A)->(R)" ; but "(A)->(X, Y)" would be a tuple: disambiguate by ','
                        return T("fn", args=items, ret=r, opt=opts)
                    pos[0] = save
                r = ty()
                return T("fn", args=items, ret=r, opt=opts)
            return T("tuple", args=items)
        name = take()
        if peek() == "<":
            take("<")
            args = []
            while peek() != ">":
                args.append(ty())
                if peek() == ",":
                    take()
            take(">")
            return T("app", name=name, args=args)
        return T("name", name=name)
    r = ty()
    if pos[0] != len(toks):
        raise ValueError("trailing tokens in " + s)
    return r


def render_type(t):
    if t.kind == "unknown":
        return "?"
    if t.kind == "name":
        return t.name
    if t.kind == "app":
        return "%s<%s>" % (t.name, ", ".join(render_type(a) for a in t.args)) if t.args else t.name
    if t.kind == "tuple":
        return "(%s)" % ", ".join(render_type(a) for a in t.args)
    if t.kind == "fn":
        return "(%s)->(%s)" % (", ".join(render_type(a) for a in t.args), render_type(t.ret))
    raise ValueError(t.kind)


def subst(t, env):
    if t.kind == "name" and t.name in env:
        return env[t.name]
    if t.kind in ("app", "tuple"):
        return T(t.kind, name=t.name, args=[subst(a, env) for a in t.args])
    if t.kind == "fn":
        return T("fn", args=[subst(a, env) for a in t.args], ret=subst(t.ret, env), opt=t.opt)
    return t


INT, FLOAT, STR, BOOL = (T("name", name=n) for n in ("int", "float", "str", "bool"))

# ---------------------------------------------------------------------------------- inhabitants
PRIMS = {
    "int": ["3", "0", "1", "(-2)", "7"],
    "float": ["1.5", "0.0", "1.0", "(-2.5)", "0.25"],
    "str": ['"ab"', '""', '"a"', '"héllo"', '"x y"'],
    "bool": ["true", "false"],
}
COMPOUNDS = {
    "Fraction": ["fraction(1, 2)", "fraction(0)", "fraction(-3, 4)"],
    "Complex": ["complex(1.5)", "Complex(0.0, 1.0)"],
    "Duration": ["seconds(5.0)", "Duration(0.0)"],
    "Date": ["Date(2000, 1, 2)", "Date(1999, 12, 31)"],
    "Datetime": ["datetime(86400.5)", "Datetime(Date(2001, 2, 3), 4, 5, 6.5)"],
    "JSON": ["json(1)", 'json("s")', "json([json(true)])"],
    "Regex": ['regex("a+")', 'regex("(b)|(?P<n>c)")'],
    "Match": ['regex("(a+)(?P<n>b)?").search("xaab").value()', 'regex("(b)|(?P<n>é)").search("aé").value()'],
    "LinearRegression": ["LinearRegression(2.0, 1.0)", "LinearRegression(0.0, 0.0)"],
}


class NoInhabitant(Exception):
    pass


def inhabitants(t, k=0, depth=0):
    """a list of source texts of type t (first = canonical); raises NoInhabitant"""
    if depth > 5:
        raise NoInhabitant(render_type(t))
    if t.kind == "name":
        if t.name in PRIMS:
            return PRIMS[t.name]
        if t.name in COMPOUNDS:
            return COMPOUNDS[t.name]
        raise NoInhabitant(t.name)
    if t.kind == "tuple":
        parts = [inhabitants(a, k, depth + 1) for a in t.args]
        first = [p[0] for p in parts]
        if len(first) == 1:
            return ["(%s,)" % first[0]]
        return ["(%s)" % ", ".join(first)]
    if t.kind == "fn":
        ps = ", ".join("a%d: %s" % (i, render_type(a)) for i, a in enumerate(t.args))
        r = inhabitants(t.ret, k, depth + 1)[0]
        res = ["(%s) -> {%s}" % (ps, r)]
        # an identity-like variant when the first parameter has the return type
        if t.args and render_type(t.args[0]) == render_type(t.ret):
            res.append("(%s) -> {a0}" % ps)
        return res
    if t.kind == "app":
        n = t.name
        if n in ("Sequence", "Generator", "Stack", "Optional", "Set") and len(t.args) == 1:
            if t.args[0].kind == "unknown":
                return {"Sequence": ["[]"], "Generator": ["[].to_generator()"], "Stack": ["stack()"],
                        "Optional": ["none()"], "Set": []}.get(n) or _no(t)
            xs = inhabitants(t.args[0], k, depth + 1)
            x0 = xs[0]
            x1 = xs[1] if len(xs) > 1 else xs[0]
            et = render_type(t.args[0])
            if n == "Sequence":
                res = ["[%s, %s]" % (x0, x1), "[%s]" % x0, "[%s, %s, %s].map((v: %s) -> {v})" % (x0, x1, x0, et),
                       "[%s].skip(1)" % x0]
                if et == "int":
                    res += ["range(4)", "range(5, 1, (-2))"]
                return res
            if n == "Generator":
                return ["[%s, %s].to_generator()" % (x0, x1), "[%s].to_generator().skip(1)" % x0]
            if n == "Stack":
                return ["stack().push(%s).push(%s)" % (x0, x1), "cast<Stack<%s>>(stack())" % et]
            if n == "Optional":
                return ["some(%s)" % x0, "cast<Optional<%s>>(none())" % et]
            if n == "Set":
                if et in ("int", "str", "bool"):
                    return ["set<%s>().add(%s).add(%s)" % (et, x0, x1), "set<%s>()" % et]
                raise NoInhabitant(render_type(t))
        if n == "Mapping" and len(t.args) == 2:
            kt = render_type(t.args[0])
            if kt not in ("int", "str", "bool"):
                raise NoInhabitant(render_type(t))
            k0 = inhabitants(t.args[0], k, depth + 1)[0]
            if t.args[1].kind == "unknown":
                return ["mapping<%s>()" % kt]
            v0 = inhabitants(t.args[1], k, depth + 1)[0]
            return ["mapping<%s>().set(%s, %s)" % (kt, k0, v0),
                    "cast<Mapping<%s, %s>>(mapping<%s>())" % (kt, render_type(t.args[1]), kt)]
        if n == "Matrix" and len(t.args) == 1:
            x0 = inhabitants(t.args[0], k, depth + 1)[0]
            return ["matrix([[%s, %s], [%s, %s]])" % (x0, x0, x0, x0)]
        if n == "ContinuousDistribution":
            return ["normal_distribution(0.0, 1.0)", "rectangular_distribution(0.0, 2.0)"]
        if n == "DiscreteDistribution":
            return ["uniform_distribution(1, 6)", "binomial_distribution(4, 0.5)"]
        if n in COMPOUNDS:
            return COMPOUNDS[n]
    raise NoInhabitant(render_type(t))


def _no(t):
    raise NoInhabitant(render_type(t))


# ---------------------------------------------------------------------------------- signatures
_SIGS = None


def all_signatures():
    global _SIGS
    if _SIGS is None:
        _SIGS = vf.signatures()
    return _SIGS


def static_signatures():
    """[{name, generics, params:[(T, required)], ret:T}] for signatures whose types parse"""
    out = []
    for s in all_signatures():
        if s["kind"] != "static":
            continue
        try:
            ps = [(parse_type(p["type"]), p["required"]) for p in s["sig"]["params"]]
            ret = parse_type(s["sig"]["ret"])
        except ValueError:
            continue
        out.append({"name": s["name"], "generics": s["sig"]["generics"], "params": ps, "ret": ret,
                    "text": "%s(%s)->%s" % (s["name"], ", ".join(p["type"] + ("" if p["required"] else "?")
                                                                for p in s["sig"]["params"]), s["sig"]["ret"])})
    out.sort(key=lambda x: x["text"])
    return out


def instantiate(sig, gtype=INT):
    """bind every generic parameter to gtype; returns (param types, ret type)"""
    env = {g: gtype for g in sig["generics"]}
    return [subst(p, env) for p, _ in sig["params"]], subst(sig["ret"], env)


# functions that need a permission that is off by default, block, or are internal
SKIP = {"sleep", "__std_sleep", "regex", "debug"}
