INIT Init
NEXT Next
CONSTANT MaxAdaptors = 2
INVARIANT Emit
INVARIANT FiniteNeverDiverges
INVARIANT ProvAligned
CHECK_DEADLOCK FALSE
